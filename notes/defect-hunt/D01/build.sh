#!/bin/sh
# builds the findings against the unmodified library build in ../_build
cd "$(dirname "$0")"
for i in 1 2 3 4; do
  g++ -std=c++17 -O1 -g -I../include finding$i.cpp ../_build/src/libUTAP.a -lxml2 -ldl -o finding$i || exit 1
done
