// Helper shared by the findings: runs a callable in a forked child so that a
// crash or a hang of the library is turned into exit status 1 of the finding.
#pragma once
#include <sys/wait.h>
#include <unistd.h>
#include <csignal>
#include <cstring>
#include <cstdio>
#include <exception>

// returns 0 if fn() returned or threw a std::exception within `seconds`,
// 1 if the child was killed by a signal (crash) or did not finish in time.
template <typename Fn>
int run_guarded(const char* what, unsigned seconds, Fn&& fn)
{
    fflush(nullptr);
    pid_t pid = fork();
    if (pid == 0) {
        alarm(seconds);
        try {
            fn();
        } catch (const std::exception& e) {
            _exit(0);  // allowed by the property: diagnostics or a std::exception
        } catch (...) {
            _exit(3);
        }
        _exit(0);
    }
    int st = 0;
    waitpid(pid, &st, 0);
    if (WIFSIGNALED(st)) {
        if (WTERMSIG(st) == SIGALRM)
            printf("VIOLATION: %s: did not terminate within %u s\n", what, seconds);
        else
            printf("VIOLATION: %s: killed by signal %d (%s)\n", what, WTERMSIG(st), strsignal(WTERMSIG(st)));
        return 1;
    }
    if (WEXITSTATUS(st) != 0) {
        printf("VIOLATION: %s: exit status %d (non-std exception)\n", what, WEXITSTATUS(st));
        return 1;
    }
    printf("ok: %s\n", what);
    return 0;
}
