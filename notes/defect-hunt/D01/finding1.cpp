// C01 finding 1: using the name of a template (or any other non-variable symbol
// that carries user data) in an array size / scalar set size inside a template
// makes collectDependencies() cast the symbol's user data to variable_t* and
// read through it: invalid memory read, SIGSEGV in parse_XTA / parse_XML_buffer.
#include "common.h"
#include "utap/utap.h"
#include <cstring>

static const char* xta = "process T() { int q[T]; state L0; init L0; }\n"
                         "system T;\n";

static const char* xml = R"XML(<?xml version="1.0" encoding="utf-8"?>
<nta>
  <declaration></declaration>
  <template>
    <name>T</name>
    <declaration>int q[T];</declaration>
    <location id="id0"/>
    <init ref="id0"/>
  </template>
  <system>system T;</system>
</nta>)XML";

// same hole in the twin function in ExpressionBuilder.cpp (type_scalar)
static const char* xta_scalar = "process T() { state L0, L1; init L0; trans L0 -> L1 { select i : scalar[T]; }; }\n"
                                "system T;\n";

int main()
{
    int bad = 0;
    bad |= run_guarded("parse_XTA: int q[T] inside template T", 20, [] {
        UTAP::Document doc;
        parse_XTA(xta, &doc, true);
    });
    bad |= run_guarded("parse_XML_buffer: int q[T] inside template T", 20, [] {
        UTAP::Document doc;
        parse_XML_buffer(xml, &doc, true);
    });
    bad |= run_guarded("parse_XTA: select i : scalar[T] inside template T", 20, [] {
        UTAP::Document doc;
        parse_XTA(xta_scalar, &doc, true);
    });
    return bad;
}
