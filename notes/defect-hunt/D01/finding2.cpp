// C01 finding 2: exit() used outside of a template (global function, global
// initialiser, array size, progress measure, ...) dereferences the null
// TypeChecker::temp: SIGSEGV in parse_XTA / parse_XML_buffer.
#include "common.h"
#include "utap/utap.h"

static const char* xta = "void f() { exit(); }\n"
                         "process T() { state L0; init L0; }\n"
                         "system T;\n";

static const char* xml = R"XML(<?xml version="1.0" encoding="utf-8"?>
<nta>
  <declaration>void f() { exit(); }</declaration>
  <template>
    <name>T</name>
    <location id="id0"/>
    <init ref="id0"/>
  </template>
  <system>system T;</system>
</nta>)XML";

int main()
{
    int bad = 0;
    bad |= run_guarded("parse_XTA: exit() in a global function", 20, [] {
        UTAP::Document doc;
        parse_XTA(xta, &doc, true);
    });
    bad |= run_guarded("parse_XML_buffer: exit() in a global function", 20, [] {
        UTAP::Document doc;
        parse_XML_buffer(xml, &doc, true);
    });
    return bad;
}
