// C01 finding 3: a query with an empty observation list, "{} control: A<> true",
// makes PrettyPrinter::expr_nary(LIST, 0) read st.back() of an empty vector and
// then loop 2^32-1 times popping it: SIGSEGV in parseProperty with the
// pretty-printing back end.
#include "common.h"
#include "utap/builder.h"
#include "utap/prettyprinter.h"
#include <sstream>

int main()
{
    return run_guarded("parseProperty(\"{} control: A<> true\", &prettyPrinter)", 20, [] {
        std::ostringstream os;
        UTAP::PrettyPrinter pp(os);
        parseProperty("{} control: A<> true", &pp);
    });
}
