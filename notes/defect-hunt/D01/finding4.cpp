// C01 finding 4: time exponential in the input size.  A chain of 40 typedef'd
// structs, each with two fields of the previous type (1.6 KB of text), is a DAG
// of 41 nodes, but mustInitialise()/initialisable() (StatementBuilder.cpp) and
// TypeChecker::checkType() walk it as a tree with 2^40 leaves when a variable of
// the last type is declared: parse_XTA / parse_XML_buffer do not return.
#include "common.h"
#include "utap/utap.h"
#include <chrono>
#include <string>

static std::string model(int n)
{
    std::string s = "typedef struct { int a; } T0;\n";
    for (int i = 1; i <= n; ++i) {
        auto p = std::to_string(i - 1);
        s += "typedef struct { T" + p + " a; T" + p + " b; } T" + std::to_string(i) + ";\n";
    }
    s += "T" + std::to_string(n) + " v;\n";
    s += "process Q() { state s; init s; }\nsystem Q;\n";
    return s;
}

static double seconds(int n)
{
    auto m = model(n);
    auto t0 = std::chrono::steady_clock::now();
    UTAP::Document doc;
    parse_XTA(m.c_str(), &doc, true);
    return std::chrono::duration<double>(std::chrono::steady_clock::now() - t0).count();
}

int main()
{
    // show the doubling per added line of input
    for (int n : {16, 18, 20, 22})
        printf("n=%d  input %zu bytes  parse_XTA %.2f s\n", n, model(n).size(), seconds(n));
    // 1.6 KB of input: would take days
    return run_guarded("parse_XTA on 40 nested struct typedefs (1.6 KB)", 30, [] {
        auto m = model(40);
        UTAP::Document doc;
        parse_XTA(m.c_str(), &doc, true);
    });
}
