// C03 finding 1: a process-set lookup  Train(1).v  is printed  Train[1].v , which the parser rejects.
//
// Build: g++ -std=c++17 -I/tmp/wt-D03/include -I/tmp/wt-D03/test -I/usr/include/libxml2 \
//        -DMODELS_DIR=\"/tmp/wt-D03/test/models\" finding1.cpp -o finding1 \
//        /tmp/wt-D03/_build/src/libUTAP.a -lxml2 -ldl
#include "document_fixture.h"

#include <iostream>

using namespace UTAP;

int main()
{
    // template Train(const id_t id) { int v; }   system Train;   (the classic train-gate set-up)
    auto f = document_fixture{};
    f.add_global_decl("typedef int[0,2] id_t;");
    f.add_template(template_fixture("Train").add_parameter("const id_t id").add_declaration("int v;").str());
    f.add_process("Train");
    auto doc = f.parse();
    if (!doc->get_errors().empty()) {
        std::cerr << "unexpected: model rejected: " << doc->get_errors()[0].msg << "\n";
        return 2;
    }

    const char* query = "E<> Train(1).v > 0";
    auto qb1 = QueryBuilder{*doc};
    if (parseProperty(query, &qb1) != 0 || !doc->get_errors().empty()) {
        std::cerr << "unexpected: query rejected\n";
        return 2;
    }
    qb1.typecheck();
    if (!doc->get_errors().empty()) {
        std::cerr << "unexpected: query does not type check\n";
        return 2;
    }
    const auto e1 = qb1.getQuery();
    const auto s1 = e1.str();
    std::cout << "query   : " << query << "\nprinted : " << s1 << "\n";

    auto qb2 = QueryBuilder{*doc};
    auto res = parseProperty(s1.c_str(), &qb2);
    if (res == 0 && doc->get_errors().empty())
        qb2.typecheck();
    if (res != 0 || !doc->get_errors().empty()) {
        std::cout << "VIOLATION: the printed text is rejected: "
                  << (doc->get_errors().empty() ? "syntax error" : doc->get_errors()[0].msg) << "\n";
        return 1;
    }
    const auto e2 = qb2.getQuery();
    if (!e1.equal(e2)) {
        std::cout << "VIOLATION: the printed text parses to a different tree\n";
        return 1;
    }
    if (e2.str() != s1) {
        std::cout << "VIOLATION: second print differs: " << e2.str() << "\n";
        return 1;
    }
    std::cout << "round trip ok\n";
    return 0;
}
