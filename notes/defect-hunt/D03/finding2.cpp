// C03 finding 2: an initialiser list  {{1,2},{3,4}}  is printed  1, 2, 3, 4  (braces and nesting lost).
//
// Build: g++ -std=c++17 -I/tmp/wt-D03/include -I/tmp/wt-D03/test -I/usr/include/libxml2 \
//        -DMODELS_DIR=\"/tmp/wt-D03/test/models\" finding2.cpp -o finding2 \
//        /tmp/wt-D03/_build/src/libUTAP.a -lxml2 -ldl
#include "document_fixture.h"

#include <iostream>

using namespace UTAP;

static std::unique_ptr<Document> model(const std::string& initialiser)
{
    auto f = document_fixture{};
    f.add_global_decl("int m[2][2] = " + initialiser + ";");
    f.add_default_process();
    return f.parse();
}

static const variable_t* find(const Document& doc, const std::string& name)
{
    for (const auto& v : const_cast<Document&>(doc).get_globals().variables)
        if (v.uid.get_name() == name)
            return &v;
    return nullptr;
}

/// structural equality across two documents: kinds, arity and constant values
static bool same(const expression_t& a, const expression_t& b)
{
    if (a.empty() || b.empty())
        return a.empty() == b.empty();
    if (a.get_kind() != b.get_kind() || a.get_size() != b.get_size())
        return false;
    if (a.get_kind() == Constants::CONSTANT && a.get_value() != b.get_value())
        return false;
    for (uint32_t i = 0; i < a.get_size(); ++i)
        if (!same(a[i], b[i]))
            return false;
    return true;
}

int main()
{
    const auto text = std::string{"{{1, 2}, {3, 4}}"};
    auto doc1 = model(text);
    if (!doc1->get_errors().empty()) {
        std::cerr << "unexpected: model rejected: " << doc1->get_errors()[0].msg << "\n";
        return 2;
    }
    const auto* v1 = find(*doc1, "m");
    if (v1 == nullptr)
        return 2;
    const auto s1 = v1->init.str();
    std::cout << "initialiser : " << text << "\nprinted     : " << s1 << "\ndeclaration : " << v1->str() << "\n";

    auto doc2 = model(s1);
    if (!doc2->get_errors().empty()) {
        std::cout << "VIOLATION: the printed initialiser is rejected: " << doc2->get_errors()[0].msg << "\n";
        return 1;
    }
    const auto* v2 = find(*doc2, "m");
    if (v2 == nullptr || !same(v1->init, v2->init)) {
        std::cout << "VIOLATION: the printed initialiser parses to a different tree\n";
        return 1;
    }
    if (v2->init.str() != s1) {
        std::cout << "VIOLATION: second print differs: " << v2->init.str() << "\n";
        return 1;
    }
    std::cout << "round trip ok\n";
    return 0;
}
