// C03 finding 3: a string constant is printed without its quotes:  s == "hello"  ->  s == hello
//
// Build: g++ -std=c++17 -I/tmp/wt-D03/include -I/tmp/wt-D03/test -I/usr/include/libxml2 \
//        -DMODELS_DIR=\"/tmp/wt-D03/test/models\" finding3.cpp -o finding3 \
//        /tmp/wt-D03/_build/src/libUTAP.a -lxml2 -ldl
#include "document_fixture.h"

#include <iostream>

using namespace UTAP;

int main()
{
    auto f = document_fixture{};
    f.add_global_decl("const string s = \"hello\";");
    f.add_default_process();
    auto doc = f.parse();
    if (!doc->get_errors().empty()) {
        std::cerr << "unexpected: model rejected: " << doc->get_errors()[0].msg << "\n";
        return 2;
    }

    const char* query = "E<> s == \"hello\"";
    auto qb1 = QueryBuilder{*doc};
    if (parseProperty(query, &qb1) != 0 || !doc->get_errors().empty()) {
        std::cerr << "unexpected: query rejected\n";
        return 2;
    }
    qb1.typecheck();
    if (!doc->get_errors().empty()) {
        std::cerr << "unexpected: query does not type check: " << doc->get_errors()[0].msg << "\n";
        return 2;
    }
    const auto e1 = qb1.getQuery();
    const auto s1 = e1.str();
    std::cout << "query   : " << query << "\nprinted : " << s1 << "\n";

    auto qb2 = QueryBuilder{*doc};
    auto res = parseProperty(s1.c_str(), &qb2);
    if (res == 0 && doc->get_errors().empty())
        qb2.typecheck();
    if (res != 0 || !doc->get_errors().empty()) {
        std::cout << "VIOLATION: the printed text is rejected: "
                  << (doc->get_errors().empty() ? "syntax error" : doc->get_errors()[0].msg) << "\n";
        return 1;
    }
    const auto e2 = qb2.getQuery();
    if (!e1.equal(e2)) {
        std::cout << "VIOLATION: the printed text parses to a different tree\n";
        return 1;
    }
    if (e2.str() != s1) {
        std::cout << "VIOLATION: second print differs: " << e2.str() << "\n";
        return 1;
    }
    std::cout << "round trip ok\n";
    return 0;
}
