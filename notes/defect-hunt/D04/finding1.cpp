// finding1: an <imports> element (allowed by the UPPAAL flat DTD as first child of <nta>)
// makes the reader drop the ENTIRE model: no globals, no templates, no processes.
#include "utap/utap.h"
#include "utap/document.h"
#include <iostream>
#include <string>
using namespace UTAP;

static const char* head = "<?xml version=\"1.0\" encoding=\"utf-8\"?>\n<nta>\n";
static const char* rest = R"(<declaration>int g;</declaration>
<template><name>P</name><location id="id0"/><init ref="id0"/></template>
<system>system P;</system>
</nta>
)";

static bool has_global(Document& d, const std::string& n)
{
    for (auto& v : d.get_globals().variables)
        if (v.uid.get_name() == n)
            return true;
    return false;
}

static int check(const std::string& imports)
{
    Document doc;
    std::string xml = std::string(head) + imports + rest;
    parse_XML_buffer(xml.c_str(), &doc, true);
    int bad = 0;
    if (doc.get_templates().size() != 1) { std::cout << "  templates: " << doc.get_templates().size() << " (expected 1)\n"; bad = 1; }
    if (doc.get_processes().size() != 1) { std::cout << "  processes: " << doc.get_processes().size() << " (expected 1)\n"; bad = 1; }
    if (!has_global(doc, "g")) { std::cout << "  global g missing\n"; bad = 1; }
    for (auto& e : doc.get_errors()) { std::cout << "  error: " << e.msg << "\n"; bad = 1; }
    return bad;
}

int main()
{
    std::cout << "control (no <imports>):\n";
    if (check("")) { std::cout << "control failed?!\n"; return 2; }
    std::cout << "  ok\nwith <imports>lib.so</imports>:\n";
    int bad = check("<imports>lib.so</imports>\n");
    std::cout << "with <imports/>:\n";
    bad |= check("<imports/>\n");
    return bad;
}
