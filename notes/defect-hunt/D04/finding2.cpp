// finding2: an XML comment (or processing instruction) inside the text of a <declaration>,
// <label>, <parameter>, <system> ... silently truncates that text: only the first text node is parsed.
#include "utap/utap.h"
#include "utap/document.h"
#include <iostream>
#include <string>
using namespace UTAP;

static const char* xml = R"(<nta>
<declaration>int g; <!-- note --> int h;</declaration>
<template><name>P</name><declaration>clock x, y;</declaration>
<location id="id0"/><location id="id1"/><init ref="id0"/>
<transition><source ref="id0"/><target ref="id1"/>
  <label kind="guard">x &lt; 5 <!-- and --> &amp;&amp; y &gt; 2</label>
</transition>
</template>
<system>system P;</system>
</nta>
)";

int main()
{
    Document doc;
    parse_XML_buffer(xml, &doc, true);
    int bad = 0;
    bool g = false, h = false;
    for (auto& v : doc.get_globals().variables) {
        g |= v.uid.get_name() == "g";
        h |= v.uid.get_name() == "h";
    }
    std::cout << "global g " << (g ? "present" : "MISSING") << ", global h " << (h ? "present" : "MISSING") << "\n";
    if (!g || !h) bad = 1;
    auto& t = doc.get_templates().front();
    if (t.edges.size() != 1) { std::cout << "edges: " << t.edges.size() << "\n"; return 1; }
    std::string guard = t.edges[0].guard.str();
    std::cout << "guard = \"" << guard << "\" (expected \"x < 5 && y > 2\")\n";
    if (guard != "x < 5 && y > 2") bad = 1;
    std::cout << "errors reported: " << doc.get_errors().size() << ", warnings: " << doc.get_warnings().size() << "\n";
    return bad;
}
