// finding3: a transition whose <label kind="select"> comes after the label that uses the
// select variable: the identifier is resolved before the select symbol exists, so the guard is
// bound to ANOTHER symbol (here the global i) without any error, or is an "unknown identifier".
#include "utap/utap.h"
#include "utap/document.h"
#include <iostream>
#include <string>
using namespace UTAP;

static std::string model(bool select_first)
{
    std::string sel = "<label kind=\"select\">i : int[0,2]</label>";
    std::string grd = "<label kind=\"guard\">i == 1</label>";
    return std::string(R"(<nta>
<declaration>int i;</declaration>
<template><name>P</name>
<location id="id0"/><location id="id1"/><init ref="id0"/>
<transition><source ref="id0"/><target ref="id1"/>)") +
           (select_first ? sel + grd : grd + sel) + R"(</transition>
</template>
<system>system P;</system>
</nta>
)";
}

// returns 0 if the guard's identifier is the edge's select symbol
static int check(bool select_first)
{
    Document doc;
    auto xml = model(select_first);
    parse_XML_buffer(xml.c_str(), &doc, true);
    auto& e = doc.get_templates().front().edges.at(0);
    if (e.select.get_size() != 1) { std::cout << "  select size " << e.select.get_size() << "\n"; return 1; }
    symbol_t used = e.guard[0].get_symbol();   // guard is "i == 1"
    bool same = used == e.select[0];
    std::cout << "  guard \"" << e.guard.str() << "\": i is " << (same ? "the select variable" : "NOT the select variable")
              << " (type " << used.get_type().str() << "), errors=" << doc.get_errors().size() << "\n";
    return same ? 0 : 1;
}

int main()
{
    std::cout << "select label first:\n";
    if (check(true)) { std::cout << "control failed?!\n"; return 2; }
    std::cout << "guard label first, select label second (same element set, same edge):\n";
    return check(false);
}
