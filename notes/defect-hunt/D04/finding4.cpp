// finding4: edge_t::str()/print() dereferences src and dst unconditionally; for an edge that
// starts or ends in a branchpoint one of them is nullptr (srcb/dstb is set instead) -> crash.
#include "utap/utap.h"
#include "utap/document.h"
#include <iostream>
#include <string>
using namespace UTAP;

static const char* xml = R"(<nta>
<template><name>P</name>
<location id="id0"/><branchpoint id="id1"/><init ref="id0"/>
<transition><source ref="id0"/><target ref="id1"/></transition>
<transition><source ref="id1"/><target ref="id0"/><label kind="probability">1</label></transition>
</template>
<system>system P;</system>
</nta>
)";

int main()
{
    Document doc;
    parse_XML_buffer(xml, &doc, true);
    if (doc.has_errors()) { std::cout << "unexpected errors\n"; return 2; }
    for (auto& e : doc.get_templates().front().edges) {
        std::cout << "edge " << e.nr << ": src=" << (void*)e.src << " srcb=" << (void*)e.srcb << " dst=" << (void*)e.dst
                  << " dstb=" << (void*)e.dstb << std::endl;
        std::cout << e.str() << std::endl;  // crashes (SIGSEGV) on the first edge
    }
    return 0;
}
