// C05 finding 1: an embedded query is stored by the XML front end but makes the
// XTA front end throw NotSupportedException("property is not supported").
#include "utap/utap.h"
#include <iostream>

static const char* xml = R"(<?xml version="1.0" encoding="utf-8"?>
<nta>
<declaration></declaration>
<template><name>P</name><location id="id0"><name>L</name></location><init ref="id0"/></template>
<system>system P;</system>
<queries><query><formula>A[] true</formula><comment></comment></query></queries>
</nta>)";

static const char* xta = R"(process P() { state L; init L; }
system P;
query { A[] true }
)";

int main()
{
    UTAP::Document dx, dt;
    if (parse_XML_buffer(xml, &dx, true) != 0 || dx.has_errors()) {
        std::cerr << "unexpected: XML rendering rejected\n";
        return 2;
    }
    std::cout << "XML: " << dx.get_queries().size() << " query, errors=" << dx.get_errors().size() << "\n";
    try {
        parse_XTA(xta, &dt, true);
    } catch (const std::exception& e) {
        std::cout << "XTA: exception escaped parse_XTA: " << e.what() << "\n";
        return 1;
    }
    std::cout << "XTA: " << dt.get_queries().size() << " query, errors=" << dt.get_errors().size() << "\n";
    if (dt.get_errors().size() != dx.get_errors().size() || dt.get_queries().size() != dx.get_queries().size())
        return 1;
    return 0;
}
