// C05 finding 2: in the XML rendering the order of the "invariant" and
// "exponentialrate" labels of a location decides which text becomes the
// invariant; the XTA rendering "{inv ; rate}" has no such dependency.
#include "utap/utap.h"
#include <iostream>

static const char* xml = R"(<?xml version="1.0" encoding="utf-8"?>
<nta>
<declaration>clock x;</declaration>
<template><name>P</name>
<location id="id0"><name>L</name><label kind="exponentialrate">7</label><label kind="invariant">x&lt;=5</label></location>
<init ref="id0"/></template>
<system>system P;</system>
</nta>)";

static const char* xta = R"(clock x;
process P() { state L {x<=5 ; 7}; init L; }
system P;
)";

static std::string show(UTAP::Document& d)
{
    auto& l = d.get_templates().front().locations.front();
    std::string s = "invariant=[" + l.invariant.str() + "] rate=[" + l.exp_rate.str() + "] errors=";
    for (auto& e : d.get_errors())
        s += e.msg + ";";
    return s;
}

int main()
{
    UTAP::Document dx, dt;
    parse_XML_buffer(xml, &dx, true);
    parse_XTA(xta, &dt, true);
    auto a = show(dx), b = show(dt);
    std::cout << "XML: " << a << "\nXTA: " << b << "\n";
    return a == b ? 0 : 1;
}
