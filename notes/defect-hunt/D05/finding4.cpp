// C05 finding 4: a template without locations is an error ($Missing_initial_location)
// in the XML rendering and is accepted without any diagnostic in the XTA rendering.
#include "utap/utap.h"
#include <iostream>

static const char* xml = R"(<?xml version="1.0" encoding="utf-8"?>
<nta>
<declaration></declaration>
<template><name>P</name></template>
<system>system P;</system>
</nta>)";

static const char* xta = R"(process P() { }
system P;
)";

static std::string show(UTAP::Document& d)
{
    auto& t = d.get_templates().front();
    std::string s = "template=" + t.uid.get_name() + " locations=" + std::to_string(t.locations.size()) +
                    " init=" + (t.init == UTAP::symbol_t() ? "<none>" : t.init.get_name()) + " errors=";
    for (auto& e : d.get_errors())
        s += e.msg + ";";
    return s;
}

int main()
{
    UTAP::Document dx, dt;
    parse_XML_buffer(xml, &dx, true);
    parse_XTA(xta, &dt, true);
    auto a = show(dx), b = show(dt);
    std::cout << "XML: " << a << "\nXTA: " << b << "\n";
    return a == b ? 0 : 1;
}
