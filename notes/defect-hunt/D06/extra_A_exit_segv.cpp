// Extra observation A (outside the letter of C06, a crash where a diagnostic is due):
// exit() used outside a template (global function) -> TypeChecker::checkExpression case EXIT
// dereferences the null current-template pointer `temp` (src/typechecker.cpp:1819-1820).
// Crashes with SIGSEGV (release) / assertion (debug); should exit 0 after reporting an error.
#include "utap/utap.h"
#include <iostream>
int main()
{
    const char* xml =
        "<?xml version=\"1.0\" encoding=\"utf-8\"?>\n<nta>\n"
        "<declaration>void f() { exit(); }</declaration>\n"
        "<template><name>P</name><location id=\"id0\"><name>A</name></location><init ref=\"id0\"/></template>\n"
        "<system>system P;</system>\n</nta>\n";
    UTAP::Document doc;
    parse_XML_buffer(xml, &doc, true);
    for (const auto& e : doc.get_errors())
        std::cout << e.str() << "\n";
    return doc.get_errors().empty() ? 1 : 0;
}
