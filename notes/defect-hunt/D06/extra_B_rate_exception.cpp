// Extra observation B (outside the letter of C06, an exception on a VALID model):
// an invariant with a fractional clock rate, x' == 1.5, makes FeatureChecker::isRateDisallowedInSymbolic
// (src/featurechecker.cpp:129) call expression_t::get_value() on a double constant ->
// std::bad_variant_access escapes from parse_XML_buffer. Should exit 0 (model accepted, no errors).
#include "utap/utap.h"
#include <iostream>
int main()
{
    const char* xml =
        "<?xml version=\"1.0\" encoding=\"utf-8\"?>\n<nta>\n"
        "<declaration>clock x;</declaration>\n"
        "<template><name>P</name><location id=\"id0\"><name>A</name>"
        "<label kind=\"invariant\">x' == 1.5</label></location><init ref=\"id0\"/></template>\n"
        "<system>system P;</system>\n</nta>\n";
    UTAP::Document doc;
    try {
        parse_XML_buffer(xml, &doc, true);
    } catch (const std::exception& ex) {
        std::cout << "exception: " << ex.what() << "\n";
        return 1;
    }
    for (const auto& e : doc.get_errors())
        std::cout << e.str() << "\n";
    return doc.get_errors().empty() ? 0 : 1;
}
