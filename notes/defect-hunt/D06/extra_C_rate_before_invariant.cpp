// Extra observation C (wrong document / spurious diagnostic on an innocent label):
// a location whose exponentialrate label precedes its invariant label gets the two expressions
// swapped by DocumentBuilder::proc_location (src/DocumentBuilder.cpp:183-195: pops the rate first,
// i.e. assumes it was parsed last). The valid model below is rejected with
// "$Number_expected" pointing at the invariant label. Should exit 0.
#include "utap/utap.h"
#include <iostream>
int main()
{
    const char* xml =
        "<?xml version=\"1.0\" encoding=\"utf-8\"?>\n<nta>\n"
        "<declaration>clock x;</declaration>\n"
        "<template><name>P</name><location id=\"id0\"><name>A</name>"
        "<label kind=\"exponentialrate\">2</label><label kind=\"invariant\">x&lt;=1</label>"
        "</location><init ref=\"id0\"/></template>\n"
        "<system>system P;</system>\n</nta>\n";
    UTAP::Document doc;
    parse_XML_buffer(xml, &doc, true);
    for (const auto& e : doc.get_errors())
        std::cout << e.str() << "\n";
    return doc.get_errors().empty() ? 0 : 1;
}
