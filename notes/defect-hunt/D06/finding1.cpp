// C06 finding 1: type-checker diagnostics raised on a prefix type that the builder created
// without a position carry position_t::unknown_pos (INT_MAX, INT_MAX): they resolve to the LAST
// line record of the document (here /nta/system) with a column of about 2^31.
//
//   (a) void f() { for (i : bool) { } }     -> "$Scalar_set_or_integer_expected"
//   (b) void f(void& v) { }                 -> "$Reference_to_this_type_not_allowed"
//
// Build: g++ -std=c++17 -I/tmp/wt-D06/include finding1.cpp /tmp/wt-D06/_build/src/libUTAP.a -lxml2 -ldl
#include "utap/utap.h"

#include <iostream>
#include <string>

using namespace UTAP;

static std::string model(const std::string& decl)
{
    std::string esc;
    for (char c : decl)
        if (c == '&')
            esc += "&amp;";
        else
            esc += c;
    return "<?xml version=\"1.0\" encoding=\"utf-8\"?>\n<nta>\n<declaration>" + esc +
           "</declaration>\n"
           "<template><name>P</name><location id=\"id0\"><name>A</name></location><init ref=\"id0\"/></template>\n"
           "<system>system P;</system>\n</nta>\n";
}

/** every error must lie inside the (single line) global declaration text */
static int check(const std::string& decl)
{
    Document doc;
    parse_XML_buffer(model(decl).c_str(), &doc, true);
    int bad = 0;
    if (doc.get_errors().empty()) {
        std::cout << "no error reported for: " << decl << "\n";
        return 1;
    }
    for (const auto& e : doc.get_errors()) {
        const std::string path = e.start.path ? *e.start.path : "";
        const long c1 = (long)e.position.start - (long)e.start.position;
        const long c2 = (long)e.position.end - (long)e.end.position;
        const bool ok = e.position.start != position_t::unknown_pos && path == "/nta/declaration" && e.start.line == 1 &&
                        e.end.line == 1 && 0 <= c1 && c1 <= c2 && c2 <= (long)decl.size();
        std::cout << (ok ? "ok : " : "BAD: ") << e.msg << " @ '" << path << "' line " << e.start.line << " col " << c1
                  << "-" << c2 << "   [str(): " << e.str() << "]\n";
        if (!ok)
            bad = 1;
    }
    return bad;
}

int main()
{
    int bad = 0;
    bad |= check("void f() { for (i : bool) { } }");
    bad |= check("void f(void& v) { }");
    return bad;
}
