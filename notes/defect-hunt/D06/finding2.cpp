// C06 finding 2: an undeclared identifier in the range position of a quantifier
// (a misspelt type name: "forall (i : idt) ..." instead of id_t) is reported with a range that
// covers "forall (i : idt" instead of exactly the identifier "idt".
//
// Build: g++ -std=c++17 -I/tmp/wt-D06/include finding2.cpp /tmp/wt-D06/_build/src/libUTAP.a -lxml2 -ldl
#include "utap/utap.h"

#include <iostream>
#include <string>

using namespace UTAP;

int main()
{
    const std::string guard = "forall (i : idt) g == i";  // idt is undeclared (id_t was meant)
    const std::string xml =
        "<?xml version=\"1.0\" encoding=\"utf-8\"?>\n<nta>\n"
        "<declaration>typedef int[0,1] id_t; int g;</declaration>\n"
        "<template><name>P</name><location id=\"id0\"><name>A</name></location><init ref=\"id0\"/>"
        "<transition><source ref=\"id0\"/><target ref=\"id0\"/><label kind=\"guard\">" +
        guard +
        "</label></transition></template>\n"
        "<system>system P;</system>\n</nta>\n";
    Document doc;
    parse_XML_buffer(xml.c_str(), &doc, true);
    int bad = 0, seen = 0;
    for (const auto& e : doc.get_errors()) {
        const long c1 = (long)e.position.start - (long)e.start.position;
        const long c2 = (long)e.position.end - (long)e.end.position;
        std::string covered = (e.start.line == 1 && e.end.line == 1 && 0 <= c1 && c1 <= c2 && c2 <= (long)guard.size())
                                  ? guard.substr(c1, c2 - c1)
                                  : "<outside>";
        std::cout << e.msg << " @ " << (e.start.path ? *e.start.path : "") << " col " << c1 << "-" << c2 << " covers '"
                  << covered << "'\n";
        if (e.msg.find("Unknown_identifier: idt") != std::string::npos) {
            ++seen;
            if (covered != "idt")
                bad = 1;
        }
    }
    if (!seen) {
        std::cout << "no unknown-identifier diagnostic\n";
        return 1;
    }
    return bad;
}
