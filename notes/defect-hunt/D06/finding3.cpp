// C06 finding 3: a diagnostic on the text of a <name> element is given the range
// [0, strlen(raw text)) on line 1, whatever the layout of the text. With the name on its own line
// (<name>\nint\n</name>) the reported range is line 1 columns 0-5, but line 1 is empty and the
// identifier is on line 2 columns 0-3.
//
// Build: g++ -std=c++17 -I/tmp/wt-D06/include finding3.cpp /tmp/wt-D06/_build/src/libUTAP.a -lxml2 -ldl
#include "utap/utap.h"

#include <iostream>
#include <sstream>
#include <string>
#include <vector>

using namespace UTAP;

int main()
{
    const std::string name = "\nint\n";  // a keyword: "$Keywords_are_not_allowed_here"
    const std::string xml =
        "<?xml version=\"1.0\" encoding=\"utf-8\"?>\n<nta>\n<declaration>int g;</declaration>\n"
        "<template><name>P</name><location id=\"id0\"><name>" +
        name +
        "</name></location><init ref=\"id0\"/></template>\n"
        "<system>system P;</system>\n</nta>\n";
    std::vector<std::string> lines;
    {
        std::string cur;
        for (char c : name)
            if (c == '\n') {
                lines.push_back(cur);
                cur.clear();
            } else
                cur += c;
        lines.push_back(cur);
    }
    Document doc;
    parse_XML_buffer(xml.c_str(), &doc, true);
    int bad = 0, seen = 0;
    for (const auto& e : doc.get_errors()) {
        const std::string path = e.start.path ? *e.start.path : "";
        if (path != "/nta/template[1]/location[1]/name")
            continue;
        ++seen;
        const long c1 = (long)e.position.start - (long)e.start.position;
        const long c2 = (long)e.position.end - (long)e.end.position;
        bool ok = e.start.line >= 1 && e.start.line <= lines.size() && e.end.line == e.start.line && 0 <= c1 && c1 <= c2 &&
                  c2 <= (long)lines[e.start.line - 1].size();
        std::cout << (ok ? "ok : " : "BAD: ") << e.msg << " @ " << path << " line " << e.start.line << " col " << c1 << "-"
                  << c2 << " (that line has " << (e.start.line <= lines.size() ? lines[e.start.line - 1].size() : 0)
                  << " characters)\n";
        if (!ok)
            bad = 1;
    }
    if (!seen) {
        std::cout << "no diagnostic on the name element\n";
        return 1;
    }
    return bad;
}
