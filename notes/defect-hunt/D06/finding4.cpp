// C06 finding 4: a syntax error detected at the end of a block ("dropped operand" at the last
// token, or an unterminated comment) is located on whatever the lexer matched last, also when that
// was not a token. When the block ends with a line break the diagnostic is placed ON THE NEWLINE
// CHARACTER: it starts at line 1 column 4 (one past the last character of the line) and ends at
// line 2 column 0 - start and end resolve to different lines and the start column is after the end
// column.
//
// Build: g++ -std=c++17 -I/tmp/wt-D06/include finding4.cpp /tmp/wt-D06/_build/src/libUTAP.a -lxml2 -ldl
#include "utap/utap.h"

#include <iostream>
#include <string>
#include <vector>

using namespace UTAP;

static int check(const std::string& guard)
{
    const std::string xml =
        "<?xml version=\"1.0\" encoding=\"utf-8\"?>\n<nta>\n<declaration>int g;</declaration>\n"
        "<template><name>P</name><location id=\"id0\"><name>A</name></location><init ref=\"id0\"/>"
        "<transition><source ref=\"id0\"/><target ref=\"id0\"/><label kind=\"guard\">" +
        guard +
        "</label></transition></template>\n"
        "<system>system P;</system>\n</nta>\n";
    std::vector<std::string> lines;
    {
        std::string cur;
        for (char c : guard)
            if (c == '\n') {
                lines.push_back(cur);
                cur.clear();
            } else
                cur += c;
        lines.push_back(cur);
    }
    Document doc;
    parse_XML_buffer(xml.c_str(), &doc, true);
    if (doc.get_errors().empty()) {
        std::cout << "no error\n";
        return 1;
    }
    int bad = 0;
    for (const auto& e : doc.get_errors()) {
        const long c1 = (long)e.position.start - (long)e.start.position;
        const long c2 = (long)e.position.end - (long)e.end.position;
        // the column range must lie within ONE line of the block, start not after end
        bool ok = e.start.line >= 1 && e.start.line <= lines.size() && e.end.line == e.start.line && 0 <= c1 && c1 <= c2 &&
                  c2 <= (long)lines[e.start.line - 1].size();
        std::cout << (ok ? "ok : " : "BAD: ") << e.msg << " @ " << (e.start.path ? *e.start.path : "") << " from line "
                  << e.start.line << " col " << c1 << " to line " << e.end.line << " col " << c2 << "\n";
        if (!ok)
            bad = 1;
    }
    return bad;
}

int main()
{
    int bad = 0;
    bad |= check("g ==\n");       // right operand dropped, block ends with a line break
    bad |= check("g == 1 /*\n");  // unterminated comment, block ends with a line break
    return bad;
}
