// C09 finding 1: a typedef whose name is one of the soft keywords A, U, W, R, E can be declared but never used,
// because the lexer returns the tokens 'A','U','W','R','E' without consulting is_type().
// Renaming the type to any other fresh identifier makes the same model accepted.
// ---- helpers (identical in all findingN.cpp) ----
#include "utap/property.h"
#include "utap/utap.h"

#include <iostream>
#include <regex>
#include <set>
#include <string>

struct Verdict
{
    std::multiset<std::string> diagnostics;  // messages only, positions ignored
    size_t properties = 0;                   // number of queries that were built
    bool operator==(const Verdict& o) const { return diagnostics == o.diagnostics && properties == o.properties; }
    bool operator!=(const Verdict& o) const { return !(*this == o); }
};

inline std::string rename_word(std::string text, const std::string& from, const std::string& to)
{
    if (from.empty() || from == to)
        return text;
    return std::regex_replace(text, std::regex("\\b" + from + "\\b"), to);
}

/** Parses model (XTA or XML) and then the optional query text; returns the verdict with `from` renamed to `to`. */
inline Verdict check(const std::string& model, const std::string& queries = "", bool xml = false,
                     const std::string& from = "", const std::string& to = "")
{
    UTAP::Document doc;
    if (xml)
        parse_XML_buffer(model.c_str(), &doc, true);
    else
        parse_XTA(model.c_str(), &doc, true);
    Verdict v;
    if (!queries.empty()) {
        UTAP::TigaPropertyBuilder pb(doc);
        try {
            pb.parse(queries.c_str());
        } catch (std::exception& e) {
            v.diagnostics.insert(std::string("exception: ") + e.what());
        }
        v.properties = pb.getProperties().size();
    }
    for (const auto& e : doc.get_errors())
        v.diagnostics.insert("error: " + rename_word(e.msg, from, to));
    for (const auto& w : doc.get_warnings())
        v.diagnostics.insert("warning: " + rename_word(w.msg, from, to));
    return v;
}

inline void show(const std::string& title, const Verdict& v)
{
    std::cout << "  " << title << ": " << v.diagnostics.size() << " diagnostic(s), " << v.properties
              << " propert(y/ies) built\n";
    for (const auto& d : v.diagnostics)
        std::cout << "      " << d << "\n";
}
// ---- end helpers ----

int main()
{
    const std::string tmpl = "typedef int[0,3] @;\n@ x;\nprocess P() { state s; init s; }\nsystem P;\n";
    int violations = 0;
    for (const std::string name : {"A", "U", "W", "R", "E", "T0"} /* T0: control, must not differ */) {
        std::string model = tmpl;
        for (auto p = model.find('@'); p != std::string::npos; p = model.find('@'))
            model.replace(p, 1, name);
        std::string ref_model = tmpl;
        for (auto p = ref_model.find('@'); p != std::string::npos; p = ref_model.find('@'))
            ref_model.replace(p, 1, "Fresh");
        const auto v = check(model, "", false, name, "Fresh");
        const auto r = check(ref_model);
        if (v != r) {
            ++violations;
            std::cout << "VIOLATION: type name '" << name << "' vs 'Fresh'\n";
            show("typedef named " + name, v);
            show("typedef named Fresh", r);
        }
    }
    return violations ? 1 : 0;
}
