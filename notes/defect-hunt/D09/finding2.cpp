// C09 finding 2: a leads-to query whose left operand starts with an array named A or E is a syntax error,
// because at the start of a property "A [" / "E [" is always shifted towards A[p U q] / E[bound](...)
// and NonTypeId: 'A' | 'E' is never reduced. Renaming the array makes the query accepted.
// ---- helpers (identical in all findingN.cpp) ----
#include "utap/property.h"
#include "utap/utap.h"

#include <iostream>
#include <regex>
#include <set>
#include <string>

struct Verdict
{
    std::multiset<std::string> diagnostics;  // messages only, positions ignored
    size_t properties = 0;                   // number of queries that were built
    bool operator==(const Verdict& o) const { return diagnostics == o.diagnostics && properties == o.properties; }
    bool operator!=(const Verdict& o) const { return !(*this == o); }
};

inline std::string rename_word(std::string text, const std::string& from, const std::string& to)
{
    if (from.empty() || from == to)
        return text;
    return std::regex_replace(text, std::regex("\\b" + from + "\\b"), to);
}

/** Parses model (XTA or XML) and then the optional query text; returns the verdict with `from` renamed to `to`. */
inline Verdict check(const std::string& model, const std::string& queries = "", bool xml = false,
                     const std::string& from = "", const std::string& to = "")
{
    UTAP::Document doc;
    if (xml)
        parse_XML_buffer(model.c_str(), &doc, true);
    else
        parse_XTA(model.c_str(), &doc, true);
    Verdict v;
    if (!queries.empty()) {
        UTAP::TigaPropertyBuilder pb(doc);
        try {
            pb.parse(queries.c_str());
        } catch (std::exception& e) {
            v.diagnostics.insert(std::string("exception: ") + e.what());
        }
        v.properties = pb.getProperties().size();
    }
    for (const auto& e : doc.get_errors())
        v.diagnostics.insert("error: " + rename_word(e.msg, from, to));
    for (const auto& w : doc.get_warnings())
        v.diagnostics.insert("warning: " + rename_word(w.msg, from, to));
    return v;
}

inline void show(const std::string& title, const Verdict& v)
{
    std::cout << "  " << title << ": " << v.diagnostics.size() << " diagnostic(s), " << v.properties
              << " propert(y/ies) built\n";
    for (const auto& d : v.diagnostics)
        std::cout << "      " << d << "\n";
}
// ---- end helpers ----

int main()
{
    int violations = 0;
    for (const std::string name : {"A", "E", "U", "sup"}) {
        const auto model = [](const std::string& n) {
            return "int " + n + "[2];\nint y;\nprocess P() { state s; init s; }\nsystem P;\n";
        };
        const auto query = [](const std::string& n) { return n + "[0] == 1 --> y == 2"; };
        const auto v = check(model(name), query(name), false, name, "Fresh");
        const auto r = check(model("Fresh"), query("Fresh"));
        if (v != r) {
            ++violations;
            std::cout << "VIOLATION: query \"" << query(name) << "\" vs \"" << query("Fresh") << "\"\n";
            show("array named " + name, v);
            show("array named Fresh", r);
        }
    }
    return violations ? 1 : 0;
}
