// C09 finding 3: inserting the comment /* EXPECT:x*/ (no blank before the closing star-slash) changes the verdict:
// the lexer rule "EXPECT:"[^\t \n]* inside <comment> swallows the comment terminator, so the rest of the
// input is treated as comment text.
// ---- helpers (identical in all findingN.cpp) ----
#include "utap/property.h"
#include "utap/utap.h"

#include <iostream>
#include <regex>
#include <set>
#include <string>

struct Verdict
{
    std::multiset<std::string> diagnostics;  // messages only, positions ignored
    size_t properties = 0;                   // number of queries that were built
    bool operator==(const Verdict& o) const { return diagnostics == o.diagnostics && properties == o.properties; }
    bool operator!=(const Verdict& o) const { return !(*this == o); }
};

inline std::string rename_word(std::string text, const std::string& from, const std::string& to)
{
    if (from.empty() || from == to)
        return text;
    return std::regex_replace(text, std::regex("\\b" + from + "\\b"), to);
}

/** Parses model (XTA or XML) and then the optional query text; returns the verdict with `from` renamed to `to`. */
inline Verdict check(const std::string& model, const std::string& queries = "", bool xml = false,
                     const std::string& from = "", const std::string& to = "")
{
    UTAP::Document doc;
    if (xml)
        parse_XML_buffer(model.c_str(), &doc, true);
    else
        parse_XTA(model.c_str(), &doc, true);
    Verdict v;
    if (!queries.empty()) {
        UTAP::TigaPropertyBuilder pb(doc);
        try {
            pb.parse(queries.c_str());
        } catch (std::exception& e) {
            v.diagnostics.insert(std::string("exception: ") + e.what());
        }
        v.properties = pb.getProperties().size();
    }
    for (const auto& e : doc.get_errors())
        v.diagnostics.insert("error: " + rename_word(e.msg, from, to));
    for (const auto& w : doc.get_warnings())
        v.diagnostics.insert("warning: " + rename_word(w.msg, from, to));
    return v;
}

inline void show(const std::string& title, const Verdict& v)
{
    std::cout << "  " << title << ": " << v.diagnostics.size() << " diagnostic(s), " << v.properties
              << " propert(y/ies) built\n";
    for (const auto& d : v.diagnostics)
        std::cout << "      " << d << "\n";
}
// ---- end helpers ----

int main()
{
    int violations = 0;
    const std::string tail = "process P() { state s; init s; }\nsystem P;\n";
    {  // model text
        const auto plain = check("int x;\nint y;\n" + tail);
        const auto spaced = check("int x; /* see EXPECT:none */\nint y;\n" + tail);
        const auto tight = check("int x; /* see EXPECT:none*/\nint y;\n" + tail);
        if (plain != spaced || plain != tight) {
            ++violations;
            std::cout << "VIOLATION (model): a comment changes the diagnostics\n";
            show("no comment", plain);
            show("/* see EXPECT:none */", spaced);
            show("/* see EXPECT:none*/", tight);
        }
    }
    {  // query text
        const std::string model = "int x;\nint y;\n" + tail;
        const auto plain = check(model, "A[] x == 0\nE<> y == 1\n");
        const auto spaced = check(model, "A[] x == 0 /* EXPECT:T */\nE<> y == 1\n");
        const auto tight = check(model, "A[] x == 0 /* EXPECT:T*/\nE<> y == 1\n");
        if (plain != spaced || plain != tight) {
            ++violations;
            std::cout << "VIOLATION (queries): a comment changes the diagnostics / built properties\n";
            show("no comment", plain);
            show("/* EXPECT:T */", spaced);
            show("/* EXPECT:T*/", tight);
        }
    }
    return violations ? 1 : 0;
}
