// C09 finding 4: the XML reader rejects the soft keywords sup, inf, bounds, simulation as template and
// location names ("Keywords are not allowed here"), although the grammar re-admits exactly these words as
// identifiers (NonTypeId), the same names are accepted as variables, and the XTA reader accepts them as
// location/template names. Renaming the location/template makes the model accepted.
// ---- helpers (identical in all findingN.cpp) ----
#include "utap/property.h"
#include "utap/utap.h"

#include <iostream>
#include <regex>
#include <set>
#include <string>

struct Verdict
{
    std::multiset<std::string> diagnostics;  // messages only, positions ignored
    size_t properties = 0;                   // number of queries that were built
    bool operator==(const Verdict& o) const { return diagnostics == o.diagnostics && properties == o.properties; }
    bool operator!=(const Verdict& o) const { return !(*this == o); }
};

inline std::string rename_word(std::string text, const std::string& from, const std::string& to)
{
    if (from.empty() || from == to)
        return text;
    return std::regex_replace(text, std::regex("\\b" + from + "\\b"), to);
}

/** Parses model (XTA or XML) and then the optional query text; returns the verdict with `from` renamed to `to`. */
inline Verdict check(const std::string& model, const std::string& queries = "", bool xml = false,
                     const std::string& from = "", const std::string& to = "")
{
    UTAP::Document doc;
    if (xml)
        parse_XML_buffer(model.c_str(), &doc, true);
    else
        parse_XTA(model.c_str(), &doc, true);
    Verdict v;
    if (!queries.empty()) {
        UTAP::TigaPropertyBuilder pb(doc);
        try {
            pb.parse(queries.c_str());
        } catch (std::exception& e) {
            v.diagnostics.insert(std::string("exception: ") + e.what());
        }
        v.properties = pb.getProperties().size();
    }
    for (const auto& e : doc.get_errors())
        v.diagnostics.insert("error: " + rename_word(e.msg, from, to));
    for (const auto& w : doc.get_warnings())
        v.diagnostics.insert("warning: " + rename_word(w.msg, from, to));
    return v;
}

inline void show(const std::string& title, const Verdict& v)
{
    std::cout << "  " << title << ": " << v.diagnostics.size() << " diagnostic(s), " << v.properties
              << " propert(y/ies) built\n";
    for (const auto& d : v.diagnostics)
        std::cout << "      " << d << "\n";
}
// ---- end helpers ----

static std::string subst(std::string text, const std::string& loc, const std::string& tmpl)
{
    for (auto p = text.find("@L"); p != std::string::npos; p = text.find("@L"))
        text.replace(p, 2, loc);
    for (auto p = text.find("@T"); p != std::string::npos; p = text.find("@T"))
        text.replace(p, 2, tmpl);
    return text;
}

int main()
{
    const std::string xml = R"(<?xml version="1.0" encoding="utf-8"?>
<nta><declaration>int v;</declaration>
<template><name>@T</name>
<location id="id0"><name>@L</name></location><init ref="id0"/>
</template>
<system>p = @T(); system p;</system></nta>)";
    const std::string xta = "int v;\nprocess @T() { state @L; init @L; }\np = @T();\nsystem p;\n";
    int violations = 0;
    for (const std::string name : {"sup", "inf", "bounds", "simulation", "A", "E"}) {
        const std::string query_l = "E<> p." + name + " && v == 0";
        // (a) as a location name
        {
            const auto v = check(subst(xml, name, "Tmpl"), query_l, true, name, "Fresh");
            const auto r = check(subst(xml, "Fresh", "Tmpl"), "E<> p.Fresh && v == 0", true);
            const auto x = check(subst(xta, name, "Tmpl"), query_l, false, name, "Fresh");
            if (v != r) {
                ++violations;
                std::cout << "VIOLATION: XML location named '" << name << "' vs 'Fresh'\n";
                show("XML, location " + name, v);
                show("XML, location Fresh", r);
                show("XTA, location " + name, x);
            }
        }
        // (b) as a template name
        {
            const auto v = check(subst(xml, "l0", name), "E<> p.l0", true, name, "Fresh");
            const auto r = check(subst(xml, "l0", "Fresh"), "E<> p.l0", true);
            if (v != r) {
                ++violations;
                std::cout << "VIOLATION: XML template named '" << name << "' vs 'Fresh'\n";
                show("XML, template " + name, v);
                show("XML, template Fresh", r);
            }
        }
    }
    return violations ? 1 : 0;
}
