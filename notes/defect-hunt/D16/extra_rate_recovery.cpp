// C16 additional observation (not counted as a finding, related to a known one): a faulty exponential-rate label that the grammar *recovers* from
// (error productions "Expression '[' error ']'" and "'(' error ')'") is accepted with
// two operands on the builder's expression stack; proc_location() then takes the stale
// operand of the rate label as the INVARIANT of the location.  The invariant label
// (fault-free) is lost.
//
// build: g++ -std=c++17 -I/tmp/wt-D16/include extra_rate_recovery.cpp /tmp/wt-D16/_build/src/libUTAP.a -lxml2 -ldl -o extra_rate_recovery
#include "utap/utap.h"

#include <iostream>
#include <string>

using namespace UTAP;

static std::string model(const std::string& rate)
{
    return "<nta><declaration>clock x; int v[3];</declaration>"
           "<template><name>P</name>"
           "<location id=\"id0\"><name>L0</name>"
           "<label kind=\"invariant\">x &lt;= 5</label>"
           "<label kind=\"exponentialrate\">" + rate + "</label>"
           "</location><init ref=\"id0\"/></template>"
           "<system>system P;</system></nta>";
}

static std::string str(const expression_t& e) { return e.empty() ? "<none>" : e.str(); }

// returns true if the invariant survived the fault in the rate label
static bool check(const std::string& rate)
{
    Document doc;
    parse_XML_buffer(model(rate).c_str(), &doc, true);
    const auto& loc = doc.get_templates().front().locations.front();
    std::cout << "rate label \"" << rate << "\": invariant = " << str(loc.invariant) << ", rate = " << str(loc.exp_rate)
              << "\n";
    for (const auto& e : doc.get_errors())
        std::cout << "    " << e.msg << " @ " << (e.start.path ? *e.start.path : "") << "\n";
    // The document has an error, so the type checker did not run and the invariant
    // must be exactly what the builder made of the text "x <= 5".
    return str(loc.invariant) == "x <= 5";
}

int main()
{
    bool ok = true;
    ok &= check("v[+]");     // recovered by: Expression '[' error ']'
    ok &= check("(3 + )");   // recovered by: '(' error ')'
    if (!ok) {
        std::cout << "VIOLATION: a fault in the rate label changed the invariant label of the same location\n";
        return 1;
    }
    std::cout << "ok\n";
    return 0;
}
