// C16 finding 1: an update label that is reduced to a floating point (or string) literal,
// e.g. "d = 1.5" that lost its first two tokens, makes parse_XML_buffer() throw
// std::bad_variant_access ("std::get: wrong index for variant").  No diagnostic is recorded
// for the faulted label and the type checker never reaches the rest of the document.
//
// build: g++ -std=c++17 -I/tmp/wt-D16/include finding1.cpp /tmp/wt-D16/_build/src/libUTAP.a -lxml2 -ldl -o finding1
#include "utap/utap.h"

#include <iostream>
#include <string>

using namespace UTAP;

static std::string model(const std::string& update)
{
    return "<nta><declaration>clock x; double d;</declaration>"
           "<template><name>P</name>"
           "<location id=\"id0\"/><init ref=\"id0\"/>"
           "<transition><source ref=\"id0\"/><target ref=\"id0\"/>"
           "<label kind=\"assignment\">" + update + "</label></transition>"
           "</template>"
           "<template><name>Q</name>"
           "<location id=\"id1\"><label kind=\"invariant\">x &lt;= 5 &amp;&amp; x' == 0</label></location><init ref=\"id1\"/>"
           "</template>"
           "<system>system P, Q;</system></nta>";
}

static const char* faulted = "/nta/template[1]/transition[1]/label[1]";

// 0: as the property demands, 1: violation
static int check(const std::string& update)
{
    Document doc;
    std::cout << "update label \"" << update << "\":\n";
    try {
        parse_XML_buffer(model(update).c_str(), &doc, true);
    } catch (const std::exception& e) {
        std::cout << "    parse_XML_buffer threw: " << e.what() << "\n";
        std::cout << "    diagnostics recorded: " << doc.get_errors().size() << " errors, " << doc.get_warnings().size()
                  << " warnings\n";
        // the other template was never type checked: its stop-watch invariant is not decomposed/recorded
        std::cout << "    stop watch of template Q seen: " << std::boolalpha << doc.has_stop_watch() << "\n";
        return 1;
    }
    int res = 0;
    for (const auto* list : {&doc.get_errors(), &doc.get_warnings()})
        for (const auto& e : *list) {
            const std::string path = e.start.path ? *e.start.path : std::string{};
            std::cout << "    " << e.msg << " @ " << path << "\n";
            if (path != faulted)
                res = 1;
        }
    if (!doc.has_stop_watch())  // the rest of the document must have been analysed as usual
        res = 1;
    return res;
}

int main()
{
    if (check("d = 1.5") != 0) {
        std::cout << "unexpected: the fault-free document is not handled\n";
        return 2;
    }
    int res = check("1.5");       // "d =" lost
    res |= check("\"text\"");     // a string literal in place of the update
    if (res != 0) {
        std::cout << "VIOLATION: a fault in one update label aborts the analysis of the whole document\n";
        return 1;
    }
    std::cout << "ok\n";
    return 0;
}
