// C16 finding 2: one faulty synchronisation label makes the type checker attach
// "$CSP_and_IO_synchronisations_cannot_be_mixed" to every later (fault-free)
// synchronisation label of the document; if the faulty label is the first one
// visited it gets no diagnostic at all and all the others do.
//
// build: g++ -std=c++17 -I/tmp/wt-D16/include finding2.cpp /tmp/wt-D16/_build/src/libUTAP.a -lxml2 -ldl -o finding2
#include "utap/utap.h"

#include <iostream>
#include <string>
#include <vector>

using namespace UTAP;

// three edges, each with exactly one label (the synchronisation), in two templates
static std::string model(const std::string& s1, const std::string& s2, const std::string& s3)
{
    return "<nta><declaration>chan c;</declaration>"
           "<template><name>P</name>"
           "<location id=\"id0\"/><location id=\"id1\"/><init ref=\"id0\"/>"
           "<transition><source ref=\"id0\"/><target ref=\"id1\"/><label kind=\"synchronisation\">" + s1 + "</label></transition>"
           "<transition><source ref=\"id1\"/><target ref=\"id0\"/><label kind=\"synchronisation\">" + s2 + "</label></transition>"
           "</template>"
           "<template><name>Q</name>"
           "<location id=\"id2\"/><init ref=\"id2\"/>"
           "<transition><source ref=\"id2\"/><target ref=\"id2\"/><label kind=\"synchronisation\">" + s3 + "</label></transition>"
           "</template>"
           "<system>system P, Q;</system></nta>";
}

// returns the number of diagnostics that are attributed to a block other than `faulted`
static int foreign_diagnostics(const std::string& xml, const std::string& faulted, int& own)
{
    Document doc;
    parse_XML_buffer(xml.c_str(), &doc, true);
    int foreign = 0;
    own = 0;
    for (const auto& e : doc.get_errors()) {
        const std::string path = e.start.path ? *e.start.path : std::string{};
        std::cout << "    " << e.msg << " @ " << path << "\n";
        if (path == faulted)
            ++own;
        else
            ++foreign;
    }
    return foreign;
}

int main()
{
    int own = 0;
    std::cout << "fault-free document (c! / c? / c!):\n";
    if (foreign_diagnostics(model("c!", "c?", "c!"), "", own) != 0) {
        std::cout << "unexpected: the fault-free document is not accepted\n";
        return 2;
    }

    bool violated = false;

    // fault A: '?' deleted from the label of the SECOND edge
    std::cout << "fault in /nta/template[1]/transition[2]/label[1]: \"c?\" -> \"c\"\n";
    int foreignA = foreign_diagnostics(model("c!", "c", "c!"), "/nta/template[1]/transition[2]/label[1]", own);
    std::cout << "  diagnostics on the faulted label: " << own << ", on other blocks: " << foreignA << "\n";
    violated |= foreignA != 0;

    // fault B: '!' deleted from the label of the FIRST edge
    std::cout << "fault in /nta/template[1]/transition[1]/label[1]: \"c!\" -> \"c\"\n";
    int foreignB = foreign_diagnostics(model("c", "c?", "c!"), "/nta/template[1]/transition[1]/label[1]", own);
    std::cout << "  diagnostics on the faulted label: " << own << ", on other blocks: " << foreignB << "\n";
    // (not counted for the exit status: with two disagreeing labels and the fault in the first one a
    //  checker cannot tell which one is wrong; the cascade of fault A is unambiguous)
    (void)foreignB;

    if (violated) {
        std::cout << "VIOLATION: diagnostics are attributed to blocks that contain no fault\n";
        return 1;
    }
    std::cout << "ok\n";
    return 0;
}
