// C16 finding 3 (queries): a faulty query (semantic fault, or truncation) that carries a strategy subjection
// ("... under S") leaves the subjection pending in TigaPropertyBuilder; the NEXT, fault-free
// query - which has no "under" clause - is then recorded as being evaluated under strategy S.
//
// build: g++ -std=c++17 -I/tmp/wt-D16/include finding3.cpp /tmp/wt-D16/_build/src/libUTAP.a -lxml2 -ldl -o finding3
#include "utap/property.h"
#include "utap/utap.h"

#include <iostream>
#include <string>
#include <vector>

using namespace UTAP;

static const char* model =
    "<nta><declaration>clock x; int i;</declaration>"
    "<template><name>P</name>"
    "<location id=\"id0\"><name>L0</name></location><location id=\"id1\"><name>L1</name></location><init ref=\"id0\"/>"
    "<transition><source ref=\"id0\"/><target ref=\"id1\"/><label kind=\"guard\">x &gt;= 1</label></transition>"
    "</template><system>system P;</system></nta>";

// parses the queries one block at a time, the way the <queries> of a document are processed;
// returns the number of strategies the LAST query is evaluated under
static size_t subjections_of_last(const std::vector<std::string>& queries)
{
    Document doc;
    parse_XML_buffer(model, &doc, true);
    if (doc.has_errors())
        throw std::logic_error("model not accepted");
    TigaPropertyBuilder builder{doc};
    for (size_t i = 0; i < queries.size(); ++i) {
        const auto xpath = "/nta/queries/query[" + std::to_string(i + 1) + "]/formula";
        builder.parse(queries[i].c_str(), xpath, {});
        for (const auto& e : doc.get_errors())
            std::cout << "    " << e.msg << " @ " << (e.start.path ? *e.start.path : "") << "\n";
        doc.clear_errors();  // diagnostics of one query are reported and then dropped
    }
    const auto& last = builder.getProperties().back();
    std::cout << "    last property: " << last.intermediate.str() << ", evaluated under " << last.subjections.size()
              << " strategies\n";
    return last.subjections.size();
}

int main()
{
    std::cout << "fault-free queries:\n";
    size_t good = subjections_of_last({"strategy S = control: A<> P.L1", "E<> i == 1 under S", "A[] i >= 0"});
    std::cout << "fault in query 2 (i -> zz):\n";
    size_t bad = subjections_of_last({"strategy S = control: A<> P.L1", "E<> zz == 1 under S", "A[] i >= 0"});
    std::cout << "fault in query 2 (truncated after the second \"(<>\"):\n";
    size_t bad2 = subjections_of_last(
        {"strategy S = control: A<> P.L1", "Pr[<=10](<> P.L1) under S >= Pr[<=10](<> ", "A[] i >= 0"});
    if (good != 0)
        return 2;
    if (bad != good || bad2 != good) {
        std::cout << "VIOLATION: the fault in query 2 changed query 3 (\"A[] i >= 0\" is now evaluated under S)\n";
        return 1;
    }
    std::cout << "ok\n";
    return 0;
}
