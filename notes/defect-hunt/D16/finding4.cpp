// C16 finding 4 (queries): a faulty strategy-declaring query ("strategy T = control: A<> zz",
// zz undeclared) creates no property, but TigaPropertyBuilder::strategy_declaration() still
// runs and binds the name T to properties.back() - the PREVIOUS, fault-free query.  That query
// is rewritten (its `declaration` becomes "T") and a later "... under T" silently refers to it.
//
// build: g++ -std=c++17 -I/tmp/wt-D16/include finding4.cpp /tmp/wt-D16/_build/src/libUTAP.a -lxml2 -ldl -o finding4
#include "utap/property.h"
#include "utap/utap.h"

#include <iostream>
#include <string>
#include <vector>

using namespace UTAP;

static const char* model =
    "<nta><declaration>clock x; int i;</declaration>"
    "<template><name>P</name>"
    "<location id=\"id0\"><name>L0</name></location><location id=\"id1\"><name>L1</name></location><init ref=\"id0\"/>"
    "<transition><source ref=\"id0\"/><target ref=\"id1\"/><label kind=\"guard\">x &gt;= 1</label></transition>"
    "</template><system>system P;</system></nta>";

struct outcome
{
    std::string first_declaration;  // strategy name declared by query 1
    size_t diagnostics_q3;          // diagnostics attributed to query 3
};

static outcome run(const std::vector<std::string>& queries)
{
    Document doc;
    parse_XML_buffer(model, &doc, true);
    if (doc.has_errors())
        throw std::logic_error("model not accepted");
    TigaPropertyBuilder builder{doc};
    outcome res{};
    for (size_t i = 0; i < queries.size(); ++i) {
        const auto xpath = "/nta/queries/query[" + std::to_string(i + 1) + "]/formula";
        builder.parse(queries[i].c_str(), xpath, {});
        for (const auto& e : doc.get_errors())
            std::cout << "    " << e.msg << " @ " << (e.start.path ? *e.start.path : "") << "\n";
        if (i == 2)
            res.diagnostics_q3 = doc.get_errors().size();
        doc.clear_errors();
    }
    res.first_declaration = builder.getProperties().front().declaration;
    std::cout << "    query 1 (" << builder.getProperties().front().intermediate.str() << ") declares strategy \""
              << res.first_declaration << "\"\n";
    return res;
}

int main()
{
    std::cout << "fault-free queries:\n";
    auto good = run({"A[] i >= 0", "strategy T = control: A<> P.L1", "E<> P.L0 under T"});
    std::cout << "fault in query 2 (P.L1 -> zz):\n";
    auto bad = run({"A[] i >= 0", "strategy T = control: A<> zz", "E<> P.L0 under T"});
    if (!good.first_declaration.empty())
        return 2;
    if (bad.first_declaration != good.first_declaration) {
        std::cout << "VIOLATION: the fault in query 2 rewrote query 1: it now declares strategy \"" << bad.first_declaration
                  << "\"" << (bad.diagnostics_q3 == 0 ? " and query 3 is accepted as running under it" : "") << "\n";
        return 1;
    }
    std::cout << "ok\n";
    return 0;
}
