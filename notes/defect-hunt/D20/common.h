// helpers shared by finding3/finding4: build a one-edge model, write it, fetch a transition label back
// with libxml2's tree API.
#pragma once
#include "utap/utap.h"

#include <libxml/parser.h>
#include <libxml/tree.h>

#include <iostream>
#include <string>

inline std::string xml_escape(const std::string& t)
{
    std::string r;
    for (char c : t) {
        if (c == '&')
            r += "&amp;";
        else if (c == '<')
            r += "&lt;";
        else if (c == '>')
            r += "&gt;";
        else
            r += c;
    }
    return r;
}

inline std::string one_edge_model(const std::string& decl, const std::string& guard)
{
    return "<?xml version=\"1.0\" encoding=\"utf-8\"?><nta><declaration>" + xml_escape(decl) +
           "</declaration><template><name>P</name>"
           "<location id=\"id0\"><name>A</name></location><location id=\"id1\"><name>B</name></location>"
           "<init ref=\"id0\"/><transition><source ref=\"id0\"/><target ref=\"id1\"/>"
           "<label kind=\"guard\">" +
           xml_escape(guard) + "</label></transition></template><system>system P;</system></nta>";
}

/** returns false if the file is not well-formed or has no such label */
inline bool read_first_label(const char* file, const char* kind, std::string& text)
{
    xmlDocPtr x = xmlReadFile(file, nullptr, XML_PARSE_NONET);
    if (x == nullptr)
        return false;
    bool found = false;
    for (xmlNodePtr t = xmlDocGetRootElement(x)->children; t; t = t->next) {
        if (t->type != XML_ELEMENT_NODE || xmlStrcmp(t->name, BAD_CAST "template") != 0)
            continue;
        for (xmlNodePtr c = t->children; c; c = c->next) {
            if (c->type != XML_ELEMENT_NODE || xmlStrcmp(c->name, BAD_CAST "transition") != 0)
                continue;
            for (xmlNodePtr l = c->children; l; l = l->next) {
                if (l->type != XML_ELEMENT_NODE || xmlStrcmp(l->name, BAD_CAST "label") != 0)
                    continue;
                xmlChar* k = xmlGetProp(l, BAD_CAST "kind");
                if (k != nullptr && xmlStrcmp(k, BAD_CAST kind) == 0 && !found) {
                    xmlChar* content = xmlNodeGetContent(l);
                    text = (const char*)content;
                    xmlFree(content);
                    found = true;
                }
                xmlFree(k);
            }
        }
    }
    xmlFreeDoc(x);
    return found;
}
