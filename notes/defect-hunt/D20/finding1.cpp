// C20 finding 1: write_XML_file() crashes on an accepted model that contains a process with an empty body.
// The XTA grammar (parser.y, ProcBody: ... | /* empty */) accepts "process P() { }": the template has no
// locations and template_t::init stays a null symbol.  XMLWriter::init() dereferences
// templ.init.get_data() unconditionally.
//
// Build: g++ -std=c++17 -I/tmp/wt-D20/include $(xml2-config --cflags) finding1.cpp -o finding1 \
//        /tmp/wt-D20/_build/src/libUTAP.a -lxml2 -ldl
#include "utap/utap.h"

#include <libxml/parser.h>
#include <libxml/tree.h>

#include <cstdio>
#include <iostream>

static const char* MODEL = "process P() { }\n"
                           "system P;\n";

int main()
{
    UTAP::Document doc;
    bool ok = parse_XTA(MODEL, &doc, true);
    if (!ok || !doc.get_errors().empty()) {
        std::cerr << "precondition failed: model not accepted\n";
        return 2;
    }
    std::cerr << "model accepted: 0 errors, " << doc.get_templates().size() << " template(s), "
              << doc.get_templates().front().locations.size() << " location(s)\n";

    const char* out = "/tmp/wt-D20/findings/finding1.out.xml";
    write_XML_file(out, &doc);  // <-- SIGSEGV in XMLWriter::init()

    // Property: the result is well-formed XML; a template without an initial location has no <init>.
    xmlDocPtr x = xmlReadFile(out, nullptr, XML_PARSE_NONET);
    if (x == nullptr) {
        std::cerr << "written file is not well-formed\n";
        return 1;
    }
    xmlFreeDoc(x);
    std::cerr << "OK\n";
    return 0;
}
