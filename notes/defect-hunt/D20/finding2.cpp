// C20 finding 2: write_XML_file() crashes on an accepted model whose system section uses a partial
// instantiation "Q(const int[0,1] j) = P(j); system Q;".
// XMLWriter::system_instantiation() calls instance_t::arguments_str(); instance_t::print_arguments()
// walks *all* of instance_t::parameters, but for a partial instance the first `unbound` entries are the
// instance's own (free) parameters, which have no entry in `mapping`; mapping.find() returns end() and
// is dereferenced (the assert is compiled out in release builds).
//
// Build: g++ -std=c++17 -I/tmp/wt-D20/include $(xml2-config --cflags) finding2.cpp -o finding2 \
//        /tmp/wt-D20/_build/src/libUTAP.a -lxml2 -ldl
#include "utap/utap.h"

#include <libxml/parser.h>
#include <libxml/tree.h>

#include <iostream>
#include <string>

static const char* MODEL = R"XML(<?xml version="1.0" encoding="utf-8"?>
<nta>
  <declaration>int v;</declaration>
  <template>
    <name>P</name>
    <parameter>const int[0,1] i</parameter>
    <location id="id0"><name>A</name></location>
    <location id="id1"><name>B</name></location>
    <init ref="id0"/>
    <transition><source ref="id0"/><target ref="id1"/><label kind="guard">v == i</label></transition>
  </template>
  <system>Q(const int[0,1] j) = P(j);
system Q;</system>
</nta>
)XML";

int main()
{
    UTAP::Document doc;
    int res = parse_XML_buffer(MODEL, &doc, true);
    if (res != 0 || !doc.get_errors().empty()) {
        std::cerr << "precondition failed: model not accepted\n";
        return 2;
    }
    std::cerr << "model accepted: 0 errors, " << doc.get_processes().size() << " process(es)\n";

    const char* out = "/tmp/wt-D20/findings/finding2.out.xml";
    write_XML_file(out, &doc);  // <-- SIGSEGV in instance_t::print_arguments()

    xmlDocPtr x = xmlReadFile(out, nullptr, XML_PARSE_NONET);
    if (x == nullptr) {
        std::cerr << "written file is not well-formed\n";
        return 1;
    }
    // the template graph must still be there: 2 locations, 1 init, 1 transition
    int locs = 0, inits = 0, trans = 0;
    for (xmlNodePtr t = xmlDocGetRootElement(x)->children; t; t = t->next) {
        if (t->type != XML_ELEMENT_NODE || xmlStrcmp(t->name, BAD_CAST "template") != 0)
            continue;
        for (xmlNodePtr c = t->children; c; c = c->next) {
            if (c->type != XML_ELEMENT_NODE)
                continue;
            locs += xmlStrcmp(c->name, BAD_CAST "location") == 0;
            inits += xmlStrcmp(c->name, BAD_CAST "init") == 0;
            trans += xmlStrcmp(c->name, BAD_CAST "transition") == 0;
        }
    }
    xmlFreeDoc(x);
    if (locs != 2 || inits != 1 || trans != 1) {
        std::cerr << "template graph not mirrored\n";
        return 1;
    }
    std::cerr << "OK\n";
    return 0;
}
