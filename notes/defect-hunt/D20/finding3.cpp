// C20 finding 3: a guard that contains a quantifier (forall / exists / sum) is written with the bound
// variable's type in type_t::str() debug notation:
//     forall (i : int[0,2]) arr[i] == 1   -->   forall(i:(const (range (int) "0" "2"))) arr[i] == 1
// The guard label no longer carries the text of the edge's guard: it is not an expression of the
// language at all (the library's own parser rejects it with a syntax error).
// Root cause: expression_t::print(), cases FORALL/EXISTS/SUM (src/expression.cpp:1491-1504) use
// get_symbol().get_type().str() instead of type_t::declaration()/print_declaration().
//
// Build: g++ -std=c++17 -I/tmp/wt-D20/include $(xml2-config --cflags) finding3.cpp -o finding3 \
//        /tmp/wt-D20/_build/src/libUTAP.a -lxml2 -ldl
#include "common.h"

int main()
{
    const std::string decl = "int arr[3];";
    const std::string guards[] = {
        "forall (i : int[0,2]) arr[i] == 1",
        "exists (i : int[0,2]) arr[i] == 1",
        "(sum (i : int[0,2]) arr[i]) == 3",
    };
    int bad = 0;
    for (const auto& guard : guards) {
        UTAP::Document doc;
        if (parse_XML_buffer(one_edge_model(decl, guard).c_str(), &doc, true) != 0 || !doc.get_errors().empty()) {
            std::cerr << "precondition failed: model not accepted: " << guard << "\n";
            return 2;
        }
        const char* out = "/tmp/wt-D20/findings/finding3.out.xml";
        write_XML_file(out, &doc);
        std::string written;
        if (!read_first_label(out, "guard", written)) {
            std::cerr << "no guard label written for: " << guard << "\n";
            ++bad;
            continue;
        }
        // The written text must be the edge's guard: put it on the same edge of the same model and it
        // must be accepted and print the same way as the original guard.
        UTAP::Document doc2;
        int res = parse_XML_buffer(one_edge_model(decl, written).c_str(), &doc2, true);
        bool accepted = res == 0 && doc2.get_errors().empty();
        std::cerr << "guard   : " << guard << "\nwritten : " << written << "\n";
        if (!accepted) {
            std::cerr << "  -> the written guard is rejected: "
                      << (doc2.get_errors().empty() ? "?" : doc2.get_errors().front().msg) << "\n";
            ++bad;
        }
    }
    if (bad != 0)
        return 1;
    std::cerr << "OK\n";
    return 0;
}
