// C20 finding 4: floating point constants in edge labels are written with operator<<(double) at the
// default precision and without a decimal point, so the label text denotes a different expression:
//     dd > 1.0 / 2          -->  dd > 1 / 2          (integer division: 0 instead of 0.5)
//     dd > 1.23456789012    -->  dd > 1.23457        (6 significant digits)
//     dd > 1234567.0        -->  dd > 1.23457e+06    (= 1234570)
// Root cause: expression_t::print(), case CONSTANT (src/expression.cpp:1282-1283): os << get_double_value().
//
// Build: g++ -std=c++17 -I/tmp/wt-D20/include $(xml2-config --cflags) finding4.cpp -o finding4 \
//        /tmp/wt-D20/_build/src/libUTAP.a -lxml2 -ldl
#include "common.h"

using UTAP::expression_t;

/** structural comparison: kind, arity, constants with their type (int vs double) and exact value */
static bool same(const expression_t& a, const expression_t& b)
{
    if (a.empty() || b.empty())
        return a.empty() == b.empty();
    if (a.get_kind() != b.get_kind() || a.get_size() != b.get_size())
        return false;
    if (a.get_kind() == UTAP::Constants::CONSTANT) {
        if (a.get_type().is_double() != b.get_type().is_double())
            return false;
        if (a.get_type().is_double())
            return a.get_double_value() == b.get_double_value();
        return a.get_value() == b.get_value();
    }
    if (a.get_kind() == UTAP::Constants::IDENTIFIER)
        return a.get_symbol().get_name() == b.get_symbol().get_name();
    for (size_t i = 0; i < a.get_size(); ++i)
        if (!same(a[i], b[i]))
            return false;
    return true;
}

int main()
{
    const std::string decl = "double dd;";
    const std::string guards[] = {
        "dd > 1.0 / 2",
        "dd > 1.23456789012",
        "dd > 1234567.0",
    };
    int bad = 0;
    for (const auto& guard : guards) {
        UTAP::Document doc;
        if (parse_XML_buffer(one_edge_model(decl, guard).c_str(), &doc, true) != 0 || !doc.get_errors().empty()) {
            std::cerr << "precondition failed: model not accepted: " << guard << "\n";
            return 2;
        }
        const char* out = "/tmp/wt-D20/findings/finding4.out.xml";
        write_XML_file(out, &doc);
        std::string written;
        if (!read_first_label(out, "guard", written)) {
            std::cerr << "no guard label written for: " << guard << "\n";
            ++bad;
            continue;
        }
        UTAP::Document doc2;
        if (parse_XML_buffer(one_edge_model(decl, written).c_str(), &doc2, true) != 0 || !doc2.get_errors().empty()) {
            std::cerr << "written guard rejected: " << written << "\n";
            ++bad;
            continue;
        }
        const auto& g1 = doc.get_templates().front().edges.front().guard;
        const auto& g2 = doc2.get_templates().front().edges.front().guard;
        std::cerr << "guard   : " << guard << "\nwritten : " << written << "\n";
        if (!same(g1, g2)) {
            std::cerr << "  -> the written text denotes a different expression\n";
            ++bad;
        }
    }
    if (bad != 0)
        return 1;
    std::cerr << "OK\n";
    return 0;
}
