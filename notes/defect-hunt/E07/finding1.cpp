// C07 finding 1: "P.t" cannot be written when the template-local variable t shadows a global typedef t.
//
// The lexer classifies every name by resolving it in the scope the parser is currently in (lexer.l:199,
// ExpressionBuilder::is_type).  For the member name after '.', that scope is the wrong one: the name must be
// looked up in P's template.  In a query the current scope is the global one, where t is a typedef, so the
// token becomes T_TYPENAME and the rule  Expression '.' NonTypeId  (parser.y:1299) rejects it.
//
// exit 0: P.t parses and is bound to T's local variable t (what the property demands)
// exit 1: the query is rejected / not bound
#include "utap/property.h"
#include "utap/utap.h"

#include <iostream>

using namespace UTAP;

static const char* model = R"(<?xml version="1.0" encoding="utf-8"?>
<nta>
<declaration>typedef int[0,3] t;</declaration>
<template><name>T</name>
<declaration>int t; int u;</declaration>
<location id="id0"><name>L0</name></location><init ref="id0"/>
<transition><source ref="id0"/><target ref="id0"/><label kind="guard">t == 1 &amp;&amp; u == 1</label></transition>
</template>
<system>P = T(); system P;</system>
</nta>)";

static size_t errors_of(Document& doc, const char* query, std::string& text)
{
    auto pb = TigaPropertyBuilder{doc};
    const size_t before = doc.get_errors().size();
    const size_t props = pb.getProperties().size();
    parseProperty(query, &pb);
    for (size_t i = before; i < doc.get_errors().size(); ++i)
        std::cout << "  error: " << doc.get_errors()[i].msg << "\n";
    text = pb.getProperties().size() > props ? pb.getProperties().back().intermediate.str() : "<none>";
    return doc.get_errors().size() - before;
}

int main()
{
    auto doc = Document{};
    parse_XML_buffer(model, &doc, true);
    if (!doc.get_errors().empty()) {  // the model itself is fine: inside T the name t is the variable
        std::cout << "unexpected model error: " << doc.get_errors()[0].msg << "\n";
        return 2;
    }
    std::string text;
    std::cout << "E<> P.u == 1\n";
    if (errors_of(doc, "E<> P.u == 1", text) != 0)
        return 2;  // control: a local variable whose name is not a type name
    std::cout << "  -> " << text << "\n";
    std::cout << "E<> P.t == 1\n";
    const size_t n = errors_of(doc, "E<> P.t == 1", text);
    std::cout << "  -> " << text << "\n";
    if (n != 0 || text.find("P.t") == std::string::npos) {
        std::cout << "VIOLATION: P.t does not bind to the variable t declared in P's template\n";
        return 1;
    }
    return 0;
}
