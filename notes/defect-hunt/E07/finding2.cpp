// C07 finding 2: an inner dynamic quantifier that reuses the binder name destroys the outer binder.
//
//   forall (p : A) ( (exists (p : B) (p.y)) && p.x > 0 )
//
// The last "p" is the outer binder (template A) - the inner scope has ended.  ExpressionBuilder keeps the
// template of a dynamic binder in the map dynamicFrames, keyed by the binder NAME (ExpressionBuilder.cpp:1118),
// and the end of the inner quantifier erases that key (ExpressionBuilder.cpp:1121), so for the rest of the
// outer body "p.x" is reported as "Unknown identifier: p".
//
// exit 0: the query with the reused name is accepted exactly like the one with distinct names
// exit 1: it is rejected
#include "utap/property.h"
#include "utap/utap.h"

#include <iostream>

using namespace UTAP;

static const char* model = R"(<?xml version="1.0" encoding="utf-8"?>
<nta>
<declaration>
dynamic A();
dynamic B();
</declaration>
<template><name>A</name><declaration>int x;</declaration>
<location id="id0"><name>L0</name></location><init ref="id0"/></template>
<template><name>B</name><declaration>bool y;</declaration>
<location id="id1"><name>M0</name></location><init ref="id1"/></template>
<template><name>Main</name>
<location id="id2"><name>S</name></location><init ref="id2"/></template>
<system>system Main;</system>
</nta>)";

static size_t errors_of(Document& doc, const char* query)
{
    auto pb = TigaPropertyBuilder{doc};
    const size_t before = doc.get_errors().size();
    std::cout << query << "\n";
    parseProperty(query, &pb);
    for (size_t i = before; i < doc.get_errors().size(); ++i)
        std::cout << "  error: " << doc.get_errors()[i].msg << "\n";
    if (!pb.getProperties().empty())
        std::cout << "  -> " << pb.getProperties().back().intermediate.str() << "\n";
    return doc.get_errors().size() - before;
}

int main()
{
    auto doc = Document{};
    parse_XML_buffer(model, &doc, true);
    if (!doc.get_errors().empty()) {
        std::cout << "unexpected model error: " << doc.get_errors()[0].msg << "\n";
        return 2;
    }
    // control: distinct binder names
    if (errors_of(doc, "Pr[<=10](<> forall (p : A) ((exists (q : B) (q.y)) && p.x > 0))") != 0)
        return 2;
    // same query, the inner binder reuses the name p
    if (errors_of(doc, "Pr[<=10](<> forall (p : A) ((exists (p : B) (p.y)) && p.x > 0))") != 0) {
        std::cout << "VIOLATION: after the inner scope the outer binder p is no longer known\n";
        return 1;
    }
    return 0;
}
