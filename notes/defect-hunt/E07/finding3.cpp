// C07 finding 3: for a dynamic process variable p of template A, "p.g" binds to the GLOBAL g
// although A declares no g.
//
// expr_dot (ExpressionBuilder.cpp:624-644) pushes A's frame and calls resolve(id): frame_t::resolve
// (symbols.cpp:220-227) walks the parent chain, and the parent of every template frame is the global frame
// (document.cpp: add_dynamic_template).  So every global name - variables, other templates, processes - is
// accepted as a "member" of p.  For a static process P of the same template "P.g" is correctly rejected
// ("has no member"), because that path looks only at the template's own frame.
//
// exit 0: p.g is reported (unknown member), like P.g
// exit 1: p.g is silently bound to the global variable g
#include "utap/property.h"
#include "utap/utap.h"

#include <iostream>

using namespace UTAP;

static const char* model = R"(<?xml version="1.0" encoding="utf-8"?>
<nta>
<declaration>
int g;
dynamic A();
</declaration>
<template><name>A</name><declaration>int x;</declaration>
<location id="id0"><name>L0</name></location><init ref="id0"/></template>
<template><name>S</name><declaration>int x;</declaration>
<location id="id1"><name>L0</name></location><init ref="id1"/></template>
<system>P = S(); system P;</system>
</nta>)";

static const symbol_t* find_id(const expression_t& e, const std::string& name, symbol_t& out)
{
    if (e.empty())
        return nullptr;
    if (e.get_kind() == Constants::IDENTIFIER && e.get_symbol().get_name() == name) {
        out = e.get_symbol();
        return &out;
    }
    for (size_t i = 0; i < e.get_size(); ++i)
        if (find_id(e[i], name, out))
            return &out;
    return nullptr;
}

int main()
{
    {  // control: static process P of a template that declares no g either
        auto doc = Document{};
        parse_XML_buffer(model, &doc, true);
        if (!doc.get_errors().empty()) {
            std::cout << "unexpected model error: " << doc.get_errors()[0].msg << "\n";
            return 2;
        }
        auto pb = TigaPropertyBuilder{doc};
        parseProperty("Pr[<=10](<> P.g > 0)", &pb);
        std::cout << "P.g: " << doc.get_errors().size() << " error(s)";
        if (!doc.get_errors().empty())
            std::cout << ": " << doc.get_errors()[0].msg;
        std::cout << "\n";
        if (doc.get_errors().empty())
            return 2;
    }
    auto doc = Document{};
    parse_XML_buffer(model, &doc, true);
    symbol_t global_g;
    doc.get_globals().frame.resolve("g", global_g);
    auto pb = TigaPropertyBuilder{doc};
    parseProperty("Pr[<=10](<> forall (p : A) (p.g > 0))", &pb);
    const size_t n = doc.get_errors().size();
    std::cout << "p.g: " << n << " error(s)\n";
    if (n == 0 && !pb.getProperties().empty()) {
        const expression_t q = pb.getProperties().back().intermediate;
        std::cout << "  -> " << q.str() << "\n";
        symbol_t s;
        if (find_id(q, "g", s) && s == global_g)
            std::cout << "VIOLATION: the member g of p is the global variable g; template A declares no g\n";
    }
    return n == 0 ? 1 : 0;
}
