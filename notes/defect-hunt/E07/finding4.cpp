// C07 finding 4: a syntax error inside the body of a quantifier leaves the quantifier's scope on the
// builder's frame stack, and every later pop then removes the wrong frame.
//
// The grammar calls expr_forall_begin (push_frame) in a mid-rule action and expr_forall_end (popFrame) when the
// rule is reduced (parser.y:1333-1337).  When the body has a syntax error bison discards the half-parsed rule, so
// the end action never runs; nothing restores the frame stack when the parse is given up (parser.y: parse_XTA /
// parseProperty).  In an XML model every label is a parse of its own on the same builder:
//
//   edge 1:  select s : int[0,1];  guard  forall (j : int[0,1]) j +        <- syntax error (reported)
//   edge 2:                        guard  s == 1                           <- s is NOT declared here
//   system:  int z = v;                                                    <- v is a local of template T
//
// proc_edge_end of edge 1 pops the leaked quantifier frame instead of the select frame, so the select frame of
// edge 1 stays on the stack and becomes the parent of the select frame of edge 2 (s is bound instead of being
// unknown); proc_end then pops that select frame instead of T's frame, so the system declarations are parsed inside
// template T (v is bound instead of being unknown).
//
// The same happens between queries given to one PropertyBuilder: after  "E<> forall (j : int[0,1]) j +"  the
// query  "E<> j"  is accepted, j being the leaked binder.
//
// exit 0: s (edge 2) and v (system declarations) are reported as unknown identifiers
// exit 1: they are bound to declarations of scopes that have ended
#include "utap/property.h"
#include "utap/utap.h"

#include <iostream>

using namespace UTAP;

static const char* model = R"(<?xml version="1.0" encoding="utf-8"?>
<nta>
<declaration>int g;</declaration>
<template><name>T</name>
<declaration>bool v;</declaration>
<location id="id0"><name>L0</name></location><init ref="id0"/>
<transition><source ref="id0"/><target ref="id0"/>
<label kind="select">s : int[0,1]</label>
<label kind="guard">forall (j : int[0,1]) j +</label></transition>
<transition><source ref="id0"/><target ref="id0"/>
<label kind="guard">s == 1</label></transition>
</template>
<system>int z = v; P = T(); system P;</system>
</nta>)";

static bool find_id(const expression_t& e, const std::string& name, symbol_t& out)
{
    if (e.empty())
        return false;
    if (e.get_kind() == Constants::IDENTIFIER && e.get_symbol().get_name() == name) {
        out = e.get_symbol();
        return true;
    }
    for (size_t i = 0; i < e.get_size(); ++i)
        if (find_id(e[i], name, out))
            return true;
    return false;
}

int main()
{
    int violations = 0;
    auto doc = Document{};
    parse_XML_buffer(model, &doc, true);
    for (const auto& e : doc.get_errors())
        std::cout << "error: " << e.msg << "\n";

    auto& templ = doc.get_templates().front();
    if (templ.edges.size() != 2)
        return 2;
    symbol_t s;
    const auto& second = templ.edges.back();
    std::cout << "guard of edge 2: " << second.guard.str() << "\n";
    if (find_id(second.guard, "s", s)) {
        std::cout << "VIOLATION: s in the guard of edge 2 is bound to " << s.get_type().str() << " "
                  << s.get_name() << ", the select binder of edge 1\n";
        ++violations;
    }
    for (const auto& var : doc.get_globals().variables) {
        symbol_t v;
        if (var.uid.get_name() == "z" && find_id(var.init, "v", v)) {
            std::cout << "VIOLATION: v in the system declaration 'int z = v' is bound to " << v.get_type().str()
                      << " " << v.get_name() << ", a local variable of template T\n";
            ++violations;
        }
    }

    // the same between two queries given to one builder (the model is a correct one here)
    static const char* clean = R"(<?xml version="1.0" encoding="utf-8"?>
<nta>
<declaration>int g;</declaration>
<template><name>T</name>
<location id="id0"><name>L0</name></location><init ref="id0"/>
</template>
<system>P = T(); system P;</system>
</nta>)";
    auto doc2 = Document{};
    parse_XML_buffer(clean, &doc2, true);
    if (!doc2.get_errors().empty())
        return 2;
    auto pb = TigaPropertyBuilder{doc2};
    parseProperty("E<> forall (j : int[0,1]) j +", &pb);  // syntax error, reported
    const size_t before = doc2.get_errors().size();
    parseProperty("E<> j", &pb);  // no j is declared anywhere
    if (doc2.get_errors().size() == before) {
        std::cout << "VIOLATION: the query 'E<> j' is accepted after 'E<> forall (j : int[0,1]) j +'\n";
        ++violations;
    }
    return violations == 0 ? 0 : 1;
}
