// C08 (traversal helper in document.cpp; same family as the repaired edge_t::str() crash):
// instance_line_t::getSimregions() dereferences simregion_t::message, ::update and ::condition one after
// the other although each of them "may be empty" (document.h) - template_t::get_simregions() leaves the
// absent ones null.  It segfaults as soon as a simregion lacks one of the three and the earlier ones do
// not match the line; here: one instance line with one condition (no message).  It also segfaults on the
// repository's own test/models/lsc_example.xml.
#include "utap/utap.h"
#include "utap/document.h"

#include <iostream>

using namespace UTAP;

static const char* model = R"XML(<?xml version="1.0" encoding="utf-8"?>
<nta>
  <declaration>int x;</declaration>
  <template><name>A</name><location id="id0"/><init ref="id0"/></template>
  <lsc>
    <name>L</name><type>Universal</type><mode>Invariant</mode>
    <yloccoord number="0" y="0"/>
    <instance id="id1"><name>A</name></instance>
    <condition>
      <anchor instanceid="id1"/>
      <lsclocation>1</lsclocation>
      <temperature>hot</temperature>
      <label kind="condition">x &gt;= 0</label>
    </condition>
  </lsc>
  <system>system A;</system>
</nta>
)XML";

int main()
{
    Document doc;
    int res = parse_XML_buffer(model, &doc, true);
    std::cout << "parse_XML_buffer returned " << res << ", errors: " << doc.get_errors().size() << std::endl;
    if (res != 0 || doc.has_errors())
        return 2;  // unexpected: the model is valid
    for (auto& t : doc.get_templates()) {
        if (t.is_TA)
            continue;
        auto regions = t.get_simregions();
        std::cout << "LSC " << t.uid.get_name() << ": " << regions.size() << " simregion(s)";
        for (auto& r : regions)
            std::cout << " " << r.str() << " message=" << r.has_message() << " condition=" << r.has_condition()
                      << " update=" << r.has_update();
        std::cout << std::endl;
        for (auto& line : t.instances) {
            std::cout << "instance line " << line.uid.get_name() << ": " << std::flush;
            auto mine = line.getSimregions(regions);  // segfaults: regions[0].message == nullptr
            std::cout << mine.size() << " simregion(s)" << std::endl;
            if (mine.size() != 1)
                return 1;
        }
    }
    return 0;
}
