// C08, last clause: "When the call returned normally and reported no errors, every timed-automaton
// template has an initial location among its own locations."
//
// A dynamic template that is declared but never defined is a timed-automaton template (is_TA) without
// locations and without an initial location.  Nothing reports that, not even when the template is put on
// the system line, so the parse is clean and the system consists of a process that has no initial location.
#include "utap/utap.h"
#include "utap/document.h"

#include <iostream>

using namespace UTAP;

static bool owns(template_t& t, const void* loc)
{
    for (auto& l : t.locations)
        if (&l == loc)
            return true;
    return false;
}

int main()
{
    const char* model = "dynamic T(); system T;";
    Document doc;
    bool ok = parse_XTA(model, &doc, true);
    std::cout << "parse_XTA returned " << ok << ", errors: " << doc.get_errors().size() << "\n";
    for (auto& e : doc.get_errors())
        std::cout << "  " << e.msg << "\n";
    if (!ok || doc.has_errors())
        return 0;  // a diagnostic is what the property asks for

    int bad = 0;
    auto check = [&](template_t& t) {
        if (!t.is_TA)
            return;
        bool has_init = t.init != symbol_t{} && owns(t, t.init.get_data());
        std::cout << "template " << t.uid.get_name() << ": " << t.locations.size() << " locations, init "
                  << (has_init ? "ok" : "MISSING") << "\n";
        if (!has_init)
            ++bad;
    };
    for (auto& t : doc.get_templates())
        check(t);
    for (auto* t : doc.get_dynamic_templates())
        check(*t);
    for (auto& p : doc.get_processes())
        std::cout << "process " << p.uid.get_name() << " of template " << p.templ->uid.get_name() << " with "
                  << p.templ->locations.size() << " locations\n";
    return bad ? 1 : 0;
}
