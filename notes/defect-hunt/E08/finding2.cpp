// C08, first clause: "every ... template, instance and process reachable from the document is the user
// object of its own symbol" (document.h, instance_t: "If i is an instance, then i.uid.get_data() == i").
//
// An LSC instance line whose name has the form  Name(args)  gets its symbol only if Name resolves to a
// template and the argument count fits.  Otherwise DocumentBuilder::instance_name_end() drops the name
// - for an unknown Name without any diagnostic - and the line stays in template_t::instances with a
// default (null) uid: the parse is clean, and il.uid.get_name() / il.uid.get_data() dereference null.
#include "utap/utap.h"
#include "utap/document.h"

#include <iostream>

using namespace UTAP;

static const char* model = R"XML(<?xml version="1.0" encoding="utf-8"?>
<nta>
  <declaration></declaration>
  <template><name>A</name><location id="id0"/><init ref="id0"/></template>
  <lsc>
    <name>L</name><type>Universal</type><mode>Invariant</mode>
    <yloccoord number="0" y="0"/>
    <instance id="id1"><name>X(1)</name></instance>
  </lsc>
  <system>system A;</system>
</nta>
)XML";

int main()
{
    Document doc;
    int res = parse_XML_buffer(model, &doc, true);
    std::cout << "parse_XML_buffer returned " << res << ", errors: " << doc.get_errors().size() << "\n";
    for (auto& e : doc.get_errors())
        std::cout << "  " << e.msg << "\n";
    int bad = 0;
    for (auto& t : doc.get_templates()) {
        for (auto& il : t.instances) {
            std::cout << "template " << t.uid.get_name() << ", instance line " << il.instance_nr << ": ";
            if (il.uid == symbol_t{}) {
                std::cout << "NO SYMBOL (uid is null)\n";
                ++bad;
            } else if (il.uid.get_data() != &il) {
                std::cout << "symbol " << il.uid.get_name() << " does not point back\n";
                ++bad;
            } else {
                std::cout << "symbol " << il.uid.get_name() << " ok\n";
            }
        }
    }
    return bad ? 1 : 0;
}
