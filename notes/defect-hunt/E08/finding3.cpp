// C08, last clause: "When the call returned normally and reported no errors, every timed-automaton
// template has an initial location among its own locations."
//
// DocumentBuilder::proc_begin() looks the name up among the dynamic templates before it looks at its
// isTA argument.  An <lsc> chart that carries the name of a declared dynamic template therefore is not
// added as an LSC template: its instance lines, messages, ... are poured into the dynamic
// timed-automaton template, which is marked as defined.  The parse is clean (even "spawn T()" type
// checks), the chart is gone, and the timed-automaton template T is defined without any location or
// initial location.
#include "utap/utap.h"
#include "utap/document.h"

#include <iostream>

using namespace UTAP;

static const char* model = R"XML(<?xml version="1.0" encoding="utf-8"?>
<nta>
  <declaration>dynamic T();</declaration>
  <template>
    <name>A</name>
    <location id="id0"/>
    <init ref="id0"/>
    <transition><source ref="id0"/><target ref="id0"/><label kind="assignment">spawn T()</label></transition>
  </template>
  <lsc>
    <name>T</name><type>Universal</type><mode>Invariant</mode>
    <yloccoord number="0" y="0"/>
    <instance id="id1"><name>A</name></instance>
  </lsc>
  <system>system A;</system>
</nta>
)XML";

static bool owns(template_t& t, const void* loc)
{
    for (auto& l : t.locations)
        if (&l == loc)
            return true;
    return false;
}

int main()
{
    Document doc;
    int res = parse_XML_buffer(model, &doc, true);
    std::cout << "parse_XML_buffer returned " << res << ", errors: " << doc.get_errors().size() << "\n";
    for (auto& e : doc.get_errors())
        std::cout << "  " << e.msg << "\n";
    if (res != 0 || doc.has_errors())
        return 0;  // a diagnostic is what the property asks for

    int bad = 0;
    auto check = [&](template_t& t, const char* list) {
        std::cout << list << " template " << t.uid.get_name() << ": is_TA=" << t.is_TA << " dynamic=" << t.dynamic
                  << " is_defined=" << t.is_defined << " locations=" << t.locations.size()
                  << " instance lines=" << t.instances.size();
        if (t.is_TA && (!t.dynamic || t.is_defined)) {
            bool has_init = t.init != symbol_t{} && owns(t, t.init.get_data());
            std::cout << " init " << (has_init ? "ok" : "MISSING");
            if (!has_init)
                ++bad;
        }
        std::cout << "\n";
    };
    for (auto& t : doc.get_templates())
        check(t, "static ");
    for (auto* t : doc.get_dynamic_templates())
        check(*t, "dynamic");
    return bad ? 1 : 0;
}
