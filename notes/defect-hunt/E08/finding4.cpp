// C08 (traversal of the variables reachable from the document; same family as the repaired
// edge_t::str() crash): variable_t::str() throws std::out_of_range (assert failure in a debug build)
// for every variable whose array type comes from a typedef, because variable_t::print() expects a '['
// in the declaration text of each array type.  declarations_t::str() - and with it write_XML_file() -
// fails the same way, on a model that parses and type checks without diagnostics.
#include "utap/utap.h"
#include "utap/document.h"

#include <iostream>

using namespace UTAP;

int main()
{
    const char* model = "typedef int arr_t[3];\n"
                        "arr_t a;\n"
                        "process P() { state S; init S; }\n"
                        "system P;\n";
    Document doc;
    bool ok = parse_XTA(model, &doc, true);
    std::cout << "parse_XTA returned " << ok << ", errors: " << doc.get_errors().size() << "\n";
    if (!ok)
        return 2;  // unexpected: the model is valid
    int bad = 0;
    for (auto& v : doc.get_globals().variables) {
        if (v.uid.get_data() != &v)
            return 3;
        try {
            std::string text = v.str();
            if (v.uid.get_name() == "a")
                std::cout << "a prints as: " << text << "\n";
        } catch (const std::exception& e) {
            std::cout << "variable " << v.uid.get_name() << ": str() threw " << e.what() << "\n";
            ++bad;
        }
    }
    try {
        doc.get_globals().str(true);
    } catch (const std::exception& e) {
        std::cout << "declarations_t::str() threw " << e.what() << "\n";
        ++bad;
    }
    return bad ? 1 : 0;
}
