// C10 finding 1: a clock comparison whose bound is not an integer falls into the "number vs number -> bool"
// catch-all of NEQ / GT / GE (and LT/LE/EQ for diff-vs-diff), so non-convex clock constraints are typed bool.
#include "utap/utap.h"

#include <iostream>
#include <string>

using namespace UTAP;

static std::string esc(const std::string& t)
{
    std::string r;
    for (char c : t) {
        if (c == '&') r += "&amp;";
        else if (c == '<') r += "&lt;";
        else if (c == '>') r += "&gt;";
        else r += c;
    }
    return r;
}

/** Builds a one-edge model; returns true if the library accepts it (no error diagnostics). */
static bool accepted(const std::string& decls, const std::string& pre_templates, const std::string& guard,
                     const std::string& invariant)
{
    std::string m = "<?xml version=\"1.0\" encoding=\"utf-8\"?><nta><declaration>" + esc(decls) + "</declaration>" +
                    pre_templates + "<template><name>T</name><location id=\"id0\">";
    if (!invariant.empty())
        m += "<label kind=\"invariant\">" + esc(invariant) + "</label>";
    m += "</location><location id=\"id1\"/><init ref=\"id0\"/><transition><source ref=\"id0\"/><target ref=\"id1\"/>";
    if (!guard.empty())
        m += "<label kind=\"guard\">" + esc(guard) + "</label>";
    m += "</transition></template><system>P = T(); system P;</system></nta>";
    Document doc;
    int res = parse_XML_buffer(m.c_str(), &doc, true);
    bool ok = res == 0 && !doc.has_errors();
    std::string type = "-";
    if (!doc.get_templates().empty()) {
        auto& t = doc.get_templates().back();
        if (!guard.empty() && !t.edges.empty() && !t.edges.front().guard.empty())
            type = t.edges.front().guard.get_type().str();
    }
    std::cout << (guard.empty() ? "invariant " : "guard     ") << (guard.empty() ? invariant : guard) << "  ->  "
              << (ok ? "ACCEPTED" : "rejected");
    if (!guard.empty())
        std::cout << "  type " << type;
    if (!ok && doc.has_errors())
        std::cout << "  [" << doc.get_errors().front().msg << "]";
    std::cout << "\n";
    return ok;
}

int main()
{
    const std::string d = "clock x, y; double r;";
    int bad = 0;
    // reference points: the integer-bound forms are rejected (constraint)
    if (accepted(d, "", "x != 3", "")) { std::cout << "unexpected: reference x != 3 accepted\n"; }
    if (accepted(d, "", "!(x - y > 2)", "")) { std::cout << "unexpected: reference !(x - y > 2) accepted\n"; }
    // the same shapes with a double bound must be rejected as well
    bad += accepted(d, "", "x != 2.5", "");                         // non-convex atom, typed bool
    bad += accepted(d, "", "", "x != 2.5");                         // same as invariant
    bad += accepted(d, "", "x - y != r", "");                       // difference, double variable
    bad += accepted(d, "", "!(x - y > 2.5)", "");                   // negation of a clock difference bound
    bad += accepted(d, "", "x - y > 2.5 || y - x > 2.5", "");       // disjunction of two clock difference bounds
    bad += accepted(d, "", "", "x - y >= 2.5 || y - x >= 2.5");     // same as invariant
    std::cout << bad << " non-convex clock constraints accepted\n";
    return bad ? 1 : 0;
}
