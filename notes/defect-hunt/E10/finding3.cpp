// C10 finding 3: == / != between clock arrays (or records holding clocks) is typed bool through
// areEqCompatible -> areEquivalent, so element-wise clock (in)equalities escape the classification.
#include "utap/utap.h"

#include <iostream>
#include <string>

using namespace UTAP;

static std::string esc(const std::string& t)
{
    std::string r;
    for (char c : t) {
        if (c == '&') r += "&amp;";
        else if (c == '<') r += "&lt;";
        else if (c == '>') r += "&gt;";
        else r += c;
    }
    return r;
}

/** Builds a one-edge model; returns true if the library accepts it (no error diagnostics). */
static bool accepted(const std::string& decls, const std::string& pre_templates, const std::string& guard,
                     const std::string& invariant)
{
    std::string m = "<?xml version=\"1.0\" encoding=\"utf-8\"?><nta><declaration>" + esc(decls) + "</declaration>" +
                    pre_templates + "<template><name>T</name><location id=\"id0\">";
    if (!invariant.empty())
        m += "<label kind=\"invariant\">" + esc(invariant) + "</label>";
    m += "</location><location id=\"id1\"/><init ref=\"id0\"/><transition><source ref=\"id0\"/><target ref=\"id1\"/>";
    if (!guard.empty())
        m += "<label kind=\"guard\">" + esc(guard) + "</label>";
    m += "</transition></template><system>P = T(); system P;</system></nta>";
    Document doc;
    int res = parse_XML_buffer(m.c_str(), &doc, true);
    bool ok = res == 0 && !doc.has_errors();
    std::string type = "-";
    if (!doc.get_templates().empty()) {
        auto& t = doc.get_templates().back();
        if (!guard.empty() && !t.edges.empty() && !t.edges.front().guard.empty())
            type = t.edges.front().guard.get_type().str();
    }
    std::cout << (guard.empty() ? "invariant " : "guard     ") << (guard.empty() ? invariant : guard) << "  ->  "
              << (ok ? "ACCEPTED" : "rejected");
    if (!guard.empty())
        std::cout << "  type " << type;
    if (!ok && doc.has_errors())
        std::cout << "  [" << doc.get_errors().front().msg << "]";
    std::cout << "\n";
    return ok;
}

int main()
{
    const std::string d = "clock xs[2], ys[2]; typedef struct { clock c; } S; S s1, s2;";
    int bad = 0;
    // reference: the element-wise forms are rejected
    if (accepted(d, "", "xs[0] != ys[0]", "")) std::cout << "unexpected: reference accepted\n";
    if (accepted(d, "", "!(xs[0] == ys[0] && xs[1] == ys[1])", "")) std::cout << "unexpected: reference accepted\n";
    bad += accepted(d, "", "xs != ys", "");        // = xs[0] != ys[0] || xs[1] != ys[1]
    bad += accepted(d, "", "", "xs != ys");        // same as invariant
    bad += accepted(d, "", "!(xs == ys)", "");     // negation of a conjunction of clock equalities
    bad += accepted(d, "", "s1 != s2", "");        // record with a clock field
    std::cout << bad << " non-convex clock constraints accepted\n";
    return bad ? 1 : 0;
}
