// C10 finding 4: the condition of an inline-if may be a clock guard while the result is an integer, so
// negation and disjunction of clock comparisons can be spelled with ?: and come out as plain bool.
#include "utap/utap.h"

#include <iostream>
#include <string>

using namespace UTAP;

static std::string esc(const std::string& t)
{
    std::string r;
    for (char c : t) {
        if (c == '&') r += "&amp;";
        else if (c == '<') r += "&lt;";
        else if (c == '>') r += "&gt;";
        else r += c;
    }
    return r;
}

/** Builds a one-edge model; returns true if the library accepts it (no error diagnostics). */
static bool accepted(const std::string& decls, const std::string& pre_templates, const std::string& guard,
                     const std::string& invariant)
{
    std::string m = "<?xml version=\"1.0\" encoding=\"utf-8\"?><nta><declaration>" + esc(decls) + "</declaration>" +
                    pre_templates + "<template><name>T</name><location id=\"id0\">";
    if (!invariant.empty())
        m += "<label kind=\"invariant\">" + esc(invariant) + "</label>";
    m += "</location><location id=\"id1\"/><init ref=\"id0\"/><transition><source ref=\"id0\"/><target ref=\"id1\"/>";
    if (!guard.empty())
        m += "<label kind=\"guard\">" + esc(guard) + "</label>";
    m += "</transition></template><system>P = T(); system P;</system></nta>";
    Document doc;
    int res = parse_XML_buffer(m.c_str(), &doc, true);
    bool ok = res == 0 && !doc.has_errors();
    std::string type = "-";
    if (!doc.get_templates().empty()) {
        auto& t = doc.get_templates().back();
        if (!guard.empty() && !t.edges.empty() && !t.edges.front().guard.empty())
            type = t.edges.front().guard.get_type().str();
    }
    std::cout << (guard.empty() ? "invariant " : "guard     ") << (guard.empty() ? invariant : guard) << "  ->  "
              << (ok ? "ACCEPTED" : "rejected");
    if (!guard.empty())
        std::cout << "  type " << type;
    if (!ok && doc.has_errors())
        std::cout << "  [" << doc.get_errors().front().msg << "]";
    std::cout << "\n";
    return ok;
}

int main()
{
    const std::string d = "clock x, y;";
    int bad = 0;
    // reference: the direct spellings are rejected
    if (accepted(d, "", "!(x < 3)", "")) std::cout << "unexpected: reference accepted\n";
    if (accepted(d, "", "x < 3 || y < 3", "")) std::cout << "unexpected: reference accepted\n";
    bad += accepted(d, "", "(x < 3 ? false : true)", "");                  // = !(x < 3)
    bad += accepted(d, "", "", "(x < 3 ? false : true)");                  // same as invariant
    bad += accepted(d, "", "(x < 3 ? true : false) || (y < 3 ? true : false)", "");  // = x < 3 || y < 3
    bad += accepted(d, "", "!(x == 3 ? true : false)", "");                // = x != 3
    std::cout << bad << " non-convex clock constraints accepted\n";
    return bad ? 1 : 0;
}
