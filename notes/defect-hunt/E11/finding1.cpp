// C11 finding 1: a query that calls a process-local function through "Process.f()" is accepted
// although f writes state; the same writer called without the process prefix is rejected.
#include "utap/property.h"
#include "utap/utap.h"

#include <iostream>
#include <string>

using namespace UTAP;

static const char* model = R"(
int x;
int w() { x = 1; return 1; }            // global writer
process P() {
    int z;
    int f() { z = 1; return 1; }        // writes the process-local z
    int h() { x = 1; return 1; }        // writes the global x
    int r(int &q) { q = 1; return 1; }  // writes through a non-constant reference parameter
    int g() { return z; }               // pure
    state A;
    init A;
    trans A -> A { guard g() == 0; };
}
system P;
)";

// returns true iff the query is accepted (no new error on the document)
static bool accepted(Document& doc, const std::string& query)
{
    const auto before = doc.get_errors().size();
    TigaPropertyBuilder pb(doc);
    try {
        parseProperty(query.c_str(), &pb);
    } catch (const std::exception& e) {
        return false;
    }
    const bool ok = doc.get_errors().size() == before;
    std::cout << (ok ? "accepted: " : "rejected: ") << query << "\n";
    return ok;
}

int main()
{
    Document doc;
    if (!parse_XTA(model, &doc, true)) {
        std::cout << "model rejected: " << doc.get_errors().front().msg << "\n";
        return 2;
    }
    int bad = 0;
    // twins without a write must be accepted
    if (!accepted(doc, "A[] P.g() >= 0"))
        return 2;
    // reference verdict: the same kind of writer without the process prefix is rejected
    if (accepted(doc, "A[] w() >= 0"))
        return 2;
    // the violations: all of these modify a variable
    bad += accepted(doc, "A[] P.f() >= 0");
    bad += accepted(doc, "E<> P.h() > 0");
    bad += accepted(doc, "A[] P.r(x) >= 0");
    bad += accepted(doc, "sup: P.f()");
    if (bad) {
        std::cout << bad << " state-changing queries were accepted\n";
        return 1;
    }
    return 0;
}
