// C11 finding 2: the side-effect analysis itself crashes (null symbol dereference) on a call of a function of a
// dynamic process, "p.g()" under "forall (p : Child)", whether or not g writes anything.
#include "utap/property.h"
#include "utap/utap.h"

#include <iostream>

using namespace UTAP;

static const char* model = R"(
int y;
dynamic Child(int i);
process Child(int i) {
    int z;
    int g() { return z; }   // pure
    state A;
    init A;
    trans A -> A { assign y = 1; };
}
process Parent() {
    state A, B;
    init A;
    trans A -> B { guard forall (p : Child)(p.g() >= 0); assign y = spawn Child(1); };
}
system Parent;
)";

int main()
{
    Document doc;
    // The guard is side-effect free (its twin "p.z >= 0" is accepted), so the model must be accepted.
    // Instead parse_XTA never returns: SIGSEGV in expression_t::collect_possible_writes.
    parse_XTA(model, &doc, true);
    for (const auto& e : doc.get_errors())
        std::cout << "error: " << e.msg << "\n";
    return doc.has_errors() ? 1 : 0;
}
