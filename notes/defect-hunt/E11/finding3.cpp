// C11 finding 3: the body of a quantifier over dynamic processes is never checked for side effects:
//   b = forall (p : Child)(x++ >= 0)   is accepted, while
//   b = forall (i : int[0,1])(x++ >= 0) is rejected ($Expression_must_be_side-effect_free).
#include "utap/utap.h"

#include <iostream>
#include <string>

using namespace UTAP;

static std::string model(const std::string& update)
{
    return R"(
int x; int y; bool b;
int w0() { x = 1; return 1; }
dynamic Child(int i);
process Child(int i) {
    int z;
    state A;
    init A;
    trans A -> A { assign )" + update + R"(; };
}
process Parent() {
    state A, B;
    init A;
    trans A -> B { assign y = spawn Child(1); };
}
system Parent;
)";
}

static bool accepted(const std::string& update)
{
    Document doc;
    const bool ok = parse_XTA(model(update).c_str(), &doc, true);
    std::cout << (ok ? "accepted: " : "rejected: ") << update;
    if (!ok)
        std::cout << "   [" << doc.get_errors().front().msg << "]";
    std::cout << "\n";
    return ok;
}

int main()
{
    // twins without a write: accepted
    if (!accepted("b = forall (p : Child)(x >= 0)") || !accepted("b = forall (i : int[0,1])(x >= 0)"))
        return 2;
    // reference verdict: quantifier over an integer range with a writing body is rejected
    if (accepted("b = forall (i : int[0,1])(x++ >= 0)"))
        return 2;
    int bad = 0;
    bad += accepted("b = forall (p : Child)(x++ >= 0)");
    bad += accepted("b = exists (p : Child)((x = 3) >= 0)");
    bad += accepted("b = forall (p : Child)(w0() >= 0)");
    bad += accepted("y = (sum (p : Child) (x++))");
    if (bad) {
        std::cout << bad << " quantified bodies that write x were accepted\n";
        return 1;
    }
    return 0;
}
