// C11 finding 4: the range bound / array size of a typedef is not checked where the typedef is declared.
//   typedef int[0, x++] T;     is accepted (as is "typedef int A[w()];"), while
//   int[0, x++] v;             is rejected.
#include "utap/utap.h"

#include <iostream>
#include <string>

using namespace UTAP;

static bool accepted(const std::string& decl)
{
    const std::string text = "int x;\nconst int N = 2;\nint w() { x = 1; return 1; }\n" + decl +
                             "\nprocess P() { state A; init A; }\nsystem P;\n";
    Document doc;
    const bool ok = parse_XTA(text.c_str(), &doc, true);
    std::cout << (ok ? "accepted: " : "rejected: ") << decl;
    if (!ok)
        std::cout << "   [" << doc.get_errors().front().msg << "]";
    std::cout << "\n";
    return ok;
}

int main()
{
    // twins without a write: accepted
    if (!accepted("typedef int[0, N] T;") || !accepted("typedef int A[N];"))
        return 2;
    // reference verdict: the same bound in a variable declaration is rejected
    if (accepted("int[0, x++] v;") || accepted("int v[w()];"))
        return 2;
    int bad = 0;
    bad += accepted("typedef int[0, x++] T;");
    bad += accepted("typedef int[0, (x = 3)] T;");
    bad += accepted("typedef int A[w()];");
    bad += accepted("typedef struct { int f[w()]; } S;");
    bad += accepted("typedef scalar[w()] Sc;");
    if (bad) {
        std::cout << bad << " typedefs whose bound writes x were accepted\n";
        return 1;
    }
    return 0;
}
