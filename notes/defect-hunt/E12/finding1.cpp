// C12 finding 1: the binder of a dynamic quantifier (forall/exists/sum over a dynamic template) can be assigned.
#include "utap/utap.h"

#include <iostream>
#include <string>
#include <vector>

struct verdict_t
{
    bool accepted;
    std::vector<std::string> errors;
    bool has(const std::string& msg) const
    {
        for (const auto& e : errors)
            if (e.find(msg) != std::string::npos)
                return true;
        return false;
    }
};

inline verdict_t check(const std::string& name, const std::string& model)
{
    UTAP::Document doc;
    parse_XTA(model.c_str(), &doc, true);
    verdict_t v{!doc.has_errors(), {}};
    std::cout << name << ": " << (v.accepted ? "ACCEPTED" : "rejected");
    for (const auto& e : doc.get_errors()) {
        v.errors.push_back(e.msg);
        std::cout << " [" << e.msg << "]";
    }
    std::cout << "\n";
    return v;
}

static std::string model(const std::string& update)
{
    return "int m;\n"
           "dynamic T();\n"
           "process T() { state s; init s; }\n"
           "process P() { state s; init s; trans s -> s { assign " + update + "; }; }\n"
           "system P;\n";
}

int main()
{
    int bad = 0;
    // control: the binder of an ordinary quantifier is const
    if (check("forall (i : int[0,1]) (i = 1)", model("m = forall (i : int[0,1]) (i = 1)")).accepted)
        ++bad;
    // the same write forms on the binder of a dynamic quantifier
    for (const char* q : {"forall (p : T)", "exists (p : T)", "sum (p : T)"})
        for (const char* w : {"p = 1", "p -= 1", "p <<= 1"}) {
            const auto text = std::string{"m = "} + q + " (" + w + ")";
            if (check(text, model(text)).accepted)
                ++bad;
        }
    std::cout << (bad ? "VIOLATION: a write to a quantifier binder was accepted\n" : "ok\n");
    return bad ? 1 : 0;
}
