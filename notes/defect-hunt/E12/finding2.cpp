// C12 finding 2: the definition of a dynamic template may declare a parameter const that its
// "dynamic" declaration declared mutable (same outermost type kind); the body then writes the const parameter.
#include "utap/utap.h"

#include <iostream>
#include <string>
#include <vector>

struct verdict_t
{
    bool accepted;
    std::vector<std::string> errors;
    bool has(const std::string& msg) const
    {
        for (const auto& e : errors)
            if (e.find(msg) != std::string::npos)
                return true;
        return false;
    }
};

inline verdict_t check(const std::string& name, const std::string& model)
{
    UTAP::Document doc;
    parse_XTA(model.c_str(), &doc, true);
    verdict_t v{!doc.has_errors(), {}};
    std::cout << name << ": " << (v.accepted ? "ACCEPTED" : "rejected");
    for (const auto& e : doc.get_errors()) {
        v.errors.push_back(e.msg);
        std::cout << " [" << e.msg << "]";
    }
    std::cout << "\n";
    return v;
}

int main()
{
    const std::string head = "typedef int mi; typedef const int ci;\n";
    const std::string body = " { state s; init s; trans s -> s { assign k = 1; }; }\n";
    const std::string tail = "process P() { state s; init s; }\nsystem P;\n";

    // control: the same template, not dynamic: k is const, the write is rejected
    const auto plain = check("process T(ci k) {.. k = 1 ..}", head + "process T(ci k)" + body + tail);
    // declared with a mutable k, defined with a const k
    const auto dyn = check("dynamic T(mi k); process T(ci k) {.. k = 1 ..}",
                           head + "dynamic T(mi k);\nprocess T(ci k)" + body + tail);
    // the mirror image: declared const, defined mutable: the write to the mutable parameter is rejected
    const auto mirror = check("dynamic T(ci k); process T(mi k) {.. k = 1 ..}",
                              head + "dynamic T(ci k);\nprocess T(mi k)" + body + tail);
    (void)mirror;
    if (!plain.accepted && dyn.accepted) {
        std::cout << "VIOLATION: the write to the const parameter k of T was accepted\n";
        return 1;
    }
    std::cout << "ok\n";
    return 0;
}
