// C12 finding 3: two parameters of the same name are accepted; a later mutable namesake makes the
// const parameter "writable", and the verdict depends on the order of the two parameters.
#include "utap/utap.h"

#include <iostream>
#include <string>
#include <vector>

struct verdict_t
{
    bool accepted;
    std::vector<std::string> errors;
    bool has(const std::string& msg) const
    {
        for (const auto& e : errors)
            if (e.find(msg) != std::string::npos)
                return true;
        return false;
    }
};

inline verdict_t check(const std::string& name, const std::string& model)
{
    UTAP::Document doc;
    parse_XTA(model.c_str(), &doc, true);
    verdict_t v{!doc.has_errors(), {}};
    std::cout << name << ": " << (v.accepted ? "ACCEPTED" : "rejected");
    for (const auto& e : doc.get_errors()) {
        v.errors.push_back(e.msg);
        std::cout << " [" << e.msg << "]";
    }
    std::cout << "\n";
    return v;
}

int main()
{
    const std::string tail = "process P() { state s; init s; }\nsystem P;\n";
    int bad = 0;
    // functions
    if (check("void f(const int k, int k) { k = 1; }", "void f(const int k, int k) { k = 1; }\n" + tail).accepted)
        ++bad;
    check("void f(int k, const int k) { k = 1; }", "void f(int k, const int k) { k = 1; }\n" + tail);
    // templates
    if (check("process T(const int k, int k) {.. k = 1 ..}",
              "process T(const int k, int k) { state s; init s; trans s -> s { assign k = 1; }; }\n" + tail)
            .accepted)
        ++bad;
    check("process T(int k, const int k) {.. k = 1 ..}",
          "process T(int k, const int k) { state s; init s; trans s -> s { assign k = 1; }; }\n" + tail);
    std::cout << (bad ? "VIOLATION: a write to the name of a const parameter was accepted\n" : "ok\n");
    return bad ? 1 : 0;
}
