// C12 finding 4: "const" on an array field of a struct escapes the rule "$Constant_fields_not_allowed_in_struct";
// the variable is then immutable as a whole although it is not declared const: writes to its mutable field are rejected.
#include "utap/utap.h"

#include <iostream>
#include <string>
#include <vector>

struct verdict_t
{
    bool accepted;
    std::vector<std::string> errors;
    bool has(const std::string& msg) const
    {
        for (const auto& e : errors)
            if (e.find(msg) != std::string::npos)
                return true;
        return false;
    }
};

inline verdict_t check(const std::string& name, const std::string& model)
{
    UTAP::Document doc;
    parse_XTA(model.c_str(), &doc, true);
    verdict_t v{!doc.has_errors(), {}};
    std::cout << name << ": " << (v.accepted ? "ACCEPTED" : "rejected");
    for (const auto& e : doc.get_errors()) {
        v.errors.push_back(e.msg);
        std::cout << " [" << e.msg << "]";
    }
    std::cout << "\n";
    return v;
}

int main()
{
    const std::string tail = "process P() { state s; init s; }\nsystem P;\n";
    // control 1: a const scalar field is refused
    const auto scalar = check("struct { const int a; int b; } s", "struct { const int a; int b; } s = {1,3};\n" + tail);
    // control 2: without const the field b is writable
    const auto plain = check("struct { int a[2]; int b; } s; s.b = 1",
                             "struct { int a[2]; int b; } s = {{1,2},3};\nvoid f() { s.b = 1; }\n" + tail);
    // a const array field is let through ...
    const auto decl =
        check("struct { const int a[2]; int b; } s", "struct { const int a[2]; int b; } s = {{1,2},3};\n" + tail);
    // ... and then the mutable field b of the non-const variable s cannot be written
    const auto write = check("struct { const int a[2]; int b; } s; s.b = 1",
                             "struct { const int a[2]; int b; } s = {{1,2},3};\nvoid f() { s.b = 1; }\n" + tail);
    const bool consistent = !decl.accepted /* refused like the scalar field */ || write.accepted /* or b writable */;
    if (!scalar.accepted && plain.accepted && !consistent) {
        std::cout << "VIOLATION: the declaration is accepted, but the write to the mutable field s.b is rejected\n";
        return 1;
    }
    std::cout << "ok\n";
    return 0;
}
