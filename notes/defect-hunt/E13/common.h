// Shared helpers for the C13 finding programs (public libutap API only).
#pragma once
#include "utap/utap.h"
#include "utap/document.h"

#include <iostream>
#include <string>
#include <vector>

struct verdict_t
{
    bool parsed;                    // parse_XTA / parse_XML_buffer result
    std::vector<std::string> errors;  // diagnostics of the document
    bool has(const std::string& needle) const
    {
        for (const auto& e : errors)
            if (e.find(needle) != std::string::npos)
                return true;
        return false;
    }
};

inline verdict_t check_xta(const std::string& model)
{
    UTAP::Document doc;
    verdict_t v;
    v.parsed = parse_XTA(model.c_str(), &doc, true);
    for (const auto& e : doc.get_errors())
        v.errors.push_back(e.msg);
    return v;
}

inline verdict_t check_xml(const std::string& model)
{
    UTAP::Document doc;
    verdict_t v;
    v.parsed = parse_XML_buffer(model.c_str(), &doc, true) == 0;
    for (const auto& e : doc.get_errors())
        v.errors.push_back(e.msg);
    return v;
}

inline void show(const char* title, const std::string& model, const verdict_t& v)
{
    std::cout << "== " << title << "\n" << model << "\n-> " << (v.errors.empty() ? "accepted" : "rejected") << "\n";
    for (const auto& e : v.errors)
        std::cout << "   error: " << e << "\n";
}
