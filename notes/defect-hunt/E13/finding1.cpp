// C13 finding 1: a free process parameter reaches an array size through a function body and is accepted.
//
// g++ -std=c++17 -I/tmp/wt-E13/include finding1.cpp /tmp/wt-E13/_build/src/libUTAP.a -lxml2 -ldl -o finding1
#include "common.h"

static const char* FREE = "$Free_process_parameters_must_not_be_used_directly_or_indirectly_in_an_array_declaration";

int main()
{
    // control 1: the direct use of the free parameter n in the array size is rejected
    const std::string direct = "process P(const int[0,3] n) { int a[n+1]; state s; init s; }\n"
                               "system P;\n";
    // control 2: the chain through a constant initialiser is rejected, too
    const std::string via_const = "process P(const int[0,3] n) { const int c = n; int a[c+1]; state s; init s; }\n"
                                  "system P;\n";
    // control 3: the function chain is fine when the parameter is bound
    const std::string bound = "process P(const int[0,3] n) { int f() { return n; } int a[f()+1]; state s; init s; }\n"
                              "Q = P(2);\n"
                              "system Q;\n";
    // the violation: same array size, the dependence on n runs through the function f
    const std::string via_fun = "process P(const int[0,3] n) { int f() { return n; } int a[f()+1]; state s; init s; }\n"
                                "system P;\n";
    // ... and through a partial instantiation that leaves the parameter free
    const std::string via_fun_partial =
        "process P(const int[0,3] n) { int f() { return n; } int a[f()+1]; state s; init s; }\n"
        "Q(const int[0,3] m) = P(m);\n"
        "system Q;\n";

    // ... and through the range of an iteration inside the function (the body reads n only there)
    const std::string via_fun_iteration =
        "process P(const int[0,3] n) { int f() { int k = 0; for (i : int[0,n]) k++; return k; } int a[f()];"
        " state s; init s; }\n"
        "system P;\n";

    const auto v_direct = check_xta(direct);
    const auto v_const = check_xta(via_const);
    const auto v_bound = check_xta(bound);
    const auto v_fun = check_xta(via_fun);
    const auto v_fun_partial = check_xta(via_fun_partial);
    show("control: direct", direct, v_direct);
    show("control: via constant", via_const, v_const);
    show("control: bound parameter", bound, v_bound);
    show("free parameter via function", via_fun, v_fun);
    show("free parameter via function, partial instance", via_fun_partial, v_fun_partial);
    const auto v_fun_iteration = check_xta(via_fun_iteration);
    show("free parameter via the iteration range of a function", via_fun_iteration, v_fun_iteration);

    if (!v_direct.has(FREE) || !v_const.has(FREE) || !v_bound.errors.empty()) {
        std::cout << "controls do not behave as expected: inconclusive\n";
        return 2;
    }
    if (!v_fun.has(FREE) || !v_fun_partial.has(FREE) || !v_fun_iteration.has(FREE)) {
        std::cout << "VIOLATION: the free process parameter n is accepted inside the array size a[f()+1]\n";
        return 1;
    }
    std::cout << "ok\n";
    return 0;
}
