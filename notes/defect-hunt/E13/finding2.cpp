// C13 finding 2: a free process parameter reaches an array size through the range of a quantifier binder
// (sum / forall / exists) and is accepted.
//
// g++ -std=c++17 -I/tmp/wt-E13/include finding2.cpp /tmp/wt-E13/_build/src/libUTAP.a -lxml2 -ldl -o finding2
#include "common.h"

static const char* FREE = "$Free_process_parameters_must_not_be_used_directly_or_indirectly_in_an_array_declaration";

int main()
{
    // control 1: n in the body of the sum is seen
    const std::string body = "process P(const int[0,3] n) { int a[(sum (i : int[0,2]) n) + 1]; state s; init s; }\n"
                             "system P;\n";
    // control 2: n in the binder range, parameter bound: accepted
    const std::string bound = "process P(const int[0,3] n) { int a[sum (i : int[0,n]) 1]; state s; init s; }\n"
                              "Q = P(2);\n"
                              "system Q;\n";
    // the violation: the array has n+1 elements, n is free
    const std::string range_sum = "process P(const int[0,3] n) { int a[sum (i : int[0,n]) 1]; state s; init s; }\n"
                                  "system P;\n";
    const std::string range_forall =
        "process P(const int[0,3] n) { int a[(forall (i : int[0,n]) i < 2) ? 1 : 2]; state s; init s; }\n"
        "system P;\n";
    // the same through the argument of a partial instantiation
    const std::string partial = "process P(const int[0,3] n) { int a[n+1]; state s; init s; }\n"
                                "Q(const int[0,3] m) = P(sum (i : int[0,m]) 1);\n"
                                "system Q;\n";

    const auto v_body = check_xta(body);
    const auto v_bound = check_xta(bound);
    const auto v_sum = check_xta(range_sum);
    const auto v_forall = check_xta(range_forall);
    const auto v_partial = check_xta(partial);
    show("control: parameter in the body of the sum", body, v_body);
    show("control: bound parameter", bound, v_bound);
    show("free parameter in the range of a sum binder", range_sum, v_sum);
    show("free parameter in the range of a forall binder", range_forall, v_forall);
    show("free parameter in a binder range inside the argument of a partial instance", partial, v_partial);

    if (!v_body.has(FREE) || !v_bound.errors.empty()) {
        std::cout << "controls do not behave as expected: inconclusive\n";
        return 2;
    }
    if (!v_sum.has(FREE) || !v_forall.has(FREE) || !v_partial.has(FREE)) {
        std::cout << "VIOLATION: the free process parameter is accepted inside an array size (binder range)\n";
        return 1;
    }
    std::cout << "ok\n";
    return 0;
}
