// C13 finding 3: random() makes an expression non-computable only when it is the outermost operator;
// below any other operator, or inside a function body, it is accepted as array size, range bound,
// initialiser and value argument.
//
// g++ -std=c++17 -I/tmp/wt-E13/include finding3.cpp /tmp/wt-E13/_build/src/libUTAP.a -lxml2 -ldl -o finding3
#include "common.h"

static const char* CTC = "$Must_be_computable_at_compile_time";
static const char* TAIL = "process P() { state s; init s; }\nsystem P;\n";

int main()
{
    // control: random as the outermost operator of an initialiser is rejected
    const std::string top = std::string("double v = random(3);\n") + TAIL;
    // control: the same shape with a literal is accepted
    const std::string lit = std::string("double v = -3.0;\nint a[fint(3.0)+1];\n") + TAIL;

    const std::string init_nested = std::string("double v = -random(3);\n") + TAIL;
    const std::string array_size = std::string("int a[fint(random(3))+1];\n") + TAIL;
    const std::string range_bound = std::string("int[0,fint(random(3))] v;\n") + TAIL;
    const std::string via_fun = std::string("double f() { return random(3); }\nconst double v = f();\n") + TAIL;
    const std::string argument = "process P(const int n) { int a[n+1]; state s; init s; }\n"
                                 "Q = P(fint(random(3)));\n"
                                 "system Q;\n";

    const auto v_top = check_xta(top);
    const auto v_lit = check_xta(lit);
    show("control: random outermost", top, v_top);
    show("control: literal", lit, v_lit);
    if (!v_top.has(CTC) || !v_lit.errors.empty()) {
        std::cout << "controls do not behave as expected: inconclusive\n";
        return 2;
    }

    int bad = 0;
    const std::pair<const char*, const std::string*> cases[] = {{"initialiser -random(3)", &init_nested},
                                                                {"array size", &array_size},
                                                                {"range bound", &range_bound},
                                                                {"initialiser via function", &via_fun},
                                                                {"by-value argument", &argument}};
    for (const auto& [title, model] : cases) {
        const auto v = check_xta(*model);
        show(title, *model, v);
        if (!v.has(CTC) && !v.has("$Incompatible_argument"))
            ++bad;
    }
    if (bad > 0) {
        std::cout << "VIOLATION: " << bad << " of 5 random-dependent expressions accepted as compile-time computable\n";
        return 1;
    }
    std::cout << "ok\n";
    return 0;
}
