// C13 finding 4: the arguments of an LSC instance line are bound to the parameters of the template, but are
// never checked: a mutable variable is accepted for a by-value (and for a const reference) parameter.
//
// g++ -std=c++17 -I/tmp/wt-E13/include finding4.cpp /tmp/wt-E13/_build/src/libUTAP.a -lxml2 -ldl -o finding4
#include "common.h"

static std::string model(const std::string& parameter, const std::string& line, const std::string& system)
{
    return "<?xml version=\"1.0\" encoding=\"utf-8\"?>\n"
           "<nta>\n"
           "  <declaration>chan m1; int x = 1;</declaration>\n"
           "  <template><name>A</name><parameter>" +
           parameter +
           "</parameter>\n"
           "    <location id=\"id0\"/><init ref=\"id0\"/></template>\n"
           "  <template><name>B</name><location id=\"id1\"/><init ref=\"id1\"/></template>\n"
           "  <lsc><name>L</name><type>Universal</type><mode>Invariant</mode><declaration></declaration>\n"
           "    <yloccoord number=\"0\" y=\"0\"/><yloccoord number=\"1\" y=\"56\"/>\n"
           "    <instance id=\"id10\" x=\"144\" y=\"0\"><name>B</name></instance>\n"
           "    <instance id=\"id11\" x=\"0\" y=\"0\"><name>" +
           line +
           "</name></instance>\n"
           "    <message x=\"0\" y=\"56\"><source ref=\"id10\"/><target ref=\"id11\"/><lsclocation>1</lsclocation>\n"
           "      <label kind=\"message\">m1</label></message>\n"
           "  </lsc>\n"
           "  <system>" +
           system + " Scenario = L(); system A1, B;</system>\n</nta>\n";
}

int main()
{
    // control 1: literal argument on the instance line, literal argument in the system section: accepted
    const auto ok = model("const int n", "A(1)", "A1 = A(1);");
    // control 2: the mutable x as argument of an instantiation in the system section is rejected
    const auto sys = model("const int n", "A(1)", "A1 = A(x);");
    // the violation: the same argument on the instance line of the chart
    const auto line_value = model("const int n", "A(x)", "A1 = A(1);");
    const auto line_cref = model("const int &amp;n", "A(x)", "A1 = A(1);");

    const auto v_ok = check_xml(ok);
    const auto v_sys = check_xml(sys);
    const auto v_value = check_xml(line_value);
    const auto v_cref = check_xml(line_cref);
    show("control: A(1) / A1 = A(1)", "", v_ok);
    show("control: A1 = A(x) in the system section", "", v_sys);
    show("instance line A(x), parameter 'const int n'", "", v_value);
    show("instance line A(x), parameter 'const int &n'", "", v_cref);

    if (!v_ok.errors.empty() || !v_sys.has("$Incompatible_argument")) {
        std::cout << "controls do not behave as expected: inconclusive\n";
        return 2;
    }
    if (v_value.errors.empty() || v_cref.errors.empty()) {
        std::cout << "VIOLATION: the mutable variable x is accepted as argument of a by-value / const reference "
                     "template parameter on an LSC instance line\n";
        return 1;
    }
    std::cout << "ok\n";
    return 0;
}
