// C14 finding 1: the type of an inline-if over an int and a bool branch is the type of whichever branch is
// written first, so swapping the branches (condition negated) changes the kind of the result (int <-> bool)
// and, one level up, whether the enclosing expression is accepted.
//
// build: g++ -std=c++17 -I/tmp/wt-E14/include finding1.cpp /tmp/wt-E14/_build/src/libUTAP.a -lxml2 -ldl -o finding1
#include "utap/utap.h"
#include "utap/document.h"

#include <iostream>
#include <string>

using namespace UTAP;

struct verdict
{
    size_t errors;
    std::string first;
    int kind;  // kind of the type of the guard of the only edge (-1: none)
};

static verdict check(const std::string& guard, const std::string& invariant)
{
    const std::string model = "bool b; clock x;\n"
                              "process P() { state L { " + invariant + " }; init L;\n"
                              "  trans L -> L { guard " + guard + "; }; }\n"
                              "system P;\n";
    Document doc;
    parse_XTA(model.c_str(), &doc, true);
    verdict v{doc.get_errors().size(), doc.get_errors().empty() ? "" : doc.get_errors()[0].msg, -1};
    if (!doc.get_templates().empty() && !doc.get_templates().front().edges.empty())
        v.kind = doc.get_templates().front().edges.front().guard.get_type().get_kind();
    return v;
}

int main()
{
    int rc = 0;
    // (a) kind of the result
    auto k1 = check("b ? 1 : true", "true");
    auto k2 = check("!b ? true : 1", "true");
    std::cout << "b ? 1 : true   -> errors=" << k1.errors << " kind=" << k1.kind << "\n";
    std::cout << "!b ? true : 1  -> errors=" << k2.errors << " kind=" << k2.kind << "\n";
    if (k1.errors != k2.errors || k1.kind != k2.kind) {
        std::cout << "VIOLATION: the kind of the inline-if depends on the order of its branches\n";
        rc = 1;
    }
    // (b) acceptance one level up: "clock <= int" is an invariant, "clock <= bool" is only a guard
    auto a1 = check("true", "x <= (b ? 5 : true)");
    auto a2 = check("true", "x <= (!b ? true : 5)");
    std::cout << "x <= (b ? 5 : true)   -> errors=" << a1.errors << " " << a1.first << "\n";
    std::cout << "x <= (!b ? true : 5)  -> errors=" << a2.errors << " " << a2.first << "\n";
    if (a1.errors != a2.errors) {
        std::cout << "VIOLATION: acceptance depends on the order of the inline-if branches\n";
        rc = 1;
    }
    return rc;
}
