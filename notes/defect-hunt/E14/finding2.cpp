// C14 finding 2: an inline-if whose condition is a clock guard is accepted, but the same inline-if with the
// branches swapped and the condition negated is rejected: NOT of a guard is typed CONSTRAINT and the
// inline-if accepts only integral or guard conditions.
//
// build: g++ -std=c++17 -I/tmp/wt-E14/include finding2.cpp /tmp/wt-E14/_build/src/libUTAP.a -lxml2 -ldl -o finding2
#include "utap/utap.h"
#include "utap/document.h"

#include <iostream>
#include <string>

using namespace UTAP;

static size_t errors(const std::string& guard)
{
    const std::string model = "clock x;\n"
                              "process P() { state L; init L; trans L -> L { guard " + guard + "; }; }\n"
                              "system P;\n";
    Document doc;
    parse_XTA(model.c_str(), &doc, true);
    std::cout << guard << "  -> " << doc.get_errors().size() << " error(s)";
    for (const auto& e : doc.get_errors())
        std::cout << " [" << e.msg << "]";
    std::cout << "\n";
    return doc.get_errors().size();
}

int main()
{
    const auto e1 = errors("(x < 5) ? 1 : 2");
    const auto e2 = errors("!(x < 5) ? 2 : 1");
    if (e1 != e2) {
        std::cout << "VIOLATION: swapping the branches with the condition negated changes acceptance\n";
        return 1;
    }
    return 0;
}
