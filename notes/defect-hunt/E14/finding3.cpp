// C14 finding 3: the invariant that the type checker stores for a location is a conjunction whose type is the
// type of its *last* conjunct: "b && x' == 0" is stored with kind INVARIANT_WR, "x' == 0 && b" with kind
// INVARIANT (although it contains a rate).
//
// build: g++ -std=c++17 -I/tmp/wt-E14/include finding3.cpp /tmp/wt-E14/_build/src/libUTAP.a -lxml2 -ldl -o finding3
#include "utap/utap.h"
#include "utap/document.h"

#include <iostream>
#include <string>

using namespace UTAP;

static int kind_of_invariant(const std::string& invariant)
{
    const std::string model = "bool b; clock x;\n"
                              "process P() { state L { " + invariant + " }; init L; }\n"
                              "system P;\n";
    Document doc;
    parse_XTA(model.c_str(), &doc, true);
    const auto& inv = doc.get_templates().front().locations.front().invariant;
    std::cout << invariant << "  -> errors=" << doc.get_errors().size() << ", stored invariant \"" << inv.str()
              << "\" of type " << inv.get_type().str() << " (kind " << inv.get_type().get_kind() << ")\n";
    return doc.get_errors().empty() ? inv.get_type().get_kind() : -1;
}

int main()
{
    const int k1 = kind_of_invariant("b && x' == 0");
    const int k2 = kind_of_invariant("x' == 0 && b");
    if (k1 != k2) {
        std::cout << "VIOLATION: the kind of the conjunction depends on the order of its operands\n";
        return 1;
    }
    return 0;
}
