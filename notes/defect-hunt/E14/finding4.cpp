// C14 finding 4: "b || <rate invariant>" is typed INVARIANT_WR and accepted as a location invariant, but the
// rate decomposition that follows has no case for OR and looks at the right operand only. Swapping the
// operands of || therefore changes the diagnostics (the $Strict_invariant warning) and what the document
// records (stop watch, strict invariant).
//
// build: g++ -std=c++17 -I/tmp/wt-E14/include finding4.cpp /tmp/wt-E14/_build/src/libUTAP.a -lxml2 -ldl -o finding4
#include "utap/utap.h"
#include "utap/document.h"

#include <iostream>
#include <set>
#include <string>

using namespace UTAP;

struct verdict
{
    std::multiset<std::string> diagnostics;
    bool stop_watch, strict;
    bool operator==(const verdict& o) const
    {
        return diagnostics == o.diagnostics && stop_watch == o.stop_watch && strict == o.strict;
    }
};

static verdict check(const std::string& invariant)
{
    const std::string model = "bool b; clock x;\n"
                              "process P() { state L { " + invariant + " }; init L; }\n"
                              "system P;\n";
    Document doc;
    parse_XTA(model.c_str(), &doc, true);
    verdict v{{}, doc.has_stop_watch(), doc.has_strict_invariants()};
    for (const auto& e : doc.get_errors())
        v.diagnostics.insert("error: " + e.msg);
    for (const auto& w : doc.get_warnings())
        v.diagnostics.insert("warning: " + w.msg);
    std::cout << invariant << "  -> stop_watch=" << v.stop_watch << " strict=" << v.strict;
    for (const auto& d : v.diagnostics)
        std::cout << " [" << d << "]";
    std::cout << "\n";
    return v;
}

int main()
{
    const auto v1 = check("b || (x' == 0 && x < 5)");
    const auto v2 = check("(x' == 0 && x < 5) || b");
    if (!(v1 == v2)) {
        std::cout << "VIOLATION: swapping the operands of || changes the diagnostics / recorded features\n";
        return 1;
    }
    return 0;
}
