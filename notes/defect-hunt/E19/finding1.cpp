// C19 finding 1: expression_t::equal() ignores the type of a CONSTANT node, so the parsed trees of
// "x == 1" and "x == true" (int 1 versus bool true) are "structurally equal" although they differ in a
// constant and print different text.
//
// build: g++ -std=c++17 -I../include finding1.cpp ../_build/src/libUTAP.a -lxml2 -ldl -o finding1
#include "utap/document.h"
#include "utap/utap.h"

#include <iostream>

using namespace UTAP;

static const char* model = R"(
const int x = 1;
const bool p = x == 1;
const bool q = x == true;
process T() { state A; init A; }
P = T();
system P;
)";

int main()
{
    Document doc;
    parse_XTA(model, &doc, true);
    if (!doc.get_errors().empty()) {
        std::cerr << "unexpected error: " << doc.get_errors().front().msg << std::endl;
        return 2;
    }
    expression_t p, q;
    for (auto& v : doc.get_globals().variables) {
        if (v.uid.get_name() == "p")
            p = v.init;
        if (v.uid.get_name() == "q")
            q = v.init;
    }
    if (p.empty() || q.empty())
        return 2;
    int rc = 0;
    // the whole trees and the single perturbed node
    const expression_t pairs[2][2] = {{p, q}, {p[1], q[1]}};
    for (auto& pr : pairs) {
        const bool eq = pr[0].equal(pr[1]);
        const bool eq2 = pr[1].equal(pr[0]);
        std::cout << "'" << pr[0].str() << "' equal '" << pr[1].str() << "': " << eq << "/" << eq2 << std::endl;
        if (eq && pr[0].str() != pr[1].str()) {
            std::cout << "  VIOLATION: structurally equal trees print different text" << std::endl;
            rc = 1;
        }
    }
    return rc;
}
