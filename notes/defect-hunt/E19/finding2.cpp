// C19 finding 2: clone_deeper() (and clone(), equal()) dereference an empty sub-expression, while get_size(), subst()
// and print() treat an empty expression as legal. The type checker leaves such a tree in the document for an
// incomplete record initialiser ("rec_t r = {1};" -> LIST(1, <empty>)), so deep-cloning or comparing that parsed
// expression crashes.
//
// build: g++ -std=c++17 -I../include finding2.cpp ../_build/src/libUTAP.a -lxml2 -ldl -o finding2
#include "utap/document.h"
#include "utap/utap.h"

#include <csignal>
#include <iostream>
#include <unistd.h>

using namespace UTAP;

static const char* model = R"(
typedef struct { int a; int b; } rec_t;
rec_t r = {1};
rec_t s = {1, 2};
process T() { state A; init A; }
P = T();
system P;
)";

static const char* step = "start";

static void on_segv(int)
{
    const char msg[] = "VIOLATION: segmentation fault during ";
    (void)!write(1, msg, sizeof(msg) - 1);
    (void)!write(1, step, __builtin_strlen(step));
    (void)!write(1, "\n", 1);
    _exit(1);
}

int main()
{
    std::signal(SIGSEGV, on_segv);
    Document doc;
    parse_XTA(model, &doc, true);
    // the one expected diagnostic: $Incomplete_initialiser for r
    for (auto& e : doc.get_errors())
        std::cout << "diagnostic: " << e.msg << std::endl;
    expression_t r, s;
    for (auto& v : doc.get_globals().variables) {
        if (v.uid.get_name() == "r")
            r = v.init;
        if (v.uid.get_name() == "s")
            s = v.init;
    }
    if (r.empty() || s.empty())
        return 2;
    // these members accept the tree
    std::cout << "r.init = " << r.str() << ", size " << r.get_size() << ", r[1].empty() = " << r[1].empty()
              << std::endl;
    step = "subst";
    auto sub = r.subst(doc.get_globals().variables.front().uid, expression_t::create_constant(0));
    std::cout << "subst ok: " << sub.str() << std::endl;

    step = "r.equal(r)";
    if (!r.equal(r))
        return 1;
    step = "r.clone_deeper()";
    auto c = r.clone_deeper();  // null dereference on the empty child
    step = "c.equal(r)";
    if (!c.equal(r) || !r.equal(c)) {
        std::cout << "VIOLATION: clone is not equal" << std::endl;
        return 1;
    }
    step = "r.equal(s) / s.equal(r)";
    if (r.equal(s) || s.equal(r)) {  // null dereference comparing <empty> with 2
        std::cout << "VIOLATION: {1, <empty>} equal {1, 2}" << std::endl;
        return 1;
    }
    std::cout << "ok" << std::endl;
    return 0;
}
