// C19 finding 3: clone_deeper(frame_t frame, frame_t select) resolves EVERY identifier by name in the given
// frame(s). A variable bound by a quantifier inside the expression (forall / exists / sum) lives in a frame of its
// own, which the builder discards, so the lookup fails; in a release build (assert compiled out) the clone silently
// gets identifiers with the null symbol. Cloning an edge guard into the very template frame it was parsed in
// therefore gives a tree that is not structurally equal to the original (and that crashes when printed).
//
// build: g++ -std=c++17 -I../include finding3.cpp ../_build/src/libUTAP.a -lxml2 -ldl -o finding3
#include "utap/document.h"
#include "utap/utap.h"

#include <iostream>

using namespace UTAP;
using namespace UTAP::Constants;

static const char* model = R"(
int arr[3];
process T() {
    state A, B;
    init A;
    trans A -> B { select k : int[0,2]; guard arr[k] > 0; },
          B -> A { select k : int[0,2]; guard forall (i : int[0,2]) arr[i] >= k; };
}
P = T();
system P;
)";

static size_t null_identifiers(const expression_t& e)
{
    if (e.empty())
        return 0;
    size_t n = (e.get_kind() == IDENTIFIER && e.get_symbol() == symbol_t()) ? 1 : 0;
    for (size_t i = 0; i < e.get_size(); ++i)
        n += null_identifiers(e.get(i));
    return n;
}

int main()
{
    Document doc;
    parse_XTA(model, &doc, true);
    if (!doc.get_errors().empty()) {
        std::cerr << "unexpected error: " << doc.get_errors().front().msg << std::endl;
        return 2;
    }
    int rc = 0;
    for (auto& t : doc.get_templates()) {
        for (auto& edge : t.edges) {
            const expression_t& e = edge.guard;
            // same frames as the ones the guard was parsed in: every name resolves to the same symbol,
            // so the clone has to be structurally equal to the original
            const expression_t c = e.clone_deeper(t.frame, edge.select);
            const bool eq = c.equal(e) && e.equal(c);
            const size_t nulls = null_identifiers(c);
            std::cout << "guard '" << e.str() << "': clone equal = " << eq << ", identifiers without symbol = " << nulls
                      << std::endl;
            if (!eq || nulls != 0) {
                std::cout << "  VIOLATION: deep clone is not structurally equal to the original" << std::endl;
                rc = 1;
            }
        }
    }
    return rc;
}
