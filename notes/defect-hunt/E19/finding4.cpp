// C19 finding 4: subst() (and type_t::subst(), clone_deeper(from, to)) only look at the nodes of the tree. The range
// of a quantifier "forall (i : int[0,N]) .." is not a child of the FORALL node: it is kept in the type of the bound
// symbol i. Identifier occurrences of a symbol inside such a range are therefore never replaced.
//   (a) "forall (i : int[0,N]) arr[i] > N" with N := 1 gives "forall (i : int[0,N]) arr[i] > 1"
//   (b) process-member typing: T(const int a) declares "int[0, sum (i : int[0,a]) i] z;", R = T(2);
//       the type of R.z is "int[0,sum(i:int[0,a]) i]": it still mentions the template parameter a.
//
// build: g++ -std=c++17 -I../include finding4.cpp ../_build/src/libUTAP.a -lxml2 -ldl -o finding4
#include "utap/StatementBuilder.hpp"
#include "utap/document.h"
#include "utap/utap.h"

#include <iostream>

using namespace UTAP;
using namespace UTAP::Constants;

static const char* model = R"(
const int N = 2;
const int arr[3] = {1, 2, 3};
const bool q = forall (i : int[0,N]) arr[i] > N;
process T(const int a) {
    int[0, sum (i : int[0,a]) i] z;
    state A;
    init A;
}
R = T(2);
system R;
)";

static bool mentions(const expression_t& e, const symbol_t& s);

static bool mentions(const type_t& t, const symbol_t& s)
{
    if (t == type_t{})  // no type at all
        return false;
    if (mentions(t.get_expression(), s))
        return true;
    if (t.get_kind() == PROCESS || t.get_kind() == INSTANCE || t.get_kind() == PROCESS_SET)
        return false;
    for (size_t i = 0; i < t.size(); ++i)
        if (mentions(t.get(i), s))
            return true;
    return false;
}

/** True if the text of e refers to s: as an identifier node or in the range of a quantifier of e. */
static bool mentions(const expression_t& e, const symbol_t& s)
{
    if (e.empty())
        return false;
    if (e.get_kind() == IDENTIFIER && e.get_symbol() == s)
        return true;
    if (e.get_kind() == FORALL || e.get_kind() == EXISTS || e.get_kind() == SUM)
        if (mentions(e.get(0).get_symbol().get_type(), s))
            return true;
    for (size_t i = 0; i < e.get_size(); ++i)
        if (mentions(e.get(i), s))
            return true;
    return false;
}

struct QueryBuilder : StatementBuilder
{
    expression_t query;
    explicit QueryBuilder(Document& doc): StatementBuilder{doc} {}
    void property() override
    {
        query = fragments[0];
        fragments.pop();
    }
    void strategy_declaration(const char*) override {}
    variable_t* addVariable(type_t, const std::string&, expression_t, position_t) override { return nullptr; }
    bool addFunction(type_t, const std::string&, position_t) override { return false; }
};

int main()
{
    Document doc;
    parse_XTA(model, &doc, true);
    if (!doc.get_errors().empty()) {
        std::cerr << "unexpected error: " << doc.get_errors().front().msg << std::endl;
        return 2;
    }
    int rc = 0;

    // (a) subst on a parsed expression
    symbol_t N;
    expression_t q;
    for (auto& v : doc.get_globals().variables) {
        if (v.uid.get_name() == "N")
            N = v.uid;
        if (v.uid.get_name() == "q")
            q = v.init;
    }
    if (q.empty() || N == symbol_t())
        return 2;
    const expression_t r = q.subst(N, expression_t::create_constant(1));
    std::cout << "(" << q.str() << ")[N := 1]  =  " << r.str() << std::endl;
    if (mentions(r, N)) {
        std::cout << "  VIOLATION: N still occurs after substituting it" << std::endl;
        rc = 1;
    }

    // (b) the type of a process member, where the builder substitutes the arguments of the process
    QueryBuilder builder{doc};
    if (parseProperty("E<> R.z == 1", &builder) != 0 || builder.query.empty())
        return 2;
    const expression_t dot = builder.query[0][0];  // EF(EQ(DOT(R), 1))
    if (dot.get_kind() != DOT)
        return 2;
    symbol_t a;
    for (auto& t : doc.get_templates())
        a = t.parameters[0];
    std::cout << "type of " << dot.str() << " with R = T(2): " << dot.get_type().declaration() << std::endl;
    if (mentions(dot.get_type(), a)) {
        std::cout << "  VIOLATION: the template parameter 'a' still occurs in the type of R.z" << std::endl;
        rc = 1;
    }
    return rc;
}
