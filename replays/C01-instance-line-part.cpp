#include "utap/utap.h"
#include "utap/DocumentBuilder.hpp"
#include <iostream>
int main(int argc, char** argv) {
    int which = argc > 1 ? atoi(argv[1]) : 0;
    UTAP::Document doc; UTAP::DocumentBuilder b(doc);
    UTAP::xta_part_t parts[] = {UTAP::S_INSTANCE_LINE, UTAP::S_MESSAGE, UTAP::S_UPDATE, UTAP::S_CONDITION};
    const char* texts[] = {"A", "a", "x = 1", "x == 1"};
    try { int rc = parse_XTA(texts[which], &b, true, parts[which], ""); std::cout << "rc=" << rc << " errors=" << doc.get_errors().size() << "\n"; }
    catch (const std::exception& e) { std::cout << "EXC " << e.what() << "\n"; }
}
