// C05 finding 3: a location (or template) whose name is a query-language keyword
// (X, Pr, sat, inf, sup, bounds, deadlock, simulate, ...) is rejected and renamed by
// the XML front end but silently accepted by the XTA front end.
#include "utap/utap.h"
#include <iostream>

static const char* xml = R"(<?xml version="1.0" encoding="utf-8"?>
<nta>
<declaration></declaration>
<template><name>P</name><location id="id0"><name>X</name></location><init ref="id0"/></template>
<system>system P;</system>
</nta>)";

static const char* xta = R"(process P() { state X; init X; }
system P;
)";

static std::string show(UTAP::Document& d)
{
    std::string s = "location=" + d.get_templates().front().locations.front().uid.get_name() + " errors=";
    for (auto& e : d.get_errors())
        s += e.msg + ";";
    return s;
}

int main()
{
    UTAP::Document dx, dt;
    parse_XML_buffer(xml, &dx, true);
    parse_XTA(xta, &dt, true);
    auto a = show(dx), b = show(dt);
    std::cout << "XML: " << a << "\nXTA: " << b << "\n";
    return a == b ? 0 : 1;
}
