#include "utap/utap.h"
#include "utap/property.h"
#include <iostream>
#include <string>
int main() {
    int bad = 0;
    for (std::string nm : {"A", "E", "U", "W", "R", "Fresh"}) {
        std::string xta = "typedef int[0,3] " + nm + "; " + nm + " x;\nprocess P() { state S; init S; }\nsystem P;\n";
        UTAP::Document d; parse_XTA(xta.c_str(), &d, true);
        std::string xta2 = "int " + nm + "[2]; int y;\nprocess P() { state S; init S; }\nsystem P;\n";
        UTAP::Document d2; parse_XTA(xta2.c_str(), &d2, true);
        UTAP::TigaPropertyBuilder pb(d2);
        int before = d2.get_errors().size();
        std::string q = nm + "[0] == 1 --> y == 2";
        try { parseProperty(q.c_str(), &pb); } catch (std::exception& e) { std::cout << "  exc " << e.what() << "\n"; }
        std::cout << nm << ": as type errors=" << d.get_errors().size() << (d.get_errors().empty() ? "" : " (" + d.get_errors()[0].msg + ")")
                  << "   query `" << q << "` errors=" << d2.get_errors().size() - before << "\n";
        bad += !d.get_errors().empty() || d2.get_errors().size() != (size_t)before;
    }
    return bad ? 1 : 0;
}
