#include "utap/utap.h"
#include <iostream>
#include <string>
int main() {
    int bad = 0;
    for (std::string nm : {"sup", "inf", "bounds", "simulation", "fresh"}) {
        std::string xml = "<nta><declaration>int v;</declaration><template><name>P</name><location id=\"id0\"><name>" + nm + "</name></location><init ref=\"id0\"/></template><system>system P;</system></nta>";
        UTAP::Document d1; parse_XML_buffer(xml.c_str(), &d1, true);
        std::string xta = "int v; process P() { state " + nm + "; init " + nm + "; } system P;";
        UTAP::Document d2; parse_XTA(xta.c_str(), &d2, true);
        std::cout << nm << ": XML errors=" << d1.get_errors().size() << (d1.get_errors().empty() ? "" : " (" + d1.get_errors()[0].msg + ")") << "  XTA errors=" << d2.get_errors().size() << "\n";
        bad += d1.get_errors().size() != d2.get_errors().size();
    }
    return bad ? 1 : 0;
}
