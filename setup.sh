#!/bin/sh
# Build the framework from files on disk only (offline).  Run once in /verif after a fresh restore.
set -e
cd "$(dirname "$0")"
mkdir -p bin
if [ ! -x bin/utap-facts ] || [ tools/utap-facts.cc -nt bin/utap-facts ]; then
  clang++ $(llvm-config-14 --cxxflags) -fno-rtti -O1 tools/utap-facts.cc -o bin/utap-facts \
      /usr/lib/llvm-14/lib/libclang-cpp.so.14 /usr/lib/llvm-14/lib/libLLVM-14.so
fi
python3 -m verif.front >/dev/null
echo "setup ok"
