"""fx.py: interactive helper - `from tools.fx import F, G` loads facts for UTAP_REPO (or /repo)."""
import os, sys
sys.path.insert(0, os.path.dirname(os.path.dirname(os.path.abspath(__file__))))
from verif import front
from verif.facts import Facts, walk, calls, short
from verif.grammar import Grammar
wd = front.prepare()
F = Facts(wd)
G = Grammar(wd, F)
