#!/bin/sh
# harvest_seed.sh <worktree> <seed-id> <property> "<needs_to_manifest>"
# Confirms a sub-agent's change myself (suite passes WITH it, demo fails WITH it, demo passes WITHOUT it),
# stores it under /verif/seeded/<seed-id>/ and removes the worktree.
WT=$1; ID=$2; PROP=$3; NEEDS=$4
cd "$WT" || exit 2
[ -f seed/patch.diff ] || { echo "no seed/patch.diff"; exit 2; }
git apply -R --check seed/patch.diff 2>/dev/null || { git checkout -- . ; git apply seed/patch.diff || { echo "patch does not apply"; exit 2; }; }
cmake --build _build -j16 >/dev/null 2>&1 || { echo "BUILD FAILED with change"; exit 1; }
T=$(ctest --test-dir _build -j8 2>&1 | grep "tests passed")
echo "suite WITH change: $T"
case "$T" in "100% tests passed"*) ;; *) echo "suite fails with change"; exit 1;; esac
B="g++ -std=c++17 -O1 -I$WT/include -I$WT/src -I$WT/test -I/usr/include/libxml2 seed/demo.cpp $WT/_build/src/libUTAP.a -lxml2 -ldl -o seed/demo"
$B 2>/tmp/harvest_build.log || { echo "demo build failed"; head -20 /tmp/harvest_build.log; exit 1; }
( cd seed && timeout 120 ./demo >/tmp/harvest_with.log 2>&1 ); W=$?
echo "demo WITH change: exit=$W"
git apply -R seed/patch.diff && cmake --build _build -j16 >/dev/null 2>&1
$B 2>/dev/null
( cd seed && timeout 120 ./demo >/tmp/harvest_without.log 2>&1 ); WO=$?
echo "demo WITHOUT change: exit=$WO"
if [ "$W" = 0 ] || [ "$WO" != 0 ]; then echo "NOT CONFIRMED"; exit 1; fi
D=/verif/seeded/$ID; mkdir -p $D
cp seed/patch.diff seed/demo.cpp $D/; cp seed/README.md $D/AGENT_README.md
python3 - "$D" "$ID" "$PROP" "$NEEDS" "$T" "$W" <<'PY'
import json,sys
d,i,p,n,t,w=sys.argv[1:7]
json.dump({"id":i,"property":p,"source":"independent sub-agent given only the property record and a scratch worktree",
 "needs_to_manifest":n,
 "confirmed":"tools/harvest_seed.sh: ctest '%s' WITH the change; demo exits %s WITH the change and 0 WITHOUT (git apply -R, rebuild)"%(t,w),
 "demo_build":"g++ -std=c++17 -O1 -I<wt>/include -I<wt>/src -I<wt>/test demo.cpp <wt>/_build/src/libUTAP.a -lxml2 -ldl -o demo && ./demo",
 "apply":"git -C /repo apply /verif/seeded/%s/patch.diff ; ./check %s ; git -C /repo checkout -- .   (or: python3 tools/seedmatrix.py %s)"%(i,p,i),
 "detected_by":"(filled in after running tools/seedmatrix.py)"},open(d+"/meta.json","w"),indent=1)
PY
cd /; git -C /repo worktree remove --force "$WT"; echo "stored $D; worktree removed"
