#!/usr/bin/env python3
"""Poor man's undefined-name check for the rule engines (no pyflakes in the sandbox): every Name loaded in a module
must be bound somewhere in that module (import, def, class, assignment, parameter, comprehension, except/with/for
target) or be a builtin.  Flow-insensitive; catches typos and missing imports in rarely executed error paths."""
import ast, builtins, sys, os
bad = 0
for root in ("verif", "tools"):
    for dp, dn, fn in os.walk(os.path.join(os.path.dirname(os.path.dirname(os.path.abspath(__file__))), root)):
        for f in fn:
            if not f.endswith(".py"):
                continue
            p = os.path.join(dp, f)
            tree = ast.parse(open(p).read(), p)
            bound = set(dir(builtins)) | {"__file__", "__name__", "__doc__"}
            for n in ast.walk(tree):
                if isinstance(n, (ast.Import, ast.ImportFrom)):
                    for a in n.names:
                        bound.add((a.asname or a.name).split(".")[0])
                elif isinstance(n, (ast.FunctionDef, ast.ClassDef, ast.AsyncFunctionDef)):
                    bound.add(n.name)
                    if not isinstance(n, ast.ClassDef):
                        for a in n.args.args + n.args.kwonlyargs + n.args.posonlyargs:
                            bound.add(a.arg)
                        if n.args.vararg: bound.add(n.args.vararg.arg)
                        if n.args.kwarg: bound.add(n.args.kwarg.arg)
                elif isinstance(n, ast.Lambda):
                    for a in n.args.args:
                        bound.add(a.arg)
                elif isinstance(n, ast.Name) and isinstance(n.ctx, (ast.Store, ast.Del)):
                    bound.add(n.id)
                elif isinstance(n, ast.ExceptHandler) and n.name:
                    bound.add(n.name)
                elif isinstance(n, ast.Global):
                    bound.update(n.names)
            for n in ast.walk(tree):
                if isinstance(n, ast.Name) and isinstance(n.ctx, ast.Load) and n.id not in bound:
                    print("%s:%d: undefined name %s" % (p, n.lineno, n.id)); bad += 1
sys.exit(1 if bad else 0)
