#!/usr/bin/env python3
"""Prints the generated parts of DESIGN.md (sections 7-9) from evidence/, known_findings.json, seeded/ and the fix
commits of /repo.  Usage: python3 tools/mkdesign_tables.py > /tmp/tables.md"""
import json, os, glob, subprocess
V = os.path.dirname(os.path.dirname(os.path.abspath(__file__)))
out = []
P = out.append
man = json.load(open(os.path.join(V, "MANIFEST.json")))
P("### 7.1 Rules and obligation counts on the unchanged tree (from evidence/, quick tier)\n")
P("| property | level | rule | obligations | discharged |")
P("|---|---|---|---|---|")
for c in man["checks"]:
    e = json.load(open(os.path.join(V, c["evidence_file"])))
    first = True
    for rid, r in e["coverage"]["rules"].items():
        P("| %s | %s | %s | %d | %d |" % (c["property_id"] if first else "", e["level"] if first else "", rid, r["obligations"], r["discharged"]))
        first = False
P("")
k = json.load(open(os.path.join(V, "known_findings.json")))
P("### 7.2 Known findings (genuine defects recorded, not repaired) - each replayed against the real library\n")
for e in k["findings"]:
    if e["status"] == "known":
        P("* **%s** `%s` - %s  \n  *replay:* %s" % (e["property"], e["key"], e["what"], e.get("input", "")))
P("")
P("### 7.3 Defects repaired in /repo (`fix:` commits; a fixed entry suppresses nothing)\n")
log = subprocess.run(["git", "-C", "/repo", "log", "--reverse", "--format=%h %s"], capture_output=True, text=True).stdout.splitlines()
fx = {}
for e in k["findings"]:
    if e["status"] == "fixed":
        fx.setdefault(e.get("commit"), []).append(e)
for line in log:
    h, msg = line.split(" ", 1)
    if msg.startswith("fix:"):
        es = fx.get(h, [])
        P("* `%s` %s  \n  found by: %s" % (h, msg, "; ".join("%s `%s`" % (e["property"], e["key"]) for e in es) or "replay of a candidate"))
P("")
P("### 8.1 Seeded changes and which rule catches which\n")
P("| seed | property | origin | needs to manifest | outcome of the property's check |")
P("|---|---|---|---|---|")
mx = {}
mp = os.path.join(V, "seeded", "MATRIX.json")
if os.path.exists(mp):
    mx = {r["seed"]: r for r in json.load(open(mp))["seeds"]}
for d in sorted(os.listdir(os.path.join(V, "seeded"))):
    f = os.path.join(V, "seeded", d, "meta.json")
    if not os.path.exists(f):
        continue
    m = json.load(open(f))
    r = mx.get(d, {})
    own = (r.get("runs") or {}).get(m["property"]) or {}
    if m.get("expect") == "silent":
        res = "silent (expected: behaviour preserving)" if own.get("exit") == 0 else "exit %s" % own.get("exit")
    elif m.get("expect") == "undetected":
        res = "**not detected** (documented miss)"
    elif own.get("exit") == 1:
        res = "detected: " + ", ".join("`%s`" % v for v in own.get("violations", [])[:2])
    else:
        res = "exit %s" % own.get("exit")
    origin = "sub-agent" if "sub-agent" in m.get("source", "") and not d.startswith(("NEUTRAL", "MUT", "FIX")) else \
        ("reverse of fix" if d.startswith("FIX") else "own mutant" if d.startswith("MUT") else "neutral variant")
    P("| %s | %s | %s | %s | %s |" % (d, m["property"], origin, (m.get("needs_to_manifest") or "")[:160].replace("|", "/"), res.replace("|", "/")))
text = "\n".join(out)
import sys
if "--update" in sys.argv:
    i8 = text.index("### 8.1")
    sec7, sec8 = text[:i8], text[i8:] + "\n"
    dp = os.path.join(V, "DESIGN.md")
    d = open(dp).read()
    for tag, sec in (("GEN7", sec7), ("GEN8", sec8)):
        a = d.index("<!-- %s BEGIN" % tag)
        a = d.index("\n", a) + 1
        b = d.index("<!-- %s END -->" % tag)
        d = d[:a] + sec + d[b:]
    open(dp, "w").write(d)
    print("DESIGN.md sections 7 and 8.1 regenerated")
else:
    print(text)
