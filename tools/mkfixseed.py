#!/usr/bin/env python3
"""mkfixseed.py <prop> <sha> <demo.cpp> <key> "<needs>" "<what failed>" ["<input>"]

Book-keeping for a `fix:` commit in /repo: creates seeded/FIX-<prop>-<sha>/ (patch.diff = reverse of the commit,
demo.cpp = the replay program, meta.json) and appends the `fixed` entry to known_findings.json.  The entry suppresses
nothing; the seed keeps the rule that decides the repaired clause alive (tools/seedmatrix.py must report DETECTED).
"""
import json
import os
import shutil
import subprocess
import sys

prop, sha, demo, key, needs, what = sys.argv[1:7]
inp = sys.argv[7] if len(sys.argv) > 7 else ""
root = os.path.dirname(os.path.dirname(os.path.abspath(__file__)))
sid = "FIX-%s-%s" % (prop, sha)
d = os.path.join(root, "seeded", sid)
os.makedirs(d, exist_ok=True)
diff = subprocess.run(["git", "-C", "/repo", "diff", sha, sha + "^", "--", "src", "include"], capture_output=True,
                      text=True, check=True).stdout
assert diff.strip(), "empty diff"
open(os.path.join(d, "patch.diff"), "w").write(diff)
if demo and demo != "-":
    shutil.copy(demo, os.path.join(d, "demo.cpp"))
subject = subprocess.run(["git", "-C", "/repo", "log", "-1", "--format=%s", sha], capture_output=True, text=True).stdout.strip()
json.dump({"id": sid, "property": prop, "source": "reverse of /repo fix commit %s (%s)" % (sha, subject),
           "needs_to_manifest": needs, "confirmed": "replayed with demo.cpp before and after the repair: " + what,
           "expected_keys": [key], "detected_by": "(tools/seedmatrix.py)"},
          open(os.path.join(d, "meta.json"), "w"), indent=1)
kf = os.path.join(root, "known_findings.json")
K = json.load(open(kf))
K["findings"] = [f for f in K["findings"] if not (f.get("commit") == sha and f.get("key") == key)]
e = {"property": prop, "status": "fixed", "commit": sha, "key": key,
     "what": "fixed: property=%s %s %s" % (prop, sha, what)}
if inp:
    e["input"] = inp
K["findings"].append(e)
json.dump(K, open(kf, "w"), indent=1, ensure_ascii=False)
print("made", sid)
