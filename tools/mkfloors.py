#!/usr/bin/env python3
"""Regenerate verif/floors.json from the evidence of the unchanged tree: each rule must keep matching at least
half (small rules: refactorings merge duplicated sites) or 70 % (large rules) of the instances it matches today (a rule that goes blind is analysis-broken, exit 2, never a pass)."""
import json, glob, os, math
V = os.path.dirname(os.path.dirname(os.path.abspath(__file__)))
# absolute floors for rules whose sites a legitimate refactoring merges into one shared worker (the rule's own minimum
# - raise AnalysisBroken below it - is the backstop)
OVERRIDE = {"R-EMPTYOK": 8, "R-DYNKEY": 1}
fl = {}
for f in sorted(glob.glob(os.path.join(V, "evidence", "C*.json"))):
    e = json.load(open(f))
    fl[e["property_id"]] = {rid: max(1, math.floor(r["obligations"] * (0.5 if r["obligations"] <= 60 else 0.7))) for rid, r in e["coverage"]["rules"].items()}
for pid in fl:
    for rid in fl[pid]:
        if rid in OVERRIDE:
            fl[pid][rid] = min(fl[pid][rid], OVERRIDE[rid])
json.dump(fl, open(os.path.join(V, "verif", "floors.json"), "w"), indent=1, sort_keys=True)
print(sum(len(v) for v in fl.values()), "rule floors")
