#!/bin/sh
# mkmutant.sh <id> <property> "<description>" <file> <python-expr replacing s>   -- own liveness mutants (not from sub-agents)
ID=$1; PROP=$2; DESC=$3; FILE=$4; EXPR=$5
T=$(mktemp -d); cp -r /repo/src /repo/include $T/; cd $T; git init -q .; git add -A; git -c user.email=a@b -c user.name=x commit -qm base
python3 - "$FILE" "$EXPR" <<'PY'
import sys
p=sys.argv[1]; s=open(p).read(); s0=s
exec(sys.argv[2])
assert s!=s0, "mutation did not change the file"
open(p,'w').write(s)
PY
[ $? = 0 ] || { echo "mutation failed"; cd /; rm -rf $T; exit 1; }
mkdir -p /verif/seeded/$ID; git diff > /verif/seeded/$ID/patch.diff
python3 - "$ID" "$PROP" "$DESC" <<'PY'
import json,sys
i,p,d=sys.argv[1:4]
json.dump({"id":i,"property":p,"source":"own mutant: liveness test of a rule (NOT an independent sub-agent change; not built or replayed, the behavioural break is evident from the edit)",
 "needs_to_manifest":d,"detected_by":"(tools/seedmatrix.py)"},open("/verif/seeded/%s/meta.json"%i,"w"),indent=1)
PY
cd /; rm -rf $T; echo "made $ID"
