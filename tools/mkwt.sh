#!/bin/sh
# mkwt.sh <dir>: scratch git worktree of /repo at HEAD with its own configured+built _build (offline).
# Remove afterwards with: git -C /repo worktree remove --force <dir>
set -e
D=$1
git -C /repo worktree add --detach "$D" HEAD >/dev/null 2>&1
cd "$D"
cmake -G Ninja -B _build -DCMAKE_BUILD_TYPE=RelWithDebInfo -DUTAP_WITH_TESTS=ON \
  -DFETCHCONTENT_FULLY_DISCONNECTED=ON -DFETCHCONTENT_TRY_FIND_PACKAGE_MODE=ALWAYS >/dev/null 2>&1
cmake --build _build -j16 >/dev/null 2>&1
ctest --test-dir _build -j8 2>&1 | tail -3 | head -1
