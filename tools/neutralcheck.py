#!/usr/bin/env python3
"""neutralcheck.py <patch.diff> [...]   run every claimed check (quick) on a scratch copy of /repo carrying each patch.
For behaviour-preserving refactorings every check must exit 0; anything else is a robustness problem of the engines."""
import json, os, shutil, subprocess, sys, tempfile
from concurrent.futures import ThreadPoolExecutor
VERIF = os.path.dirname(os.path.dirname(os.path.abspath(__file__)))
sys.path.insert(0, VERIF)
from verif.selftest import claimed  # noqa: E402


def one(patch):
    patch = os.path.abspath(patch)
    tmp = tempfile.mkdtemp(prefix="utap-neutral-")
    out = {"patch": patch, "runs": {}}
    try:
        for d in ("src", "include"):
            shutil.copytree(os.path.join("/repo", d), os.path.join(tmp, d))
        p = subprocess.run(["git", "apply", "--whitespace=nowarn", patch], cwd=tmp, stdout=subprocess.PIPE,
                           stderr=subprocess.STDOUT, text=True)
        if p.returncode != 0:
            out["skipped"] = p.stdout.strip()[:200]
            return out
        env = dict(os.environ, UTAP_REPO=tmp, VERIF_OUT=os.path.join(tmp, "out"))
        for c in claimed():
            q = subprocess.run([sys.executable, "-m", "verif.cli", c, "--tier", "quick"], cwd=VERIF, env=env,
                               stdout=subprocess.PIPE, stderr=subprocess.STDOUT, text=True)
            if q.returncode != 0:
                lines = [l for l in q.stdout.splitlines() if "VIOLATION" not in l and not l.startswith("KNOWN")]
                out["runs"][c] = {"exit": q.returncode, "msg": [l[:260] for l in lines[-4:]]}
    finally:
        shutil.rmtree(tmp, ignore_errors=True)
    return out


if __name__ == "__main__":
    with ThreadPoolExecutor(max_workers=4) as ex:
        res = list(ex.map(one, sys.argv[1:]))
    bad = 0
    for r in res:
        if "skipped" in r:
            print("%s: SKIPPED %s" % (r["patch"], r["skipped"]))
        elif not r["runs"]:
            print("%s: all checks silent" % r["patch"])
        else:
            bad += 1
            print("%s:" % r["patch"])
            for c, v in r["runs"].items():
                print("   %s exit %d" % (c, v["exit"]))
                for m in v["msg"]:
                    print("      " + m)
    sys.exit(1 if bad else 0)
