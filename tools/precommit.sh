#!/bin/sh
# lint the engines, run every quick check on /repo, validate manifest + evidence
cd "$(dirname "$0")/.." || exit 2
python3 tools/lint_names.py || exit 1
for p in $(python3 -c "import json;print(' '.join(c['property_id'] for c in json.load(open('MANIFEST.json'))['checks']))"); do
  ./check $p --tier quick >/dev/null 2>&1; rc=$?; [ $rc = 0 ] || { echo "$p exits $rc"; exit 1; }
done
python3-vt tools/validate.py
