#!/bin/sh
# rebase_seed.sh <id>...  -- re-create seeded/<id>/patch.diff against /repo HEAD with a 3-way merge (the patch's index
# lines name blobs that are still in /repo's object database); conflicts are left for a manual edit in the printed dir
for ID in "$@"; do
  W=$(mktemp -d /tmp/rebase-XXXX); rmdir $W
  git -C /repo worktree add -q --detach $W HEAD || exit 1
  if (cd $W && git apply --3way /verif/seeded/$ID/patch.diff >/dev/null 2>$W.err); then
    if (cd $W && git diff --name-only --diff-filter=U | grep -q .); then
      echo "$ID: CONFLICT - resolve in $W, then: (cd $W && git diff HEAD -- src include > /verif/seeded/$ID/patch.diff); git -C /repo worktree remove --force $W"
      continue
    fi
    (cd $W && git diff HEAD -- src include > /verif/seeded/$ID/patch.diff)
    echo "$ID: rebased ($(grep -c '^@@' /verif/seeded/$ID/patch.diff) hunks)"
    git -C /repo worktree remove --force $W
  else
    echo "$ID: git apply --3way failed: $(head -3 $W.err | tr '\n' ' ')"; echo "   dir: $W"
  fi
  rm -f $W.err
done
