#!/bin/sh
# reseed.sh <id> <file> <python statements editing s>   -- re-create seeded/<id>/patch.diff on the current /repo tree by
# scripted edit (for seeds whose patch stopped applying after a /repo fix); meta.json and the demonstration are kept
ID=$1; FILE=$2; EXPR=$3
T=$(mktemp -d); cp -r /repo/src /repo/include $T/; cd $T; git init -q .; git add -A; git -c user.email=a@b -c user.name=x commit -qm base
python3 - "$FILE" "$EXPR" <<'PY'
import sys, re
p=sys.argv[1]; s=open(p).read(); s0=s
exec(sys.argv[2])
assert s!=s0, "edit did not change the file"
open(p,'w').write(s)
PY
[ $? = 0 ] || { echo "edit failed"; cd /; rm -rf $T; exit 1; }
git diff > /verif/seeded/$ID/patch.diff
cd /; rm -rf $T; echo "re-made $ID ($(grep -c '^@@' /verif/seeded/$ID/patch.diff) hunks)"
