#!/bin/sh
# reseed_partial.sh <id> <drop-hunk-numbers, comma separated, 1-based over the whole patch> <file> <python edit of s>
# applies the hunks of seeded/<id>/patch.diff that still apply, replaces the dropped ones by a scripted edit
ID=$1; DROP=$2; FILE=$3; EXPR=$4
T=$(mktemp -d); cp -r /repo/src /repo/include $T/; cd $T; git init -q .; git add -A; git -c user.email=a@b -c user.name=x commit -qm base
python3 - /verif/seeded/$ID/patch.diff "$DROP" > $T/part.diff <<'PY'
import sys,re
txt=open(sys.argv[1]).read(); drop={int(x) for x in sys.argv[2].split(",") if x}
out=[]; n=0
for block in re.split(r"(?m)^(?=diff --git )", txt):
    if not block.strip(): continue
    parts=re.split(r"(?m)^(?=@@ )", block)
    head, hunks = parts[0], parts[1:]
    keep=[]
    for h in hunks:
        n+=1
        if n not in drop: keep.append(h)
    if keep: out.append(head+"".join(keep))
sys.stdout.write("".join(out))
PY
git apply --recount part.diff || { echo "remaining hunks do not apply"; cd /; rm -rf $T; exit 1; }
rm part.diff
python3 - "$FILE" "$EXPR" <<'PY'
import sys, re
p=sys.argv[1]; s=open(p).read(); s0=s
exec(sys.argv[2])
assert s!=s0, "edit did not change the file"
open(p,'w').write(s)
PY
[ $? = 0 ] || { echo "edit failed"; cd /; rm -rf $T; exit 1; }
git diff > /verif/seeded/$ID/patch.diff
cd /; rm -rf $T; echo "re-made $ID ($(grep -c '^@@' /verif/seeded/$ID/patch.diff) hunks)"
