#!/usr/bin/env python3
"""seedmatrix.py [seed-id ...] [--checks C01,C02] [--all-checks] [-j N]

Liveness test of the rules: every change under /verif/seeded/<id>/patch.diff is applied to a scratch copy of
/repo's src/ and include/ (under a fresh temporary directory, removed afterwards; /repo itself is never
touched) and the check of the property it breaks is run on that copy (UTAP_REPO=<copy>, VERIF_OUT=<copy>/out so
that the evidence of the real tree is not overwritten).  Expected: exit 1 with a VIOLATION line.

Writes seeded/MATRIX.json: per seed, the checks run, their exit codes and the violation keys they reported.
With --all-checks every claimed check is run on every seed (shows which other checks also fire / stay silent).
"""
import json
import os
import shutil
import subprocess
import sys
import tempfile
from concurrent.futures import ThreadPoolExecutor

VERIF = os.path.dirname(os.path.dirname(os.path.abspath(__file__)))
REPO = os.environ.get("UTAP_REPO", "/repo")


sys.path.insert(0, VERIF)
from verif.selftest import claimed, run_seed  # noqa: E402


def main(argv):
    jobs = 4
    allc = "--all-checks" in argv
    only = None
    if "-j" in argv:
        jobs = int(argv[argv.index("-j") + 1])
    if "--checks" in argv:
        only = argv[argv.index("--checks") + 1].split(",")
    skip = set()
    for flag in ("-j", "--checks"):
        if flag in argv:
            skip.add(argv.index(flag) + 1)
    ids = [a for i, a in enumerate(argv) if not a.startswith("-") and i not in skip]
    sdir = os.path.join(VERIF, "seeded")
    if not ids:
        ids = sorted(d for d in os.listdir(sdir) if os.path.exists(os.path.join(sdir, d, "patch.diff")))
    cl = claimed()

    def one(sid):
        with open(os.path.join(sdir, sid, "meta.json")) as f:
            prop = json.load(f)["property"]
        checks = only or (cl if allc else ([prop] if prop in cl else []))
        return run_seed(sid, checks)

    with ThreadPoolExecutor(max_workers=jobs) as ex:
        results = list(ex.map(one, ids))
    path = os.path.join(sdir, "MATRIX.json")
    old = {}
    if os.path.exists(path):
        with open(path) as f:
            old = {r["seed"]: r for r in json.load(f)["seeds"]}
    for r in results:
        if r["seed"] in old and not allc and not only:
            # keep what an earlier --all-checks run recorded for the other checks
            merged = dict(old[r["seed"]].get("runs", {}))
            merged.update(r["runs"])
            r["runs"] = merged
        old[r["seed"]] = r
    with open(path, "w") as f:
        json.dump({"_doc": __doc__.strip().splitlines()[2:8], "seeds": [old[k] for k in sorted(old)]}, f, indent=1)
    bad = 0
    for r in results:
        own = r["runs"].get(r["property"])
        if "skipped" in r:
            st = "SKIPPED (%s)" % r["skipped"]
        elif own is None:
            st = "property not claimed"
        elif r.get("expect") == "undetected":
            st = "documented miss (no rule covers it)" if own["exit"] == 0 else "now DETECTED: %s" % own["violations"][:2]
        elif r.get("expect") == "silent":
            if own["exit"] == 0:
                st = "SILENT as expected (the property holds with this change)"
            else:
                st = "FALSE ALARM (exit %d %s %s)" % (own["exit"], own["violations"][:3], own["broken"])
                bad += 1
        elif own["exit"] == 1:
            st = "DETECTED by %s: %s" % (r["property"], ", ".join(own["violations"][:3]))
        else:
            st = "MISSED (exit %d %s)" % (own["exit"], own["broken"])
            bad += 1
        others = [c for c, v in r["runs"].items() if c != r["property"] and v["exit"] != 0]
        print("%-44s %s%s" % (r["seed"], st, ("   also: " + ",".join(others)) if others else ""))
    return 1 if bad else 0


if __name__ == "__main__":
    sys.exit(main(sys.argv[1:]))
