// utap-facts: dump a simplified, type-resolved syntax tree of every function
// defined in files under the given roots, plus class / enum / global tables,
// as one JSON document.  Deciding steps in /verif/verif/rules read only this.
//
// usage: utap-facts <out.json> <root-prefix>[,<root-prefix>...] <source> -- <compiler flags>
//
// Build: see /verif/setup.sh
#include "clang/AST/ASTConsumer.h"
#include "clang/AST/ASTContext.h"
#include "clang/AST/Decl.h"
#include "clang/AST/DeclCXX.h"
#include "clang/AST/DeclTemplate.h"
#include "clang/AST/Expr.h"
#include "clang/AST/ExprCXX.h"
#include "clang/AST/RecursiveASTVisitor.h"
#include "clang/AST/Stmt.h"
#include "clang/AST/StmtCXX.h"
#include "clang/Basic/SourceManager.h"
#include "clang/Frontend/CompilerInstance.h"
#include "clang/Frontend/FrontendAction.h"
#include "clang/Lex/Lexer.h"
#include "clang/Tooling/CompilationDatabase.h"
#include "clang/Tooling/Tooling.h"
#include "llvm/Support/JSON.h"
#include "llvm/Support/raw_ostream.h"

#include <set>
#include <string>
#include <vector>

using namespace clang;
using llvm::json::OStream;

static std::vector<std::string> g_roots;
static std::string g_out;

namespace {

struct Dumper
{
    ASTContext& ctx;
    SourceManager& sm;
    OStream& J;
    PrintingPolicy pp;
    std::string curFile;

    Dumper(ASTContext& c, OStream& j): ctx(c), sm(c.getSourceManager()), J(j), pp(c.getLangOpts())
    {
        pp.SuppressTagKeyword = true;
        pp.Bool = true;
        pp.SuppressUnwrittenScope = true;
    }

    std::string fileOf(SourceLocation loc, unsigned* line = nullptr, unsigned* col = nullptr)
    {
        if (loc.isInvalid())
            return "";
        SourceLocation e = sm.getExpansionLoc(loc);
        PresumedLoc p = sm.getPresumedLoc(e);
        if (p.isInvalid())
            return "";
        if (line)
            *line = p.getLine();
        if (col)
            *col = p.getColumn();
        return p.getFilename();
    }

    bool inRoots(SourceLocation loc)
    {
        if (loc.isInvalid())
            return false;
        SourceLocation e = sm.getExpansionLoc(loc);
        if (sm.isInSystemHeader(e))
            return false;
        // use the real file for root membership (generated parser lives in gen dir,
        // presumed name may be parser.y / lexer.l under /repo/src: both are roots)
        std::string f = fileOf(loc);
        for (auto& r : g_roots)
            if (f.compare(0, r.size(), r) == 0)
                return true;
        if (const FileEntry* fe = sm.getFileEntryForID(sm.getFileID(e))) {
            std::string rf = fe->tryGetRealPathName().str();
            for (auto& r : g_roots)
                if (rf.compare(0, r.size(), r) == 0)
                    return true;
        }
        return false;
    }

    void loc(SourceLocation l)
    {
        unsigned line = 0, col = 0;
        std::string f = fileOf(l, &line, &col);
        J.attribute("l", (int64_t)line);
        if (!f.empty() && f != curFile)
            J.attribute("f", f);
    }

    std::string ty(QualType t)
    {
        if (t.isNull())
            return "";
        return t.getAsString(pp);
    }
    std::string cty(QualType t)
    {
        if (t.isNull())
            return "";
        return t.getCanonicalType().getAsString(pp);
    }

    static std::string qname(const NamedDecl* d)
    {
        if (!d)
            return "";
        std::string s;
        llvm::raw_string_ostream os(s);
        d->printQualifiedName(os);
        return os.str();
    }

    std::string macroName(SourceLocation l)
    {
        if (!l.isMacroID())
            return "";
        // outermost macro the location was expanded from
        SourceLocation cur = l;
        std::string name;
        while (cur.isMacroID()) {
            name = Lexer::getImmediateMacroName(cur, sm, ctx.getLangOpts()).str();
            cur = sm.getImmediateMacroCallerLoc(cur);
        }
        return name;
    }

    // ---------------------------------------------------------------- expr
    const Expr* strip(const Expr* e)
    {
        for (;;) {
            if (!e)
                return e;
            if (auto* x = dyn_cast<ParenExpr>(e)) {
                e = x->getSubExpr();
                continue;
            }
            if (auto* x = dyn_cast<ImplicitCastExpr>(e)) {
                e = x->getSubExpr();
                continue;
            }
            if (auto* x = dyn_cast<ExprWithCleanups>(e)) {
                e = x->getSubExpr();
                continue;
            }
            if (auto* x = dyn_cast<MaterializeTemporaryExpr>(e)) {
                e = x->getSubExpr();
                continue;
            }
            if (auto* x = dyn_cast<CXXBindTemporaryExpr>(e)) {
                e = x->getSubExpr();
                continue;
            }
            if (auto* x = dyn_cast<ConstantExpr>(e)) {
                e = x->getSubExpr();
                continue;
            }
            if (auto* x = dyn_cast<SubstNonTypeTemplateParmExpr>(e)) {
                e = x->getReplacement();
                continue;
            }
            return e;
        }
    }

    void args(const char* key, llvm::ArrayRef<const Expr*> as)
    {
        J.attributeArray(key, [&] {
            for (const Expr* a : as)
                expr(a);
        });
    }

    void funcRef(const FunctionDecl* fd)
    {
        if (!fd)
            return;
        J.attribute("fn", qname(fd));
        J.attribute("name", fd->getNameAsString());
        if (auto* md = dyn_cast<CXXMethodDecl>(fd)) {
            J.attribute("cls", qname(md->getParent()));
            if (md->isVirtual())
                J.attribute("virt", true);
            if (md->isStatic())
                J.attribute("static", true);
        }
        J.attributeArray("pt", [&] {
            for (auto* p : fd->parameters())
                J.value(ty(p->getType()));
        });
        J.attributeArray("cpt", [&] {
            for (auto* p : fd->parameters())
                J.value(cty(p->getType()));
        });
    }

    void expr(const Expr* e0)
    {
        const Expr* e = strip(e0);
        if (!e) {
            J.value(nullptr);
            return;
        }
        J.object([&] { exprBody(e); });
    }

    void intval(const Expr* e)
    {
        if (e->isValueDependent())
            return;
        Expr::EvalResult r;
        if (e->getType()->isIntegralOrEnumerationType() && e->EvaluateAsInt(r, ctx))
            J.attribute("cv", r.Val.getInt().getExtValue());
    }

    void exprBody(const Expr* e)
    {
        loc(e->getBeginLoc());
        if (auto* x = dyn_cast<IntegerLiteral>(e)) {
            J.attribute("k", "int");
            J.attribute("v", x->getValue().getLimitedValue());
            return;
        }
        if (auto* x = dyn_cast<CXXBoolLiteralExpr>(e)) {
            J.attribute("k", "bool");
            J.attribute("v", x->getValue());
            return;
        }
        if (auto* x = dyn_cast<FloatingLiteral>(e)) {
            J.attribute("k", "float");
            J.attribute("v", x->getValueAsApproximateDouble());
            return;
        }
        if (auto* x = dyn_cast<clang::StringLiteral>(e)) {
            J.attribute("k", "str");
            if (x->getCharByteWidth() == 1)
                J.attribute("v", x->getString());
            return;
        }
        if (auto* x = dyn_cast<CharacterLiteral>(e)) {
            J.attribute("k", "char");
            J.attribute("v", (int64_t)x->getValue());
            return;
        }
        if (isa<CXXNullPtrLiteralExpr>(e) || isa<GNUNullExpr>(e)) {
            J.attribute("k", "null");
            return;
        }
        if (isa<CXXThisExpr>(e)) {
            J.attribute("k", "this");
            J.attribute("t", ty(e->getType()));
            return;
        }
        if (auto* x = dyn_cast<DeclRefExpr>(e)) {
            const ValueDecl* d = x->getDecl();
            J.attribute("k", "ref");
            J.attribute("name", d->getNameAsString());
            J.attribute("t", ty(x->getType()));
            if (auto* ec = dyn_cast<EnumConstantDecl>(d)) {
                J.attribute("dk", "enumerator");
                J.attribute("q", qname(ec));
                J.attribute("ev", ec->getInitVal().getExtValue());
                if (auto* ed = dyn_cast<EnumDecl>(ec->getDeclContext()))
                    J.attribute("enum", qname(ed));
            } else if (auto* pv = dyn_cast<ParmVarDecl>(d)) {
                J.attribute("dk", "param");
                J.attribute("idx", (int64_t)pv->getFunctionScopeIndex());
            } else if (auto* vd = dyn_cast<VarDecl>(d)) {
                if (vd->isLocalVarDecl()) {
                    J.attribute("dk", vd->isStaticLocal() ? "staticlocal" : "local");
                } else {
                    J.attribute("dk", "global");
                    J.attribute("q", qname(vd));
                }
                J.attribute("id", (int64_t)(uintptr_t)vd->getCanonicalDecl());
            } else if (auto* fd = dyn_cast<FunctionDecl>(d)) {
                J.attribute("dk", "func");
                J.attribute("q", qname(fd));
            } else if (isa<BindingDecl>(d)) {
                J.attribute("dk", "binding");
                J.attribute("id", (int64_t)(uintptr_t)d);
            } else {
                J.attribute("dk", "other");
                J.attribute("q", qname(d));
            }
            return;
        }
        if (auto* x = dyn_cast<MemberExpr>(e)) {
            const ValueDecl* d = x->getMemberDecl();
            J.attribute("k", "member");
            J.attribute("name", d->getNameAsString());
            J.attribute("t", ty(x->getType()));
            if (auto* fd = dyn_cast<FieldDecl>(d))
                J.attribute("of", qname(fd->getParent()));
            else if (auto* md = dyn_cast<CXXMethodDecl>(d)) {
                J.attribute("of", qname(md->getParent()));
                J.attribute("method", true);
            } else if (auto* vd = dyn_cast<VarDecl>(d)) {
                J.attribute("q", qname(vd));
            }
            if (x->isArrow())
                J.attribute("arrow", true);
            J.attributeBegin("base");
            expr(x->getBase());
            J.attributeEnd();
            return;
        }
        if (auto* x = dyn_cast<CXXDependentScopeMemberExpr>(e)) {
            J.attribute("k", "member");
            J.attribute("name", x->getMember().getAsString());
            J.attribute("dep", true);
            if (!x->isImplicitAccess()) {
                J.attributeBegin("base");
                expr(x->getBase());
                J.attributeEnd();
            }
            return;
        }
        if (auto* x = dyn_cast<CXXOperatorCallExpr>(e)) {
            J.attribute("k", "call");
            J.attribute("ck", "op");
            J.attribute("op", getOperatorSpelling(x->getOperator()));
            J.attribute("t", ty(x->getType()));
            const FunctionDecl* fd = x->getDirectCallee();
            funcRef(fd);
            std::vector<const Expr*> as(x->arg_begin(), x->arg_end());
            if (fd && isa<CXXMethodDecl>(fd) && !as.empty()) {
                J.attributeBegin("recv");
                expr(as[0]);
                J.attributeEnd();
                as.erase(as.begin());
            }
            args("args", as);
            return;
        }
        if (auto* x = dyn_cast<CXXMemberCallExpr>(e)) {
            J.attribute("k", "call");
            J.attribute("ck", "member");
            J.attribute("t", ty(x->getType()));
            const CXXMethodDecl* md = x->getMethodDecl();
            funcRef(md);
            if (!md) {
                // (obj->*pm)(args): no method declaration; keep the pointer-to-member expression
                if (auto* bo = dyn_cast<BinaryOperator>(strip(x->getCallee()))) {
                    if (bo->isPtrMemOp()) {
                        J.attributeBegin("memptr");
                        expr(bo->getRHS());
                        J.attributeEnd();
                    }
                }
            }
            if (auto* me = dyn_cast<MemberExpr>(strip(x->getCallee()))) {
                if (me->hasQualifier())
                    J.attribute("qualified", true);  // non-virtual dispatch Base::f()
                if (me->isArrow())
                    J.attribute("arrow", true);
            }
            const Expr* obj = x->getImplicitObjectArgument();
            if (obj) {
                J.attribute("rt", ty(strip(obj)->getType()));
                J.attributeBegin("recv");
                expr(obj);
                J.attributeEnd();
            }
            std::vector<const Expr*> as(x->arg_begin(), x->arg_end());
            args("args", as);
            return;
        }
        if (auto* x = dyn_cast<CallExpr>(e)) {
            J.attribute("k", "call");
            J.attribute("t", ty(x->getType()));
            const FunctionDecl* fd = x->getDirectCallee();
            if (fd) {
                J.attribute("ck", "free");
                funcRef(fd);
            } else {
                J.attribute("ck", "indirect");
                J.attributeBegin("callee");
                expr(x->getCallee());
                J.attributeEnd();
            }
            std::vector<const Expr*> as(x->arg_begin(), x->arg_end());
            args("args", as);
            return;
        }
        if (auto* x = dyn_cast<CXXConstructExpr>(e)) {
            // copy/move construction from a single argument is transparent enough, but keep it visible
            J.attribute("k", "construct");
            J.attribute("t", ty(x->getType()));
            J.attribute("ct", cty(x->getType()));
            const CXXConstructorDecl* cd = x->getConstructor();
            if (cd) {
                J.attribute("cls", qname(cd->getParent()));
                if (cd->isCopyOrMoveConstructor())
                    J.attribute("copy", true);
                J.attributeArray("pt", [&] {
                    for (auto* p : cd->parameters())
                        J.value(cty(p->getType()));
                });
            }
            if (isa<CXXTemporaryObjectExpr>(x))
                J.attribute("explicit", true);
            if (x->isListInitialization())
                J.attribute("list", true);
            std::vector<const Expr*> as(x->arg_begin(), x->arg_end());
            args("args", as);
            return;
        }
        if (auto* x = dyn_cast<CXXUnresolvedConstructExpr>(e)) {
            J.attribute("k", "construct");
            J.attribute("t", ty(x->getTypeAsWritten()));
            J.attribute("dep", true);
            std::vector<const Expr*> as(x->arg_begin(), x->arg_end());
            args("args", as);
            return;
        }
        if (auto* x = dyn_cast<CXXDefaultArgExpr>(e)) {
            J.attribute("k", "defarg");
            J.attributeBegin("e");
            expr(x->getExpr());
            J.attributeEnd();
            return;
        }
        if (auto* x = dyn_cast<CXXDefaultInitExpr>(e)) {
            J.attribute("k", "definit");
            J.attributeBegin("e");
            expr(x->getExpr());
            J.attributeEnd();
            return;
        }
        if (auto* x = dyn_cast<UnaryOperator>(e)) {
            J.attribute("k", "un");
            J.attribute("op", UnaryOperator::getOpcodeStr(x->getOpcode()));
            if (x->isPostfix())
                J.attribute("post", true);
            intval(x);
            J.attributeBegin("e");
            expr(x->getSubExpr());
            J.attributeEnd();
            return;
        }
        if (auto* x = dyn_cast<BinaryOperator>(e)) {
            J.attribute("k", "bin");
            J.attribute("op", x->getOpcodeStr());
            intval(x);
            J.attributeBegin("lhs");
            expr(x->getLHS());
            J.attributeEnd();
            J.attributeBegin("rhs");
            expr(x->getRHS());
            J.attributeEnd();
            return;
        }
        if (auto* x = dyn_cast<ConditionalOperator>(e)) {
            // assert(c) expands to (static_cast<bool>(c) ? void(0) : __assert_fail(...))
            if (auto* ce = dyn_cast<CallExpr>(strip(x->getFalseExpr()))) {
                if (auto* fd = ce->getDirectCallee())
                    if (fd->getNameAsString() == "__assert_fail") {
                        J.attribute("k", "assert");
                        J.attributeBegin("c");
                        expr(x->getCond());
                        J.attributeEnd();
                        return;
                    }
            }
            J.attribute("k", "cond");
            J.attributeBegin("c");
            expr(x->getCond());
            J.attributeEnd();
            J.attributeBegin("a");
            expr(x->getTrueExpr());
            J.attributeEnd();
            J.attributeBegin("b");
            expr(x->getFalseExpr());
            J.attributeEnd();
            return;
        }
        if (auto* x = dyn_cast<ArraySubscriptExpr>(e)) {
            J.attribute("k", "sub");
            J.attribute("t", ty(x->getType()));
            J.attributeBegin("base");
            expr(x->getBase());
            J.attributeEnd();
            J.attributeBegin("idx");
            expr(x->getIdx());
            J.attributeEnd();
            return;
        }
        if (auto* x = dyn_cast<ExplicitCastExpr>(e)) {
            J.attribute("k", "cast");
            J.attribute("t", ty(x->getTypeAsWritten()));
            J.attribute("ck", x->getCastKindName());
            if (isa<CXXStaticCastExpr>(x))
                J.attribute("style", "static");
            else if (isa<CXXDynamicCastExpr>(x))
                J.attribute("style", "dynamic");
            else if (isa<CXXReinterpretCastExpr>(x))
                J.attribute("style", "reinterpret");
            else if (isa<CXXConstCastExpr>(x))
                J.attribute("style", "const");
            else if (isa<CXXFunctionalCastExpr>(x))
                J.attribute("style", "functional");
            else
                J.attribute("style", "c");
            J.attributeBegin("e");
            expr(x->getSubExpr());
            J.attributeEnd();
            return;
        }
        if (auto* x = dyn_cast<InitListExpr>(e)) {
            if (x->isSemanticForm() || !x->getSemanticForm()) {
            } else
                x = x->getSemanticForm();
            J.attribute("k", "initlist");
            J.attribute("t", ty(x->getType()));
            J.attributeArray("e", [&] {
                for (const Expr* i : x->inits())
                    expr(i);
            });
            return;
        }
        if (auto* x = dyn_cast<CXXStdInitializerListExpr>(e)) {
            J.attribute("k", "stdinitlist");
            J.attributeBegin("e");
            expr(x->getSubExpr());
            J.attributeEnd();
            return;
        }
        if (auto* x = dyn_cast<CXXNewExpr>(e)) {
            J.attribute("k", "new");
            J.attribute("t", ty(x->getAllocatedType()));
            if (x->getInitializer()) {
                J.attributeBegin("e");
                expr(x->getInitializer());
                J.attributeEnd();
            }
            return;
        }
        if (auto* x = dyn_cast<CXXDeleteExpr>(e)) {
            J.attribute("k", "delete");
            J.attributeBegin("e");
            expr(x->getArgument());
            J.attributeEnd();
            return;
        }
        if (auto* x = dyn_cast<CXXThrowExpr>(e)) {
            J.attribute("k", "throw");
            if (x->getSubExpr()) {
                const Expr* s = strip(x->getSubExpr());
                // look through the copy construction of the exception object
                if (auto* ce = dyn_cast<CXXConstructExpr>(s))
                    if (ce->getConstructor()->isCopyOrMoveConstructor() && ce->getNumArgs() == 1)
                        s = strip(ce->getArg(0));
                J.attribute("t", cty(s->getType().getNonReferenceType().getUnqualifiedType()));
                if (auto* rd = s->getType()->getAsCXXRecordDecl()) {
                    J.attributeArray("bases", [&] { allBases(rd); });
                }
                J.attributeBegin("e");
                expr(x->getSubExpr());
                J.attributeEnd();
            }
            return;
        }
        if (auto* x = dyn_cast<LambdaExpr>(e)) {
            J.attribute("k", "lambda");
            // parameter names of the call operator (references inside the body carry dk=param and the name; the
            // list tells a lambda parameter from a captured parameter of the enclosing function)
            J.attributeArray("params", [&] {
                if (const CXXMethodDecl* op = x->getCallOperator())
                    for (const ParmVarDecl* p : op->parameters())
                        J.object([&] {
                            J.attribute("name", p->getNameAsString());
                            J.attribute("t", ty(p->getType()));
                        });
            });
            J.attributeBegin("body");
            stmt(x->getBody());
            J.attributeEnd();
            return;
        }
        if (auto* x = dyn_cast<UnaryExprOrTypeTraitExpr>(e)) {
            J.attribute("k", "sizeof");
            intval(x);
            return;
        }
        if (auto* x = dyn_cast<UnresolvedLookupExpr>(e)) {
            J.attribute("k", "ref");
            J.attribute("name", x->getName().getAsString());
            J.attribute("dk", "unresolved");
            return;
        }
        if (auto* x = dyn_cast<UnresolvedMemberExpr>(e)) {
            J.attribute("k", "member");
            J.attribute("name", x->getMemberName().getAsString());
            J.attribute("dep", true);
            if (!x->isImplicitAccess()) {
                J.attributeBegin("base");
                expr(x->getBase());
                J.attributeEnd();
            }
            return;
        }
        if (auto* x = dyn_cast<DependentScopeDeclRefExpr>(e)) {
            J.attribute("k", "ref");
            J.attribute("name", x->getDeclName().getAsString());
            J.attribute("dk", "dependent");
            return;
        }
        if (auto* x = dyn_cast<OpaqueValueExpr>(e)) {
            if (x->getSourceExpr()) {
                exprBodyNoLoc(strip(x->getSourceExpr()));
                return;
            }
        }
        if (auto* x = dyn_cast<StmtExpr>(e)) {
            J.attribute("k", "stmtexpr");
            J.attributeBegin("body");
            stmt(x->getSubStmt());
            J.attributeEnd();
            return;
        }
        if (auto* x = dyn_cast<CXXScalarValueInitExpr>(e)) {
            J.attribute("k", "valueinit");
            J.attribute("t", ty(x->getType()));
            return;
        }
        if (auto* x = dyn_cast<ImplicitValueInitExpr>(e)) {
            J.attribute("k", "valueinit");
            J.attribute("t", ty(x->getType()));
            return;
        }
        if (auto* x = dyn_cast<CXXTypeidExpr>(e)) {
            J.attribute("k", "typeid");
            if (!x->isTypeOperand()) {
                J.attributeBegin("e");
                expr(x->getExprOperand());
                J.attributeEnd();
            } else
                J.attribute("t", ty(x->getTypeOperand(ctx)));
            return;
        }
        // fallback: class name + children
        J.attribute("k", "other");
        J.attribute("cls", e->getStmtClassName());
        J.attributeArray("ch", [&] {
            for (const Stmt* c : e->children()) {
                if (auto* ce = dyn_cast_or_null<Expr>(c))
                    expr(ce);
                else if (c)
                    stmt(c);
            }
        });
    }
    void exprBodyNoLoc(const Expr* e) { exprBody(e); }

    void allBases(const CXXRecordDecl* rd)
    {
        std::set<const CXXRecordDecl*> seen;
        std::vector<const CXXRecordDecl*> todo{rd};
        while (!todo.empty()) {
            const CXXRecordDecl* r = todo.back();
            todo.pop_back();
            if (!r || !seen.insert(r).second)
                continue;
            J.value(qname(r));
            if (!r->hasDefinition())
                continue;
            for (auto& b : r->getDefinition()->bases())
                if (auto* br = b.getType()->getAsCXXRecordDecl())
                    todo.push_back(br);
        }
    }

    // ---------------------------------------------------------------- stmt
    void varDecl(const VarDecl* vd)
    {
        J.object([&] {
            J.attribute("name", vd->getNameAsString());
            J.attribute("t", ty(vd->getType()));
            J.attribute("ct", cty(vd->getType()));
            J.attribute("id", (int64_t)(uintptr_t)vd->getCanonicalDecl());
            if (vd->isStaticLocal())
                J.attribute("static", true);
            if (vd->getType().isConstQualified())
                J.attribute("const", true);
            if (auto* dd = dyn_cast<DecompositionDecl>(vd)) {
                J.attributeArray("bindings", [&] {
                    for (auto* b : dd->bindings())
                        J.object([&] {
                            J.attribute("name", b->getNameAsString());
                            J.attribute("id", (int64_t)(uintptr_t)b);
                        });
                });
            }
            if (vd->hasInit()) {
                J.attributeBegin("init");
                expr(vd->getInit());
                J.attributeEnd();
            }
        });
    }

    void stmt(const Stmt* s)
    {
        if (!s) {
            J.value(nullptr);
            return;
        }
        if (auto* e = dyn_cast<Expr>(s)) {
            expr(e);
            return;
        }
        J.object([&] {
            loc(s->getBeginLoc());
            if (auto* x = dyn_cast<CompoundStmt>(s)) {
                J.attribute("k", "block");
                J.attributeArray("s", [&] {
                    for (const Stmt* c : x->body())
                        stmt(c);
                });
                return;
            }
            if (auto* x = dyn_cast<IfStmt>(s)) {
                J.attribute("k", "if");
                if (x->isConstexpr())
                    J.attribute("constexpr", true);
                if (x->getInit()) {
                    J.attributeBegin("init");
                    stmt(x->getInit());
                    J.attributeEnd();
                }
                if (x->getConditionVariable()) {
                    J.attributeBegin("var");
                    varDecl(x->getConditionVariable());
                    J.attributeEnd();
                }
                J.attributeBegin("c");
                expr(x->getCond());
                J.attributeEnd();
                J.attributeBegin("then");
                stmt(x->getThen());
                J.attributeEnd();
                if (x->getElse()) {
                    J.attributeBegin("else");
                    stmt(x->getElse());
                    J.attributeEnd();
                }
                return;
            }
            if (auto* x = dyn_cast<SwitchStmt>(s)) {
                J.attribute("k", "switch");
                J.attributeBegin("c");
                expr(x->getCond());
                J.attributeEnd();
                J.attributeBegin("body");
                stmt(x->getBody());
                J.attributeEnd();
                return;
            }
            if (auto* x = dyn_cast<CaseStmt>(s)) {
                J.attribute("k", "case");
                J.attributeBegin("v");
                expr(x->getLHS());
                J.attributeEnd();
                {
                    Expr::EvalResult r;
                    if (!x->getLHS()->isValueDependent() && x->getLHS()->EvaluateAsInt(r, ctx))
                        J.attribute("cv", r.Val.getInt().getExtValue());
                }
                J.attributeBegin("s");
                stmt(x->getSubStmt());
                J.attributeEnd();
                return;
            }
            if (auto* x = dyn_cast<DefaultStmt>(s)) {
                J.attribute("k", "default");
                J.attributeBegin("s");
                stmt(x->getSubStmt());
                J.attributeEnd();
                return;
            }
            if (auto* x = dyn_cast<ForStmt>(s)) {
                J.attribute("k", "for");
                J.attributeBegin("init");
                stmt(x->getInit());
                J.attributeEnd();
                J.attributeBegin("c");
                expr(x->getCond());
                J.attributeEnd();
                J.attributeBegin("inc");
                expr(x->getInc());
                J.attributeEnd();
                J.attributeBegin("body");
                stmt(x->getBody());
                J.attributeEnd();
                return;
            }
            if (auto* x = dyn_cast<CXXForRangeStmt>(s)) {
                J.attribute("k", "rangefor");
                J.attributeBegin("var");
                varDecl(x->getLoopVariable());
                J.attributeEnd();
                J.attributeBegin("range");
                expr(x->getRangeInit());
                J.attributeEnd();
                J.attributeBegin("body");
                stmt(x->getBody());
                J.attributeEnd();
                return;
            }
            if (auto* x = dyn_cast<WhileStmt>(s)) {
                J.attribute("k", "while");
                J.attributeBegin("c");
                expr(x->getCond());
                J.attributeEnd();
                J.attributeBegin("body");
                stmt(x->getBody());
                J.attributeEnd();
                return;
            }
            if (auto* x = dyn_cast<DoStmt>(s)) {
                J.attribute("k", "do");
                J.attributeBegin("c");
                expr(x->getCond());
                J.attributeEnd();
                J.attributeBegin("body");
                stmt(x->getBody());
                J.attributeEnd();
                return;
            }
            if (auto* x = dyn_cast<ReturnStmt>(s)) {
                J.attribute("k", "return");
                if (x->getRetValue()) {
                    J.attributeBegin("e");
                    expr(x->getRetValue());
                    J.attributeEnd();
                }
                return;
            }
            if (isa<BreakStmt>(s)) {
                J.attribute("k", "break");
                return;
            }
            if (isa<ContinueStmt>(s)) {
                J.attribute("k", "continue");
                return;
            }
            if (isa<NullStmt>(s)) {
                J.attribute("k", "null");
                return;
            }
            if (auto* x = dyn_cast<DeclStmt>(s)) {
                J.attribute("k", "decl");
                J.attributeArray("vars", [&] {
                    for (const Decl* d : x->decls())
                        if (auto* vd = dyn_cast<VarDecl>(d))
                            varDecl(vd);
                });
                return;
            }
            if (auto* x = dyn_cast<CXXTryStmt>(s)) {
                J.attribute("k", "try");
                J.attributeBegin("body");
                stmt(x->getTryBlock());
                J.attributeEnd();
                J.attributeArray("handlers", [&] {
                    for (unsigned i = 0; i < x->getNumHandlers(); ++i) {
                        const CXXCatchStmt* h = x->getHandler(i);
                        J.object([&] {
                            loc(h->getBeginLoc());
                            if (h->getExceptionDecl()) {
                                QualType ct = h->getCaughtType().getNonReferenceType().getUnqualifiedType();
                                J.attribute("t", cty(ct));
                                J.attribute("var", h->getExceptionDecl()->getNameAsString());
                            } else
                                J.attribute("t", "...");
                            J.attributeBegin("body");
                            stmt(h->getHandlerBlock());
                            J.attributeEnd();
                        });
                    }
                });
                return;
            }
            if (auto* x = dyn_cast<LabelStmt>(s)) {
                J.attribute("k", "label");
                J.attribute("name", x->getName());
                J.attributeBegin("s");
                stmt(x->getSubStmt());
                J.attributeEnd();
                return;
            }
            if (auto* x = dyn_cast<GotoStmt>(s)) {
                J.attribute("k", "goto");
                J.attribute("name", x->getLabel()->getNameAsString());
                return;
            }
            if (auto* x = dyn_cast<AttributedStmt>(s)) {
                J.attribute("k", "attributed");
                J.attributeBegin("s");
                stmt(x->getSubStmt());
                J.attributeEnd();
                return;
            }
            J.attribute("k", "otherstmt");
            J.attribute("cls", s->getStmtClassName());
            J.attributeArray("ch", [&] {
                for (const Stmt* c : s->children())
                    stmt(c);
            });
        });
    }

    // ---------------------------------------------------------------- decls
    void function(const FunctionDecl* fd)
    {
        unsigned line = 0;
        curFile = fileOf(fd->getBeginLoc(), &line);
        unsigned eline = 0;
        fileOf(fd->getEndLoc(), &eline);
        J.object([&] {
            J.attribute("q", qname(fd));
            J.attribute("name", fd->getNameAsString());
            J.attribute("file", curFile);
            J.attribute("line", (int64_t)line);
            J.attribute("endline", (int64_t)eline);
            J.attribute("ret", ty(fd->getReturnType()));
            J.attribute("sig", ty(fd->getType()));
            if (fd->isTemplated())
                J.attribute("templated", true);
            if (fd->isTemplateInstantiation())
                J.attribute("instantiation", true);
            if (fd->getStorageClass() == SC_Static)
                J.attribute("static", true);
            if (fd->isInlined())
                J.attribute("inline", true);
            if (auto* md = dyn_cast<CXXMethodDecl>(fd)) {
                J.attribute("cls", qname(md->getParent()));
                if (md->isVirtual())
                    J.attribute("virt", true);
                if (md->isConst())
                    J.attribute("const", true);
                if (md->isStatic())
                    J.attribute("smethod", true);
                switch (md->getAccess()) {
                case AS_public: J.attribute("access", "public"); break;
                case AS_protected: J.attribute("access", "protected"); break;
                case AS_private: J.attribute("access", "private"); break;
                default: break;
                }
            }
            J.attributeArray("params", [&] {
                for (auto* p : fd->parameters())
                    J.object([&] {
                        J.attribute("name", p->getNameAsString());
                        J.attribute("t", ty(p->getType()));
                        J.attribute("ct", cty(p->getType()));
                        if (p->hasDefaultArg() && !p->hasUninstantiatedDefaultArg() && !p->hasUnparsedDefaultArg()) {
                            J.attributeBegin("def");
                            expr(p->getDefaultArg());
                            J.attributeEnd();
                        }
                    });
            });
            if (auto* cd = dyn_cast<CXXConstructorDecl>(fd)) {
                J.attributeArray("inits", [&] {
                    for (auto* ci : cd->inits()) {
                        J.object([&] {
                            if (ci->isAnyMemberInitializer())
                                J.attribute("member", ci->getAnyMember()->getNameAsString());
                            else if (ci->isBaseInitializer())
                                J.attribute("base", ty(QualType(ci->getBaseClass(), 0)));
                            if (ci->isWritten())
                                J.attribute("written", true);
                            J.attributeBegin("e");
                            expr(ci->getInit());
                            J.attributeEnd();
                        });
                    }
                });
            }
            J.attributeBegin("body");
            stmt(fd->getBody());
            J.attributeEnd();
        });
    }

    void record(const CXXRecordDecl* rd)
    {
        unsigned line = 0;
        curFile = fileOf(rd->getBeginLoc(), &line);
        J.object([&] {
            J.attribute("q", qname(rd));
            J.attribute("file", curFile);
            J.attribute("line", (int64_t)line);
            J.attribute("kind", rd->getKindName());
            if (rd->isTemplated())
                J.attribute("templated", true);
            if (rd->isAbstract())
                J.attribute("abstract", true);
            J.attributeArray("bases", [&] {
                for (auto& b : rd->bases())
                    if (auto* br = b.getType()->getAsCXXRecordDecl())
                        J.value(qname(br));
                    else
                        J.value(ty(b.getType()));
            });
            J.attributeArray("fields", [&] {
                for (auto* f : rd->fields())
                    J.object([&] {
                        J.attribute("name", f->getNameAsString());
                        J.attribute("t", ty(f->getType()));
                        J.attribute("ct", cty(f->getType()));
                        if (f->hasInClassInitializer() && f->getInClassInitializer()) {
                            J.attributeBegin("init");
                            expr(f->getInClassInitializer());
                            J.attributeEnd();
                        }
                    });
            });
            J.attributeArray("methods", [&] {
                for (auto* m : rd->methods()) {
                    if (m->isImplicit())
                        continue;
                    J.object([&] {
                        J.attribute("name", m->getNameAsString());
                        J.attribute("q", qname(m));
                        J.attribute("sig", ty(m->getType()));
                        if (m->isVirtual())
                            J.attribute("virt", true);
                        if (m->isPure())
                            J.attribute("pure", true);
                        if (m->isStatic())
                            J.attribute("static", true);
                        if (m->doesThisDeclarationHaveABody() || m->isDefined())
                            J.attribute("defined", true);
                        J.attribute("nparams", (int64_t)m->getNumParams());
                        J.attributeArray("pt", [&] {
                            for (auto* p : m->parameters())
                                J.value(ty(p->getType()));
                        });
                        J.attributeArray("cpt", [&] {
                            for (auto* p : m->parameters())
                                J.value(cty(p->getType()));
                        });
                        J.attributeArray("defaults", [&] {
                            for (auto* p : m->parameters()) {
                                if (p->hasDefaultArg() && !p->hasUninstantiatedDefaultArg() &&
                                    !p->hasUnparsedDefaultArg())
                                    expr(p->getDefaultArg());
                                else
                                    J.value(nullptr);
                            }
                        });
                        J.attributeArray("overrides", [&] {
                            for (auto* o : m->overridden_methods())
                                J.value(qname(o->getParent()));
                        });
                    });
                }
            });
        });
    }

    void enumeration(const EnumDecl* ed)
    {
        unsigned line = 0;
        curFile = fileOf(ed->getBeginLoc(), &line);
        J.object([&] {
            J.attribute("q", qname(ed));
            J.attribute("file", curFile);
            J.attribute("line", (int64_t)line);
            J.attributeArray("values", [&] {
                for (auto* e : ed->enumerators())
                    J.object([&] {
                        J.attribute("name", e->getNameAsString());
                        J.attribute("v", e->getInitVal().getExtValue());
                    });
            });
        });
    }

    void global(const VarDecl* vd)
    {
        unsigned line = 0;
        curFile = fileOf(vd->getBeginLoc(), &line);
        J.object([&] {
            J.attribute("q", qname(vd));
            J.attribute("name", vd->getNameAsString());
            J.attribute("file", curFile);
            J.attribute("line", (int64_t)line);
            J.attribute("t", ty(vd->getType()));
            J.attribute("ct", cty(vd->getType()));
            if (vd->getType().isConstQualified() || vd->isConstexpr())
                J.attribute("const", true);
            if (vd->getStorageClass() == SC_Static)
                J.attribute("static", true);
            if (vd->getStorageClass() == SC_Extern)
                J.attribute("extern", true);
            if (vd->isStaticDataMember())
                J.attribute("staticmember", true);
            if (vd->isThisDeclarationADefinition() == VarDecl::Definition)
                J.attribute("definition", true);
            if (vd->getTLSKind() != VarDecl::TLS_None)
                J.attribute("tls", true);
            if (vd->hasInit()) {
                J.attributeBegin("init");
                expr(vd->getInit());
                J.attributeEnd();
            }
        });
    }
};

struct Collector : RecursiveASTVisitor<Collector>
{
    Dumper& D;
    std::vector<const FunctionDecl*> funcs;
    std::vector<const CXXRecordDecl*> records;
    std::vector<const EnumDecl*> enums;
    std::vector<const VarDecl*> globals;
    explicit Collector(Dumper& d): D(d) {}
    bool shouldVisitTemplateInstantiations() const { return false; }
    bool shouldVisitImplicitCode() const { return false; }

    bool VisitFunctionDecl(FunctionDecl* fd)
    {
        if (fd->doesThisDeclarationHaveABody() && D.inRoots(fd->getLocation()))
            funcs.push_back(fd);
        return true;
    }
    bool VisitCXXRecordDecl(CXXRecordDecl* rd)
    {
        if (rd->isThisDeclarationADefinition() && !rd->isLambda() && D.inRoots(rd->getLocation()))
            records.push_back(rd);
        return true;
    }
    bool VisitEnumDecl(EnumDecl* ed)
    {
        if (ed->isThisDeclarationADefinition() && D.inRoots(ed->getLocation()))
            enums.push_back(ed);
        return true;
    }
    bool VisitVarDecl(VarDecl* vd)
    {
        if (isa<ParmVarDecl>(vd))
            return true;
        if (vd->isLocalVarDecl())
            return true;
        if (vd->hasGlobalStorage() && !vd->isStaticLocal() && D.inRoots(vd->getLocation()))
            globals.push_back(vd);
        return true;
    }
};

struct Consumer : ASTConsumer
{
    void HandleTranslationUnit(ASTContext& ctx) override
    {
        std::error_code ec;
        llvm::raw_fd_ostream os(g_out, ec);
        if (ec) {
            llvm::errs() << "cannot open " << g_out << "\n";
            exit(3);
        }
        OStream J(os, 0);
        Dumper D(ctx, J);
        Collector C(D);
        C.TraverseDecl(ctx.getTranslationUnitDecl());
        auto& sm = ctx.getSourceManager();
        J.object([&] {
            if (const FileEntry* fe = sm.getFileEntryForID(sm.getMainFileID()))
                J.attribute("tu", fe->tryGetRealPathName());
            J.attribute("errors", (int64_t)ctx.getDiagnostics().getClient()->getNumErrors());
            J.attributeArray("functions", [&] {
                for (auto* f : C.funcs)
                    D.function(f);
            });
            J.attributeArray("records", [&] {
                for (auto* r : C.records)
                    D.record(r);
            });
            J.attributeArray("enums", [&] {
                for (auto* e : C.enums)
                    D.enumeration(e);
            });
            J.attributeArray("globals", [&] {
                for (auto* g : C.globals)
                    D.global(g);
            });
        });
        os << "\n";
    }
};

struct Action : ASTFrontendAction
{
    std::unique_ptr<ASTConsumer> CreateASTConsumer(CompilerInstance&, llvm::StringRef) override
    {
        return std::make_unique<Consumer>();
    }
};

}  // namespace

int main(int argc, const char** argv)
{
    if (argc < 5) {
        llvm::errs() << "usage: utap-facts <out.json> <roots,comma-separated> <source> -- <flags>\n";
        return 2;
    }
    g_out = argv[1];
    {
        std::string r = argv[2];
        size_t p = 0;
        while (p <= r.size()) {
            size_t q = r.find(',', p);
            if (q == std::string::npos)
                q = r.size();
            if (q > p)
                g_roots.push_back(r.substr(p, q - p));
            p = q + 1;
        }
    }
    std::string src = argv[3];
    std::vector<std::string> flags;
    int i = 4;
    if (std::string(argv[i]) == "--")
        ++i;
    for (; i < argc; ++i)
        flags.push_back(argv[i]);
    clang::tooling::FixedCompilationDatabase db(".", flags);
    clang::tooling::ClangTool tool(db, {src});
    int rc = tool.run(clang::tooling::newFrontendActionFactory<Action>().get());
    return rc;
}
