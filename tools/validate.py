#!/usr/bin/env python3-vt
"""Validate MANIFEST.json and every evidence file against the given schemas (tooling venv has jsonschema)."""
import json, sys, glob, jsonschema
ok = True
m = json.load(open('/verif/MANIFEST.json'))
try:
    jsonschema.validate(m, json.load(open('/root/.vp/MANIFEST.schema.json'))); print('MANIFEST valid')
except Exception as e:
    ok = False; print('MANIFEST INVALID', e)
es = json.load(open('/root/.vp/EVIDENCE.schema.json'))
claimed = {c['property_id'] for c in m['checks']}
na = {c['property_id'] for c in m.get('not_applicable', [])}
allp = {json.loads(l)['id'] for l in open('/verif/properties.jsonl')}
if claimed & na or (claimed | na) != allp:
    ok = False; print('claimed/not_applicable do not partition the properties', sorted(claimed & na), sorted(allp - claimed - na))
for c in m['checks']:
    f = '/verif/' + c['evidence_file']
    try:
        e = json.load(open(f)); jsonschema.validate(e, es)
        if e['level'] != c['level_claimed']['category']:
            ok = False; print(f, 'level', e['level'], '!= claimed', c['level_claimed']['category'])
    except Exception as ex:
        ok = False; print(f, 'INVALID', str(ex)[:300])
print('all ok' if ok else 'PROBLEMS')
sys.exit(0 if ok else 1)
