#!/bin/sh
# verify_seed.sh <worktree> <demo build+run command, run inside the worktree>
# Confirms: (a) test-suite passes WITH the change, (b) demo fails WITH, (c) demo passes WITHOUT.
WT=$1; shift
cd "$WT" || exit 2
git apply --check -R seed/patch.diff 2>/dev/null || { echo "patch not applied in worktree; applying"; git apply seed/patch.diff || exit 2; }
cmake --build _build -j8 >/dev/null 2>&1 || { echo "BUILD FAILED with change"; exit 1; }
ctest --test-dir _build -j8 2>&1 | tail -3 | head -1
sh -c "$*" >/tmp/seed_with.log 2>&1; echo "demo WITH change: exit=$?"
git apply -R seed/patch.diff && cmake --build _build -j8 >/dev/null 2>&1
sh -c "$*" >/tmp/seed_without.log 2>&1; echo "demo WITHOUT change: exit=$?"
git apply seed/patch.diff && cmake --build _build -j8 >/dev/null 2>&1
