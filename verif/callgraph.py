"""Whole-library call graph over resolved callees and the escaping-exception analysis.

fkey(function) = qualified name + parameter types, so overloads stay apart.
Virtual calls are resolved by class-hierarchy analysis (declared method + every
overrider in a subclass) unless the caller supplies a concrete receiver class.
Functions without a body in the facts (libstdc++, libxml2, libc) are *external*:
they contribute no UTAP exception (they cannot construct one) - recorded as an
assumption in the evidence.
"""
from .facts import walk

TE = "UTAP::TypeException"


def fkey_of_fn(fn):
    return fn["q"] + "(" + ",".join(p["ct"] for p in fn["params"]) + ")"


def fkey_of_call(c):
    return (c.get("fn") or "?") + "(" + ",".join(c.get("cpt", [])) + ")"


class CallGraph:
    def __init__(self, F):
        self.F = F
        self.fn_by_key = {}
        for fn in F.functions.values():
            self.fn_by_key.setdefault(fkey_of_fn(fn), fn)
        # overriders: (class, name, pt) -> [fkeys in subclasses]
        self._sub = {}
        for q in F.records:
            self._sub[q] = F.subclasses(q)
        self._escapes = None

    def targets(self, call, recv_cls=None):
        """Possible callee function facts of a call node."""
        k = fkey_of_call(call)
        name = call.get("name")
        pt = ",".join(call.get("cpt", []))
        out = []
        if call.get("virt") and not call.get("qualified"):
            cls = recv_cls or call.get("cls")
            if recv_cls:
                # concrete receiver: most-derived definition
                for c in [recv_cls] + self.F.bases(recv_cls):
                    f = self.fn_by_key.get("%s::%s(%s)" % (c, name, pt))
                    if f is not None:
                        return [f]
                return []
            cands = [cls] + self._sub.get(cls, [])
            for c in cands:
                f = self.fn_by_key.get("%s::%s(%s)" % (c, name, pt))
                if f is not None:
                    out.append(f)
            # a subclass that does not override inherits a base definition
            for c in self.F.bases(cls):
                f = self.fn_by_key.get("%s::%s(%s)" % (c, name, pt))
                if f is not None and f not in out:
                    out.append(f)
            return out
        f = self.fn_by_key.get(k)
        if f is not None:
            return [f]
        # a call to a function template: the facts hold the template pattern (parameter types are dependent), the
        # call names an instantiation - match by qualified name and arity
        fq = call.get("fn")
        if fq:
            cands = [t for t in self.F.fns(fq) if t.get("templated") and len(t["params"]) == len(call.get("args", []))]
            if len(cands) == 1:
                return cands
        return []

    # ------------------------------------------------------------------ exceptions
    @staticmethod
    def catches(handler_t, thrown):
        """thrown = (type, bases tuple)."""
        if handler_t == "...":
            return True
        t, bases = thrown
        return handler_t == t or handler_t in bases

    def _local(self, node, caught_stack, out_throws, out_calls, rethrow_ctx):
        """Collect (thrown type, handlers-in-scope) and (call, handlers-in-scope) pairs of a body."""
        if isinstance(node, list):
            for x in node:
                self._local(x, caught_stack, out_throws, out_calls, rethrow_ctx)
            return
        if not isinstance(node, dict):
            return
        k = node.get("k")
        if k == "try":
            hs = [h.get("t") for h in node.get("handlers", [])]
            self._local(node.get("body"), caught_stack + [hs], out_throws, out_calls, rethrow_ctx)
            for h in node.get("handlers", []):
                self._local(h.get("body"), caught_stack, out_throws, out_calls, h.get("t"))
            return
        if k == "lambda":
            # a lambda body runs when called; conservatively treat as inline
            self._local(node.get("body"), caught_stack, out_throws, out_calls, rethrow_ctx)
            return
        if k == "throw":
            if node.get("t"):
                out_throws.append(((node["t"], tuple(node.get("bases", []))), list(caught_stack), node))
            else:
                out_throws.append((("<rethrow:%s>" % rethrow_ctx, ()), list(caught_stack), node))
        if k in ("call", "construct"):
            out_calls.append((node, list(caught_stack)))
        for key, v in node.items():
            if isinstance(v, (dict, list)) and key not in ("handlers",):
                self._local(v, caught_stack, out_throws, out_calls, rethrow_ctx)

    def escapes(self):
        """fkey -> set of (type, bases) that may escape the function."""
        if self._escapes is not None:
            return self._escapes
        local = {}
        for key, fn in self.fn_by_key.items():
            th, cl = [], []
            self._local(fn.get("body"), [], th, cl, None)
            for ci in fn.get("inits", []) or []:
                self._local(ci.get("e"), [], th, cl, None)
            local[key] = (th, cl)
        esc = {k: set() for k in self.fn_by_key}
        for key, (th, cl) in local.items():
            for thrown, stack, node in th:
                if thrown[0].startswith("<rethrow"):
                    continue
                if not any(self.catches(h, thrown) for hs in stack for h in hs):
                    esc[key].add(thrown)
        changed = True
        while changed:
            changed = False
            for key, (th, cl) in local.items():
                for call, stack in cl:
                    if call.get("k") == "construct":
                        tk = None
                        cls = call.get("cls")
                        if cls:
                            tk = "%s::%s(%s)" % (cls, cls.split("::")[-1], ",".join(call.get("pt", [])))
                        tgts = [self.fn_by_key[tk]] if tk in self.fn_by_key else []
                    else:
                        tgts = self.targets(call)
                    for t in tgts:
                        for thrown in esc[fkey_of_fn(t)]:
                            if any(self.catches(h, thrown) for hs in stack for h in hs):
                                continue
                            if thrown not in esc[key]:
                                esc[key].add(thrown)
                                changed = True
        self._escapes = esc
        return esc

    def may_throw(self, call, recv_cls=None):
        """Exception types that may escape from a call node (by its resolved targets)."""
        esc = self.escapes()
        out = set()
        if call.get("k") == "construct":
            cls = call.get("cls")
            tk = "%s::%s(%s)" % (cls, cls.split("::")[-1], ",".join(call.get("pt", []))) if cls else None
            if tk in esc:
                out |= esc[tk]
            return out
        for t in self.targets(call, recv_cls):
            out |= esc[fkey_of_fn(t)]
        return out


def is_te(thrown):
    t, bases = thrown
    return t == TE or TE in bases
