"""./check <Cxx> [--tier quick|thorough]

exit 0: every obligation discharged (listed known findings are printed as KNOWN-FINDING lines)
exit 1: at least one unlisted violation, each with `VIOLATION property=<id> replay=<path>`
exit 2: analysis broken (anchor vanished, extraction failed, rule below its floor) - neither pass nor alarm
"""
import importlib
import os
import sys
import traceback

from . import front
from .front import AnalysisBroken


def main(argv):
    if not argv or argv[0] in ("-h", "--help"):
        print(__doc__)
        return 2
    pid = argv[0]
    tier = os.environ.get("VERIF_TIER", "quick")
    if "--tier" in argv:
        tier = argv[argv.index("--tier") + 1]
    if tier not in ("quick", "thorough"):
        tier = "quick"
    seed = int(os.environ.get("VERIF_SEED", "0") or 0)
    try:
        mod = importlib.import_module("verif.props." + pid)
    except ImportError as e:
        print("no check for %s: %s" % (pid, e))
        return 2
    try:
        wd = front.prepare()
        from .facts import Facts
        from .grammar import Grammar
        F = Facts(wd)
        G = Grammar(wd, F)
        return mod.run(F, G, tier, seed)
    except AnalysisBroken as e:
        print("ANALYSIS-BROKEN property=%s: %s" % (pid, e))
        return 2
    except Exception:  # an engine bug is analysis-broken, never a verdict
        traceback.print_exc()
        print("ANALYSIS-BROKEN property=%s: internal error in the rule engine" % pid)
        return 2


if __name__ == "__main__":
    sys.exit(main(sys.argv[1:]))
