"""./check <Cxx> [--tier quick|thorough]

exit 0: every obligation discharged (listed known findings are printed as KNOWN-FINDING lines)
exit 1: at least one unlisted violation, each with `VIOLATION property=<id> replay=<path>`
exit 2: analysis broken (anchor vanished, extraction failed, rule below its floor) - neither pass nor alarm
"""
import importlib
import os
import sys
import traceback

from . import front
from .front import AnalysisBroken


def main(argv):
    if not argv or argv[0] in ("-h", "--help"):
        print(__doc__)
        return 2
    pid = argv[0]
    tier = os.environ.get("VERIF_TIER", "quick")
    if "--tier" in argv:
        tier = argv[argv.index("--tier") + 1]
    if tier not in ("quick", "thorough"):
        tier = "quick"
    seed = int(os.environ.get("VERIF_SEED", "0") or 0)
    try:
        mod = importlib.import_module("verif.props." + pid)
    except ImportError as e:
        print("no check for %s: %s" % (pid, e))
        return 2
    except Exception:  # a broken rule module is analysis-broken, never a verdict (an uncaught error would exit 1)
        traceback.print_exc()
        print("ANALYSIS-BROKEN property=%s: the check's modules do not load" % pid)
        return 2
    try:
        wd = front.prepare()
        from .facts import Facts
        from .grammar import Grammar
        F = Facts(wd)
        G = Grammar(wd, F)
        rc = mod.run(F, G, tier, seed)
        if tier == "thorough" and rc in (0, 1) and not os.environ.get("VERIF_OUT"):
            rc = _liveness(pid, rc)
        return rc
    except AnalysisBroken as e:
        print("ANALYSIS-BROKEN property=%s: %s" % (pid, e))
        return 2
    except Exception:  # an engine bug is analysis-broken, never a verdict
        traceback.print_exc()
        print("ANALYSIS-BROKEN property=%s: internal error in the rule engine" % pid)
        return 2


def _liveness(pid, rc):
    """Thorough tier: every seeded change of this property (sub-agent changes, reverse-of-fix patches, own mutants,
    behaviour-preserving variants) is applied to a scratch copy of the tree under analysis and the check is run on
    it.  The outcome is appended to the evidence file; a contradiction is analysis-broken (exit 2) unless the main
    run already found a violation."""
    import json
    from . import selftest
    from .front import VERIF
    res, problems = selftest.liveness(pid)
    evp = os.path.join(VERIF, "evidence", pid + ".json")
    try:
        with open(evp) as f:
            ev = json.load(f)
        ev["coverage"]["liveness"] = [
            {"seed": r["seed"], "expect": r.get("expect", "violation"), "skipped": r.get("skipped"),
             "exit": (r["runs"].get(pid) or {}).get("exit"), "violations": (r["runs"].get(pid) or {}).get("violations", [])[:4]}
            for r in res]
        ev["coverage"]["liveness_problems"] = problems
        with open(evp, "w") as f:
            json.dump(ev, f, indent=1)
    except (OSError, ValueError, KeyError):
        pass
    det = sum(1 for r in res if (r["runs"].get(pid) or {}).get("exit") == 1)
    sil = sum(1 for r in res if r.get("expect") == "silent" and (r["runs"].get(pid) or {}).get("exit") == 0)
    skp = sum(1 for r in res if "skipped" in r)
    print("%s liveness: %d seeded change(s): %d detected, %d behaviour-preserving variant(s) silent, %d skipped (patch "
          "does not apply to this tree)" % (pid, len(res), det, sil, skp))
    for p in problems:
        print("liveness problem: " + p)
    if problems and rc == 0:
        print("ANALYSIS-BROKEN property=%s: a rule went blind or raises a false alarm (see liveness problems)" % pid)
        return 2
    return rc


if __name__ == "__main__":
    sys.exit(main(sys.argv[1:]))
