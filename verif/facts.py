"""Loading and querying the facts extracted by utap-facts."""
import json
import os

from .front import AnalysisBroken


def walk(n):
    """Pre-order walk over every dict node of a facts tree."""
    stack = [n]
    while stack:
        x = stack.pop()
        if isinstance(x, dict):
            yield x
            for v in reversed(list(x.values())):
                if isinstance(v, (dict, list)):
                    stack.append(v)
        elif isinstance(x, list):
            for v in reversed(x):
                if isinstance(v, (dict, list)):
                    stack.append(v)


def find(n, pred):
    return [x for x in walk(n) if pred(x)]


def calls(n, name=None, fn=None):
    out = []
    for x in walk(n):
        if x.get("k") == "call":
            if name is not None and x.get("name") != name:
                continue
            if fn is not None and x.get("fn") != fn:
                continue
            out.append(x)
    return out


def is_call(n, name=None):
    return isinstance(n, dict) and n.get("k") == "call" and (name is None or n.get("name") == name)


def loc(n, fn=None):
    f = n.get("f") or (fn.get("file") if fn else "") or ""
    return "%s:%s" % (f, n.get("l", "?"))


def short(n, depth=0):
    """Compact rendering of an expression for messages and evidence samples."""
    if n is None:
        return "<null>"
    if not isinstance(n, dict):
        return str(n)
    k = n.get("k")
    if k in ("int", "bool", "float", "char"):
        return str(n.get("v")).lower() if k == "bool" else str(n.get("v"))
    if k == "str":
        return json.dumps(n.get("v"))
    if k == "null":
        return "nullptr"
    if k == "this":
        return "this"
    if k == "ref":
        return n.get("name", "?")
    if k == "member":
        b = n.get("base")
        if b is None or b.get("k") == "this":
            return n.get("name", "?")
        return short(b) + ("->" if n.get("arrow") else ".") + n.get("name", "?")
    if k == "call":
        a = ", ".join(short(x) for x in n.get("args", []))
        if n.get("ck") == "op":
            op = n.get("op")
            r = n.get("recv")
            if op == "[]" and r is not None:
                return "%s[%s]" % (short(r), a)
            if r is not None and not n.get("args"):
                return "%s%s" % (op, short(r))
            if r is not None:
                return "(%s %s %s)" % (short(r), op, a)
            return "operator%s(%s)" % (op, a)
        r = n.get("recv")
        if r is not None and r.get("k") != "this":
            return "%s%s%s(%s)" % (short(r), "->" if n.get("arrow") else ".", n.get("name"), a)
        return "%s(%s)" % (n.get("name") or short(n.get("callee")), a)
    if k == "construct":
        return "%s{%s}" % (n.get("t", "?"), ", ".join(short(x) for x in n.get("args", [])))
    if k == "un":
        return (short(n["e"]) + n["op"]) if n.get("post") else (n["op"] + short(n["e"]))
    if k == "bin":
        return "(%s %s %s)" % (short(n["lhs"]), n["op"], short(n["rhs"]))
    if k == "cond":
        return "(%s ? %s : %s)" % (short(n["c"]), short(n["a"]), short(n["b"]))
    if k == "sub":
        return "%s[%s]" % (short(n["base"]), short(n["idx"]))
    if k == "cast":
        return "(%s)%s" % (n.get("t"), short(n["e"]))
    if k == "defarg":
        return "<default:%s>" % short(n["e"])
    if k == "assert":
        return "assert(%s)" % short(n["c"])
    if k == "initlist":
        return "{%s}" % ", ".join(short(x) for x in n.get("e", []))
    if k == "throw":
        return "throw %s" % short(n.get("e"))
    if k == "stdinitlist":
        return short(n.get("e"))
    return "<%s>" % k


class Facts:
    def __init__(self, wd):
        self.wd = wd
        self.units = {}
        self.functions = {}   # (q, sig) -> fn  (first definition seen wins; headers repeat)
        self.by_q = {}        # q -> [fn]
        self.records = {}
        self.enums = {}
        self.globals = {}     # q -> [g]
        fd = os.path.join(wd, "facts")
        for f in sorted(os.listdir(fd)):
            if not f.endswith(".json"):
                continue
            with open(os.path.join(fd, f)) as fh:
                d = json.load(fh)
            self.units[f[:-5]] = d
            for fn in d["functions"]:
                fn["_unit"] = f[:-5]
                key = (fn["q"], fn["sig"], fn["file"], fn["line"])
                if key in self.functions:
                    continue
                self.functions[key] = fn
                self.by_q.setdefault(fn["q"], []).append(fn)
            for r in d["records"]:
                if not r.get("templated") or r["q"] not in self.records:
                    self.records.setdefault(r["q"], r)
            for e in d["enums"]:
                self.enums.setdefault(e["q"], e)
            for g in d["globals"]:
                g["_unit"] = f[:-5]
                self.globals.setdefault(g["q"], []).append(g)
        self.n_units = len(self.units)
        self.n_functions = len(self.functions)

    # ------------------------------------------------------------ lookup
    def fn(self, q, nparams=None, required=True):
        c = self.by_q.get(q, [])
        if nparams is not None:
            c = [f for f in c if len(f["params"]) == nparams]
        if not c:
            if required:
                raise AnalysisBroken("anchor function %s%s not found in facts" %
                                     (q, "" if nparams is None else "/%d" % nparams))
            return None
        return c[0]

    def fns(self, q):
        return self.by_q.get(q, [])

    def record(self, q, required=True):
        r = self.records.get(q)
        if r is None and required:
            raise AnalysisBroken("anchor class %s not found in facts" % q)
        return r

    def enum(self, q, required=True):
        e = self.enums.get(q)
        if e is None and required:
            raise AnalysisBroken("anchor enum %s not found in facts" % q)
        return e

    def enum_value(self, q, name):
        for v in self.enum(q)["values"]:
            if v["name"] == name:
                return v["v"]
        raise AnalysisBroken("enumerator %s::%s not found" % (q, name))

    # ------------------------------------------------------------ classes
    def bases(self, q):
        """All (transitive) bases, nearest first (BFS)."""
        out, todo, seen = [], [q], set()
        while todo:
            c = todo.pop(0)
            r = self.records.get(c)
            if not r:
                continue
            for b in r["bases"]:
                if b not in seen:
                    seen.add(b)
                    out.append(b)
                    todo.append(b)
        return out

    def derives(self, q, base):
        return q == base or base in self.bases(q)

    def subclasses(self, base):
        return [q for q in self.records if q != base and self.derives(q, base)]

    def resolve_method(self, cls, name, nparams=None):
        """Most-derived definition of method `name` seen from class `cls`
        (cls itself, then bases nearest first).  Returns the function facts or None."""
        for c in [cls] + self.bases(cls):
            for f in self.by_q.get(c + "::" + name, []):
                if nparams is None or len(f["params"]) == nparams:
                    return f
        return None

    def method_decl(self, cls, name, nparams=None):
        for c in [cls] + self.bases(cls):
            r = self.records.get(c)
            if not r:
                continue
            for m in r["methods"]:
                if m["name"] == name and (nparams is None or m["nparams"] == nparams):
                    return c, m
        return None, None
