"""Loading and querying the facts extracted by utap-facts."""
import json
import os

from .front import AnalysisBroken


def walk(n):
    """Pre-order walk over every dict node of a facts tree."""
    stack = [n]
    while stack:
        x = stack.pop()
        if isinstance(x, dict):
            yield x
            for v in reversed(list(x.values())):
                if isinstance(v, (dict, list)):
                    stack.append(v)
        elif isinstance(x, list):
            for v in reversed(x):
                if isinstance(v, (dict, list)):
                    stack.append(v)


def find(n, pred):
    return [x for x in walk(n) if pred(x)]


def calls(n, name=None, fn=None):
    out = []
    for x in walk(n):
        if x.get("k") == "call":
            if name is not None and x.get("name") != name:
                continue
            if fn is not None and x.get("fn") != fn:
                continue
            out.append(x)
    return out


def is_call(n, name=None):
    return isinstance(n, dict) and n.get("k") == "call" and (name is None or n.get("name") == name)


def loc(n, fn=None):
    f = n.get("f") or (fn.get("file") if fn else "") or ""
    return "%s:%s" % (f, n.get("l", "?"))


def short(n, depth=0):
    """Compact rendering of an expression for messages and evidence samples."""
    if n is None:
        return "<null>"
    if not isinstance(n, dict):
        return str(n)
    k = n.get("k")
    if k in ("int", "bool", "float", "char"):
        return str(n.get("v")).lower() if k == "bool" else str(n.get("v"))
    if k == "str":
        return json.dumps(n.get("v"))
    if k == "null":
        return "nullptr"
    if k == "this":
        return "this"
    if k == "ref":
        return n.get("name", "?")
    if k == "member":
        b = n.get("base")
        if b is None or b.get("k") == "this":
            return n.get("name", "?")
        return short(b) + ("->" if n.get("arrow") else ".") + n.get("name", "?")
    if k == "call":
        a = ", ".join(short(x) for x in n.get("args", []))
        if n.get("ck") == "op":
            op = n.get("op")
            r = n.get("recv")
            if op == "[]" and r is not None:
                return "%s[%s]" % (short(r), a)
            if r is not None and not n.get("args"):
                return "%s%s" % (op, short(r))
            if r is not None:
                return "(%s %s %s)" % (short(r), op, a)
            return "operator%s(%s)" % (op, a)
        r = n.get("recv")
        if r is not None and r.get("k") != "this":
            return "%s%s%s(%s)" % (short(r), "->" if n.get("arrow") else ".", n.get("name"), a)
        return "%s(%s)" % (n.get("name") or short(n.get("callee")), a)
    if k == "construct":
        return "%s{%s}" % (n.get("t", "?"), ", ".join(short(x) for x in n.get("args", [])))
    if k == "un":
        return (short(n["e"]) + n["op"]) if n.get("post") else (n["op"] + short(n["e"]))
    if k == "bin":
        return "(%s %s %s)" % (short(n["lhs"]), n["op"], short(n["rhs"]))
    if k == "cond":
        return "(%s ? %s : %s)" % (short(n["c"]), short(n["a"]), short(n["b"]))
    if k == "sub":
        return "%s[%s]" % (short(n["base"]), short(n["idx"]))
    if k == "cast":
        return "(%s)%s" % (n.get("t"), short(n["e"]))
    if k == "defarg":
        return "<default:%s>" % short(n["e"])
    if k == "assert":
        return "assert(%s)" % short(n["c"])
    if k == "initlist":
        return "{%s}" % ", ".join(short(x) for x in n.get("e", []))
    if k == "throw":
        return "throw %s" % short(n.get("e"))
    if k == "stdinitlist":
        return short(n.get("e"))
    if k == "inlined":
        rets = [short(x.get("e")) for x in walk(n.get("body")) if x.get("k") == "cret" and x.get("e") is not None]
        return "%s{%s}" % (n.get("name"), " | ".join(rets)[:200])
    if k == "cret":
        return "return " + short(n.get("e"))
    return "<%s>" % k


class Facts:
    def __init__(self, wd):
        self.wd = wd
        self.units = {}
        self.functions = {}   # (q, sig) -> fn  (first definition seen wins; headers repeat)
        self.by_q = {}        # q -> [fn]
        self.records = {}
        self.enums = {}
        self.globals = {}     # q -> [g]
        fd = os.path.join(wd, "facts")
        for f in sorted(os.listdir(fd)):
            if not f.endswith(".json"):
                continue
            with open(os.path.join(fd, f)) as fh:
                d = json.load(fh)
            self.units[f[:-5]] = d
            for fn in d["functions"]:
                fn["_unit"] = f[:-5]
                key = (fn["q"], fn["sig"], fn["file"], fn["line"])
                if key in self.functions:
                    continue
                self.functions[key] = fn
                self.by_q.setdefault(fn["q"], []).append(fn)
                if fn.get("templated") and fn.get("body") is not None:
                    # a member call on a dependent operand (`v.push_back(f(x))` in a template pattern) has no resolved
                    # callee; give it the shape of a member call so that rules reading names and receivers see it
                    for c in walk(fn["body"]):
                        ce = c.get("callee")
                        if c.get("k") == "call" and c.get("ck") == "indirect" and isinstance(ce, dict) and \
                                ce.get("k") == "member" and ce.get("dep"):
                            c["ck"], c["name"], c["recv"], c["dep"] = "member", ce.get("name"), ce.get("base"), True
            for r in d["records"]:
                if not r.get("templated") or r["q"] not in self.records:
                    self.records.setdefault(r["q"], r)
            for e in d["enums"]:
                self.enums.setdefault(e["q"], e)
            for g in d["globals"]:
                g["_unit"] = f[:-5]
                self.globals.setdefault(g["q"], []).append(g)
        global CURRENT
        CURRENT = self
        self.n_units = len(self.units)
        self.n_functions = len(self.functions)

    # ------------------------------------------------------------ lookup
    def fn(self, q, nparams=None, required=True):
        c = self.by_q.get(q, [])
        if nparams is not None:
            c = [f for f in c if len(f["params"]) == nparams]
        if not c:
            if required:
                raise AnalysisBroken("anchor function %s%s not found in facts" %
                                     (q, "" if nparams is None else "/%d" % nparams))
            return None
        return c[0]

    def fns(self, q):
        return self.by_q.get(q, [])

    def memptr_target(self, mp, depth=0):
        """(method name, qualified name) a pointer-to-member expression denotes when that is fixed by the source:
        `&C::m`, or a field of a constant aggregate initialised with such pointers (`dynamic_forall.begin`)"""
        while isinstance(mp, dict) and mp.get("k") in ("cast", "paren", "materialize"):
            mp = mp.get("e")
        if not isinstance(mp, dict) or depth > 4:
            return None
        if mp.get("k") == "un" and mp.get("op") == "&" and isinstance(mp.get("e"), dict) and mp["e"].get("dk") == "func":
            return mp["e"].get("name"), mp["e"].get("q")
        if mp.get("k") == "member" and isinstance(mp.get("base"), dict):
            b = mp["base"]
            while b.get("k") in ("cast", "paren", "materialize") and isinstance(b.get("e"), dict):
                b = b["e"]
            if b.get("k") == "ref" and b.get("dk") == "global":
                for g in self.globals.get(b.get("q") or b.get("name"), []):
                    init = g.get("init")
                    rec = self.records.get(mp.get("of") or "") or self.records.get((g.get("ct") or "").replace("const ", ""))
                    if isinstance(init, dict) and init.get("k") == "initlist" and rec:
                        names = [f_["name"] for f_ in rec.get("fields", [])]
                        if mp.get("name") in names and names.index(mp["name"]) < len(init.get("e", [])):
                            return self.memptr_target(init["e"][names.index(mp["name"])], depth + 1)
        return None

    # normal form (helpers put back, see inline.normalize_fn); cached per function object
    def normal(self, fn):
        from .inline import normalize_fn
        if fn is None or fn.get("body") is None:
            return fn
        cache = self.__dict__.setdefault("_normal", {})
        key = id(fn)
        if key not in cache:
            cache[key] = normalize_fn(fn, self)
        return cache[key]

    def nfn(self, q, nparams=None, required=True):
        return self.normal(self.fn(q, nparams, required))

    def nfns(self, q):
        return [self.normal(f) for f in self.fns(q)]

    def record(self, q, required=True):
        r = self.records.get(q)
        if r is None and required:
            raise AnalysisBroken("anchor class %s not found in facts" % q)
        return r

    def enum(self, q, required=True):
        e = self.enums.get(q)
        if e is None and required:
            raise AnalysisBroken("anchor enum %s not found in facts" % q)
        return e

    def enum_value(self, q, name):
        for v in self.enum(q)["values"]:
            if v["name"] == name:
                return v["v"]
        raise AnalysisBroken("enumerator %s::%s not found" % (q, name))

    # ------------------------------------------------------------ classes
    def bases(self, q):
        """All (transitive) bases, nearest first (BFS)."""
        out, todo, seen = [], [q], set()
        while todo:
            c = todo.pop(0)
            r = self.records.get(c)
            if not r:
                continue
            for b in r["bases"]:
                if b not in seen:
                    seen.add(b)
                    out.append(b)
                    todo.append(b)
        return out

    def derives(self, q, base):
        return q == base or base in self.bases(q)

    def subclasses(self, base):
        return [q for q in self.records if q != base and self.derives(q, base)]

    def resolve_method(self, cls, name, nparams=None):
        """Most-derived definition of method `name` seen from class `cls`
        (cls itself, then bases nearest first).  Returns the function facts or None."""
        for c in [cls] + self.bases(cls):
            for f in self.by_q.get(c + "::" + name, []):
                if nparams is None or len(f["params"]) == nparams:
                    return f
        return None

    def method_decl(self, cls, name, nparams=None):
        for c in [cls] + self.bases(cls):
            r = self.records.get(c)
            if not r:
                continue
            for m in r["methods"]:
                if m["name"] == name and (nparams is None or m["nparams"] == nparams):
                    return c, m
        return None, None


# ---------------------------------------------------------------------------------------------- normalisation
CURRENT = None      # the Facts object of this run (set by Facts.__init__), for rule helpers that only get a function


def _single_call_site(F, q):
    cache = F.__dict__.setdefault("_callsite_count", None)
    if cache is None:
        cache = {}
        for g in F.functions.values():
            for c in calls(g.get("body")):
                if c.get("fn"):
                    cache[c["fn"]] = cache.get(c["fn"], 0) + 1
        F.__dict__["_callsite_count"] = cache
    return cache.get(q, 0) == 1


def _few_call_sites(F, q, n=2):
    """at most n call sites in the whole program: a part shared by sibling entry points (visitInstance and
    visitInstanceLine both hand their instance to checkArguments)"""
    _single_call_site(F, q)
    return 1 <= F.__dict__["_callsite_count"].get(q, 0) <= n


def inline_stmt_calls(fn, F, depth=0):
    """A copy of function facts `fn` in which every *expression statement* that is a call of
         - a lambda object declared in the same function (`const auto check = [&](..) {..}; check(a, b);`), or
         - a file-local free function with a body in the same source file
    is replaced by the callee's body with the parameters substituted by the argument expressions.  Rules that match
    statement shapes (an error-reporting `if`, a call that must dominate another) then see through such helpers.
    A callee that contains `return` with a value, or recursion, is left alone."""
    import copy
    body = fn.get("body")
    if body is None:
        return fn
    lambdas = {}
    for d in walk(body):
        if d.get("k") == "decl":
            for v in d.get("vars", []):
                init = v.get("init")
                while isinstance(init, dict) and init.get("k") == "cast":
                    init = init["e"]
                if isinstance(init, dict) and init.get("k") == "lambda" and init.get("params") is not None:
                    lambdas[v.get("id")] = init

    def subst(n, env):
        if isinstance(n, list):
            return [subst(x, env) for x in n]
        if not isinstance(n, dict):
            return n
        if n.get("k") == "ref" and n.get("dk") == "param" and n.get("name") in env:
            return env[n["name"]]
        out = {k: subst(v, env) if isinstance(v, (dict, list)) else v for k, v in n.items()}
        if out.get("k") == "call" and out.get("ck") == "indirect" and isinstance(out.get("callee"), dict):
            ce = out["callee"]
            while ce.get("k") in ("cast", "paren") and isinstance(ce.get("e"), dict):
                ce = ce["e"]
            if ce.get("k") == "un" and ce.get("op") in ("&", "*") and isinstance(ce.get("e"), dict):
                ce = ce["e"]
            if ce.get("k") == "ref" and ce.get("dk") == "func":
                # a call through a function-pointer parameter that was bound to a named function: `pred(label)` with
                # pred := is_guard is the direct call is_guard(label)
                out = dict(out, ck="free", name=ce.get("name"), fn=ce.get("q") or ce.get("name"))
                out.pop("callee", None)
        return out

    def splice(ss, then, depth=0):
        """the statements of a value-returning lambda body with `return true;` replaced by `then` and `return false;` by
        nothing; statements after an `if` that returns are copied into its branches.  None if a return has another
        value or the nesting is too deep."""
        out = []
        for i, st in enumerate(ss):
            k = st.get("k") if isinstance(st, dict) else None
            if k == "return":
                e = st.get("e")
                while isinstance(e, dict) and e.get("k") in ("cast", "paren"):
                    e = e["e"]
                if isinstance(e, dict) and e.get("k") == "bool":
                    return out + (copy.deepcopy(then) if e["v"] else [])
                return None
            if k == "block":
                r = splice(list(st.get("s", [])) + ss[i + 1:], then, depth)
                return None if r is None else out + r
            if k == "if" and any(x.get("k") == "return" for x in walk(st)) and depth < 6:
                rest = ss[i + 1:]
                th = st.get("then")
                th_ss = th.get("s", []) if isinstance(th, dict) and th.get("k") == "block" else ([th] if th is not None else [])
                el = st.get("else")
                el_ss = el.get("s", []) if isinstance(el, dict) and el.get("k") == "block" else ([el] if el is not None else [])
                a = splice(list(th_ss) + rest, then, depth + 1)
                b = splice(list(el_ss) + rest, then, depth + 1)
                if a is None or b is None:
                    return None
                node = {"k": "if", "l": st.get("l"), "c": st["c"], "then": {"k": "block", "s": a}}
                if b:
                    node["else"] = {"k": "block", "s": b}
                return out + [node]
            if isinstance(st, dict) and any(x.get("k") == "return" for x in walk(st)):
                return None         # a return inside a loop etc.
            out.append(st)
        return out + copy.deepcopy(then)        # fell off the end (void lambda)

    def fold_if(n):
        """`if (A && lam(args)) THEN` (no else) with a local bool lambda: `if (A) { body of lam with THEN where it
        returns true }`"""
        if n.get("else") is not None:
            return None
        parts = []

        def flat(c):
            c0 = c
            while isinstance(c0, dict) and c0.get("k") in ("paren",):
                c0 = c0["e"]
            if isinstance(c0, dict) and c0.get("k") == "bin" and c0.get("op") == "&&":
                flat(c0["lhs"])
                flat(c0["rhs"])
            else:
                parts.append(c0)
        flat(n["c"])
        if not parts:
            return None
        last = parts[-1]
        ce = callee_of(last) if isinstance(last, dict) else None
        if ce is None:
            return None
        params, cbody = ce
        env = dict(zip(params, last.get("args", [])))
        body = subst(copy.deepcopy(cbody), env)
        th = n.get("then")
        th_ss = th.get("s", []) if isinstance(th, dict) and th.get("k") == "block" else ([th] if th is not None else [])
        sp = splice(list(body.get("s", [])) if body.get("k") == "block" else [body], list(th_ss))
        if sp is None:
            return None
        inner = {"k": "block", "l": n.get("l"), "inlined_from": short(last)[:40], "s": sp}
        if len(parts) == 1:
            return inner
        cond = parts[0]
        for p_ in parts[1:-1]:
            cond = {"k": "bin", "op": "&&", "lhs": cond, "rhs": p_, "l": n.get("l")}
        return {"k": "if", "l": n.get("l"), "c": cond, "then": inner}

    def callee_of(c):
        if c.get("k") != "call":
            return None
        if c.get("ck") == "op" and c.get("op") == "()" and (c.get("recv") or {}).get("k") == "ref":
            lam = lambdas.get(c["recv"].get("id"))
            if lam is not None:
                return [p["name"] for p in lam["params"]], lam["body"]
        if c.get("ck") in ("free", "static") and c.get("fn") and depth < 2:
            for t in F.fns(c["fn"]):
                if t.get("body") is not None and t.get("file") == fn.get("file") and t["q"] != fn["q"] and \
                        len(t["params"]) == len(c.get("args", [])) and t.get("static"):
                    return [p["name"] for p in t["params"]], t["body"]
        if c.get("ck") == "member" and c.get("fn") and (c.get("recv") is None or (c.get("recv") or {}).get("k") == "this") \
                and depth < 2 and fn.get("cls") and c.get("fn", "").rsplit("::", 1)[0] == fn.get("cls"):
            # a member of the same class with this one call site in the whole program: a part split off this function
            # (`visitLocation` -> `checkInvariant(loc)`), not an interface of its own
            for t in F.fns(c["fn"]):
                if t.get("body") is not None and t.get("file") == fn.get("file") and t["q"] != fn["q"] and \
                        len(t["params"]) == len(c.get("args", [])) and not t.get("virtual") and \
                        (_single_call_site(F, t["q"]) or (_few_call_sites(F, t["q"]) and
                                                          not any(x.get("fn") in (t["q"], fn["q"]) for x in calls(t["body"])))):
                    return [p["name"] for p in t["params"]], t["body"]
        return None

    def rec(n):
        if isinstance(n, list):
            out = []
            for x in n:
                r = rec(x)
                out.append(r)
            return out
        if not isinstance(n, dict):
            return n
        if n.get("k") == "call":
            ce = callee_of(n)
            if ce is not None:
                params, cbody = ce
                if not any(x.get("k") == "return" and x.get("e") is not None for x in walk(cbody)):
                    env = dict(zip(params, n.get("args", [])))
                    # call by value: an argument that is a computation (`instance.mapping[parameter]`, a call) is
                    # evaluated once and named by the parameter - a local of the spliced block - instead of being
                    # repeated at every use of the parameter
                    pre = []
                    for pn, a in list(env.items()):
                        core = a
                        while isinstance(core, dict) and (core.get("k") in ("cast", "materialize", "paren", "defarg") or
                                                          (core.get("k") == "construct" and len(core.get("args", [])) == 1)):
                            core = core["e"] if core.get("k") != "construct" else core["args"][0]
                        if isinstance(core, dict) and core.get("k") in ("call", "bin", "cond") and \
                                not (core.get("k") == "call" and core.get("ck") == "member" and not core.get("args") and
                                     core.get("name", "").startswith(("get_", "is_"))):
                            vid = ("inl", id(n), pn)
                            t_ = (a.get("t") or core.get("t") or "")
                            pre.append({"k": "decl", "l": n.get("l"),
                                        "vars": [{"name": pn, "id": vid, "t": t_, "ct": t_, "init": a}]})
                            env[pn] = {"k": "ref", "name": pn, "dk": "local", "id": vid, "t": t_, "l": n.get("l")}
                    return {"k": "block", "l": n.get("l"), "inlined_from": short(n)[:40],
                            "s": pre + rec(subst(copy.deepcopy(cbody), env)).get("s", [])}
                # a bool lambda called for its effects only: its body with the returns dropped
                env = dict(zip(params, n.get("args", [])))
                body = subst(copy.deepcopy(cbody), env)
                sp = splice(list(body.get("s", [])) if body.get("k") == "block" else [body], [])
                if sp is not None:
                    return {"k": "block", "l": n.get("l"), "inlined_from": short(n)[:40], "s": sp}
        return {k: rec(v) if isinstance(v, (dict, list)) and k != "params" else v for k, v in n.items()}

    def stmts(n):
        """rewrite only statement positions"""
        if isinstance(n, list):
            return [stmts(x) for x in n]
        if not isinstance(n, dict):
            return n
        k = n.get("k")
        if k == "call":
            return rec(n)
        if k == "block":
            return dict(n, s=[stmts(x) for x in n.get("s", [])])
        if k == "if":
            folded = fold_if(n)
            if folded is not None:
                return stmts(folded)
            return dict(n, then=stmts(n.get("then")), **({"else": stmts(n["else"])} if n.get("else") is not None else {}))
        if k in ("for", "while", "do", "rangefor", "switch"):
            return dict(n, body=stmts(n.get("body")))
        if k in ("case", "default", "attributed", "label"):
            return dict(n, s=stmts(n.get("s")))
        if k == "try":
            return dict(n, body=stmts(n.get("body")))
        return n
    new = dict(fn)
    new["body"] = stmts(body)
    return new


def inline_tail_delegate(fn, F, depth=0):
    """A copy of `fn` whose final `return helper(args...)` - helper a function (or member-function template pattern) of
    the analysed tree with a body - is replaced by the helper's body: parameters are substituted by the argument
    expressions, `this` by the receiver, and a call through a parameter bound to a single-`return` lambda by that
    lambda's result expression.  Functions that only forward to a shared worker (`clone()` ->
    `data->clone_with(identity, identity)`) are then judged by what the worker does with their arguments.
    Returns `fn` unchanged when the tail is not such a delegation."""
    import copy
    body = fn.get("body")
    if body is None or depth > 2:
        return fn
    ss = body.get("s", [])
    if not ss or ss[-1].get("k") != "return" or ss[-1].get("e") is None:
        return fn
    call = ss[-1]["e"]
    while call.get("k") in ("cast", "paren") or (call.get("k") == "construct" and len(call.get("args", [])) == 1 and
                                                   call.get("copy")):
        call = call["e"] if call.get("k") != "construct" else call["args"][0]
    if call.get("k") != "call" or not call.get("fn") or call.get("ck") == "op":
        return fn
    pre = ss[:-1]

    def empty_guard(s_):
        """`if (empty()) return ..;` - the early exit for the empty node in front of the delegation"""
        if s_.get("k") != "if" or s_.get("else") is not None:
            return False
        c_ = s_["c"]
        while isinstance(c_, dict) and c_.get("k") in ("cast", "paren"):
            c_ = c_["e"]
        t_ = s_["then"]
        t_ = t_["s"][0] if t_.get("k") == "block" and len(t_.get("s", [])) == 1 else t_
        return isinstance(c_, dict) and c_.get("k") == "call" and c_.get("name") == "empty" and t_.get("k") == "return"
    if any(s.get("k") != "decl" and not empty_guard(s) for s in pre):
        return fn
    lambdas = {}
    for d in pre:
        for v in d.get("vars", []) if d.get("k") == "decl" else []:
            init = v.get("init")
            while isinstance(init, dict) and init.get("k") == "cast":
                init = init["e"]
            if isinstance(init, dict) and init.get("k") == "lambda":
                lambdas[v.get("id")] = init
    cands = [t for t in F.fns(call["fn"]) if t.get("body") is not None and t["q"] != fn["q"] and
             len(t["params"]) == len(call.get("args", [])) and not t.get("file", "").startswith("/usr")]
    if len(cands) != 1:
        return fn
    callee = cands[0]
    env = {}
    for p, a in zip(callee["params"], call["args"]):
        while isinstance(a, dict) and a.get("k") in ("cast", "materialize"):
            a = a["e"]
        if a.get("k") == "ref" and a.get("id") in lambdas:
            a = lambdas[a["id"]]
        env[p["name"]] = a
    recv = call.get("recv")

    def subst(n, env, recv):
        if isinstance(n, list):
            return [subst(x, env, recv) for x in n]
        if not isinstance(n, dict):
            return n
        if n.get("k") == "ref" and n.get("dk") == "param" and n.get("name") in env:
            return env[n["name"]]
        if n.get("k") == "this" and recv is not None:
            return recv
        if n.get("k") == "lambda":
            inner = {k: v for k, v in env.items() if k not in {p["name"] for p in n.get("params") or []}}
            return dict(n, body=subst(n.get("body"), inner, recv))
        out = {k: subst(v, env, recv) if isinstance(v, (dict, list)) else v for k, v in n.items()}
        if out.get("k") == "call":
            tgt = out.get("callee") if out.get("ck") == "indirect" else \
                (out.get("recv") if out.get("ck") == "op" and out.get("op") == "()" else None)
            while isinstance(tgt, dict) and tgt.get("k") == "cast":
                tgt = tgt["e"]
            if isinstance(tgt, dict) and tgt.get("k") == "lambda" and tgt.get("params") is not None:
                lb = tgt.get("body", {}).get("s", [])
                if len(lb) == 1 and lb[0].get("k") == "return" and lb[0].get("e") is not None and \
                        len(tgt["params"]) == len(out.get("args", [])):
                    lenv = {p["name"]: a for p, a in zip(tgt["params"], out["args"])}
                    return subst(copy.deepcopy(lb[0]["e"]), lenv, None)
        return out
    new = dict(fn)
    new["body"] = dict(body, s=pre + subst(copy.deepcopy(callee["body"]), env, recv).get("s", []))
    new["inlined_from"] = callee["q"]
    return inline_tail_delegate(new, F, depth + 1) if depth < 2 else new
