"""A model of the flex scanner built from the Lexer IR (parsed patterns, start conditions, the BEGIN() assignments
found in the type-resolved actions): longest match, earliest rule on ties, exclusive start conditions.  Used to decide
lexical clauses by *bounded exhaustive simulation of the model* over a small alphabet - no library code is executed.
"""
from functools import lru_cache

from .facts import walk


def ends(p, s, i):
    """set of end positions of matches of pattern p in s starting at i"""
    k = p[0]
    if k == "lit":
        return {i + 1} if i < len(s) and s[i] == p[1] else set()
    if k == "class":
        return {i + 1} if i < len(s) and ((s[i] in p[1]) != p[2]) else set()
    if k == "cat":
        cur = {i}
        for x in p[1]:
            nxt = set()
            for j in cur:
                nxt |= ends(x, s, j)
            cur = nxt
            if not cur:
                break
        return cur
    if k == "alt":
        out = set()
        for x in p[1]:
            out |= ends(x, s, i)
        return out
    if k == "opt":
        return {i} | ends(p[1], s, i)
    if k in ("star", "plus"):
        out = {i} if k == "star" else set()
        frontier = {i}
        seen = set()
        while frontier:
            nxt = set()
            for j in frontier:
                for e in ends(p[1], s, j):
                    if e not in seen and e > j:
                        seen.add(e)
                        nxt.add(e)
            out |= nxt
            frontier = nxt
        return out
    if k == "rep":
        cur = {i}
        out = set()
        lo, hi = p[2], p[3]
        n = 0
        while cur and (hi is None or n < hi) and n < len(s) + 1:
            if n >= lo:
                out |= cur
            nxt = set()
            for j in cur:
                nxt |= {e for e in ends(p[1], s, j) if e > j or n < lo}
            cur = nxt
            n += 1
        if cur and n >= lo:
            out |= cur
        return out
    return set()


class FlexModel:
    def __init__(self, L):
        self.L = L
        self.exclusive = set(L.exclusive)
        self.rules = [r for r in L.rules if not r.eof]
        self.begin = {}
        for r in L.rules:
            tgt = None
            if r.action is not None:
                for x in walk(r.action):
                    if x.get("k") == "bin" and x.get("op") == "=" and x["lhs"].get("k") == "ref" and \
                            x["lhs"].get("name") == "yy_start" and x["rhs"].get("cv") is not None:
                        tgt = (x["rhs"]["cv"] - 1) // 2
            self.begin[id(r)] = tgt
        # start condition numbering: INITIAL = 0, then the declared ones in order
        self.sc_names = ["INITIAL"] + list(L.exclusive)

    def active(self, r, sc):
        scs = r.sc.split(",")
        if "*" in scs or sc in scs:
            return True
        return False

    def step(self, text, i, sc):
        """(rule, end) of the scanner's next match at position i in start condition sc, or None."""
        best, bl = None, -1
        for r in self.rules:
            if not self.active(r, sc):
                continue
            es = ends(r.pat, text, i)
            es.discard(i)
            if es:
                m = max(es)
                if m > bl:
                    best, bl = r, m
        return (best, bl) if best is not None else None

    def run(self, text, sc="INITIAL"):
        """[(position, rule, end, start condition after)]"""
        out = []
        i = 0
        while i < len(text):
            st = self.step(text, i, sc)
            if st is None:
                out.append((i, None, i + 1, sc))
                i += 1
                continue
            r, e = st
            b = self.begin[id(r)]
            if b is not None:
                sc = self.sc_names[b] if 0 <= b < len(self.sc_names) else sc
            out.append((i, r, e, sc))
            i = e
        return out, sc
