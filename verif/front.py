"""Front end: regenerate lexer/parser with the build's own generators and extract
facts (utap-facts, clang libTooling) from /repo's *current working tree*.

Nothing is taken from /repo/_build.  Results are cached under
/verif/.work/<sha256 of inputs>; any edit under /repo/src or /repo/include (or to
the extractor) changes the key.
"""
import hashlib
import json
import os
import shutil
import subprocess
import sys
import time
from concurrent.futures import ThreadPoolExecutor

VERIF = os.path.dirname(os.path.dirname(os.path.abspath(__file__)))
REPO = os.environ.get("UTAP_REPO", "/repo")
WORK = os.path.join(VERIF, ".work")
TOOL = os.path.join(VERIF, "bin", "utap-facts")
RESOURCE_DIR = "/usr/lib/llvm-14/lib/clang/14.0.6"
GUARD = "UTAP_VERIF"


class AnalysisBroken(Exception):
    """An anchor vanished / extraction failed: exit code 2, never a pass or a violation."""


def _sha_tree(paths):
    h = hashlib.sha256()
    for root in paths:
        if os.path.isfile(root):
            files = [root]
        else:
            files = []
            for dp, dn, fn in os.walk(root):
                dn.sort()
                for f in sorted(fn):
                    files.append(os.path.join(dp, f))
        for f in files:
            h.update(f.encode())
            h.update(b"\0")
            with open(f, "rb") as fh:
                h.update(fh.read())
            h.update(b"\0")
    return h.hexdigest()


def tree_key():
    return _sha_tree([os.path.join(REPO, "src"), os.path.join(REPO, "include"), TOOL,
                      os.path.join(VERIF, "tools", "utap-facts.cc")])[:24]


def source_units():
    src = os.path.join(REPO, "src")
    return sorted(os.path.join(src, f) for f in os.listdir(src) if f.endswith(".cpp"))


def flags(gen):
    return ["-std=gnu++17", "-D" + GUARD, "-UNDEBUG",
            "-I" + os.path.join(gen, "include"), "-I" + gen,
            "-I" + os.path.join(REPO, "src"), "-I" + os.path.join(REPO, "include"),
            "-isystem", "/usr/include/libxml2", "-resource-dir", RESOURCE_DIR,
            "-Wno-everything"]


def _run(cmd, **kw):
    p = subprocess.run(cmd, stdout=subprocess.PIPE, stderr=subprocess.STDOUT, text=True, **kw)
    return p.returncode, p.stdout


def _gen(gen):
    os.makedirs(os.path.join(gen, "include"), exist_ok=True)
    src = os.path.join(REPO, "src")
    rc, out = _run(["flex", "--outfile=" + os.path.join(gen, "lexer.cc"), "-Putap_", os.path.join(src, "lexer.l")])
    if rc != 0:
        raise AnalysisBroken("flex failed on lexer.l:\n" + out)
    rc, out = _run(["bison", "-putap_", "-bparser", os.path.join(src, "parser.y"),
                    "--output=" + os.path.join(gen, "parser.cpp"),
                    "--defines=" + os.path.join(gen, "include", "parser.hpp"),
                    "--xml=" + os.path.join(gen, "parser.xml")])
    if rc != 0:
        raise AnalysisBroken("bison failed on parser.y:\n" + out)
    with open(os.path.join(gen, "bison.log"), "w") as f:
        f.write(out)


def _facts_one(args):
    src, out, gen = args
    roots = REPO + "/," + gen + "/"
    cmd = [TOOL, out + ".tmp", roots, src, "--"] + flags(gen)
    rc, log = _run(cmd)
    if rc != 0 or not os.path.exists(out + ".tmp"):
        return src, rc or 1, log
    os.replace(out + ".tmp", out)
    return src, 0, log


def _prune(keep):
    if not os.path.isdir(WORK):
        return
    # other checks may be running on other trees (seed matrix, liveness self-test): never remove a cache that was used
    # in the last half hour, and tolerate entries that vanish while we look
    def mtime(d):
        try:
            return os.path.getmtime(d)
        except OSError:
            return 0.0
    now = time.time()
    ds = [os.path.join(WORK, d) for d in os.listdir(WORK) if os.path.isdir(os.path.join(WORK, d))]
    ds.sort(key=mtime, reverse=True)
    for d in ds[48:]:
        if os.path.basename(d) != keep and now - mtime(d) > 1800:
            shutil.rmtree(d, ignore_errors=True)
            try:
                os.remove(d + ".lock")
            except OSError:
                pass
    for f in os.listdir(WORK):           # lock files of caches that are gone
        if f.endswith(".lock") and not os.path.isdir(os.path.join(WORK, f[:-5])):
            p = os.path.join(WORK, f)
            try:
                if now - os.path.getmtime(p) > 1800:
                    os.remove(p)
            except OSError:
                pass


def prepare(verbose=False):
    """Returns the work directory holding gen/ and facts/ for the current tree."""
    if not os.path.exists(TOOL):
        raise AnalysisBroken("bin/utap-facts missing: run ./setup.sh")
    key = tree_key()
    wd = os.path.join(WORK, key)
    stamp = os.path.join(wd, "ok")
    if os.path.exists(stamp):
        os.utime(wd)
        return wd
    os.makedirs(WORK, exist_ok=True)
    import fcntl
    lock = open(os.path.join(WORK, key + ".lock"), "w")
    fcntl.flock(lock, fcntl.LOCK_EX)      # two checks started together on the same tree: one extracts, one waits
    if os.path.exists(stamp):
        return wd
    t0 = time.time()
    if os.path.isdir(wd):
        shutil.rmtree(wd)
    gen = os.path.join(wd, "gen")
    facts = os.path.join(wd, "facts")
    os.makedirs(gen)
    os.makedirs(facts)
    _gen(gen)
    units = source_units() + [os.path.join(gen, "parser.cpp")]
    jobs = [(u, os.path.join(facts, os.path.basename(u) + ".json"), gen) for u in units]
    with ThreadPoolExecutor(max_workers=min(16, os.cpu_count() or 4)) as ex:
        res = list(ex.map(_facts_one, jobs))
    bad = [(s, log) for s, rc, log in res if rc != 0]
    if bad:
        msg = "\n".join("%s:\n%s" % (s, log[-3000:]) for s, log in bad)
        raise AnalysisBroken("utap-facts failed (the tree does not compile?):\n" + msg)
    with open(os.path.join(wd, "units.json"), "w") as f:
        json.dump({"units": units, "seconds": time.time() - t0}, f)
    open(stamp, "w").close()
    _prune(key)
    if verbose:
        print("front end: %d units in %.1fs -> %s" % (len(units), time.time() - t0, wd), file=sys.stderr)
    return wd


if __name__ == "__main__":
    print(prepare(verbose=True))
