"""Grammar IR: rules, terminals and the complete LALR(1) automaton from bison's XML
report, plus the semantic action of every rule taken from the type-resolved syntax
tree of the generated yyparse() (so `$k`/`@k` are already resolved to yyvsp[k-n]).
"""
import os
import xml.etree.ElementTree as ET

from .front import AnalysisBroken
from .facts import walk, short


class Rule:
    __slots__ = ("num", "lhs", "rhs", "prec", "useful", "action", "calls", "host", "host_pos", "line")

    def __init__(self, num, lhs, rhs, prec, useful):
        self.num, self.lhs, self.rhs, self.prec, self.useful = num, lhs, rhs, prec, useful
        self.action = None      # facts subtree (block) or None
        self.calls = []         # [Call]
        self.host = None        # for mid-rule rules: enclosing Rule
        self.host_pos = None    # number of symbols of the host before the mid-rule action
        self.line = None

    @property
    def sig(self):
        return "%s -> %s" % (self.lhs, " ".join(self.rhs) if self.rhs else "%empty")

    def __repr__(self):
        return "r%d: %s" % (self.num, self.sig)


class Call:
    """One CALL(@i, @j, cb(args)) in an action."""
    __slots__ = ("rule", "first", "last", "name", "args", "node", "line", "order")

    def __init__(self, rule, first, last, name, args, node, line, order):
        self.rule, self.first, self.last, self.name, self.args = rule, first, last, name, args
        self.node, self.line, self.order = node, line, order


class State:
    __slots__ = ("num", "items", "shifts", "gotos", "reductions", "default", "solved", "errors")

    def __init__(self, num):
        self.num = num
        self.items = []        # (rule, dot)
        self.shifts = {}       # terminal -> state
        self.gotos = {}        # nonterminal -> state
        self.reductions = {}   # lookahead -> [rule] (enabled ones)
        self.default = None    # rule number of $default reduction
        self.solved = []       # (rule, symbol, type)
        self.errors = set()


class Grammar:
    def __init__(self, wd, facts):
        self.wd = wd
        xmlp = os.path.join(wd, "gen", "parser.xml")
        try:
            root = ET.parse(xmlp).getroot()
        except Exception as e:  # noqa
            raise AnalysisBroken("cannot read bison XML report: %s" % e)
        g = root.find("grammar")
        self.rules = []
        for r in g.find("rules"):
            rhs = [s.text for s in r.find("rhs") if s.tag == "symbol"]
            self.rules.append(Rule(int(r.get("number")), r.find("lhs").text, rhs,
                                   r.get("percent_prec"), r.get("usefulness") == "useful"))
        self.terminals = {}
        for t in g.find("terminals"):
            self.terminals[t.get("name")] = {
                "prec": int(t.get("prec")) if t.get("prec") else None,
                "assoc": t.get("assoc"), "num": int(t.get("symbol-number")),
                "useful": t.get("usefulness") == "useful"}
        self.nonterminals = {n.get("name"): int(n.get("symbol-number")) for n in g.find("nonterminals")}
        self.states = []
        for s in root.find("automaton"):
            st = State(int(s.get("number")))
            for it in s.find("itemset"):
                st.items.append((int(it.get("rule-number")), int(it.get("dot"))))
            acts = s.find("actions")
            for tr in acts.find("transitions"):
                (st.shifts if tr.get("type") == "shift" else st.gotos)[tr.get("symbol")] = int(tr.get("state"))
            for er in acts.find("errors"):
                st.errors.add(er.get("symbol"))
            for rd in acts.find("reductions"):
                if rd.get("enabled") != "true":
                    continue
                rule = rd.get("rule")
                rule = -1 if rule == "accept" else int(rule)
                if rd.get("symbol") == "$default":
                    st.default = rule
                else:
                    st.reductions.setdefault(rd.get("symbol"), []).append(rule)
            sc = s.find("solved-conflicts")
            if sc is not None:
                for r in sc:
                    st.solved.append((int(r.get("rule")), r.get("symbol"), r.get("type")))
            self.states.append(st)
        self.by_lhs = {}
        for r in self.rules:
            self.by_lhs.setdefault(r.lhs, []).append(r)
        # mid-rule hosts
        for r in self.rules:
            for i, s in enumerate(r.rhs):
                if s.startswith("$@") or s.startswith("@"):
                    for m in self.by_lhs.get(s, []):
                        m.host, m.host_pos = r, i
        self._actions(facts)

    # ------------------------------------------------------------------ actions
    def _actions(self, facts):
        yy = facts.fn("utap_parse")
        switches = [n for n in walk(yy["body"]) if n.get("k") == "switch"]
        if not switches:
            raise AnalysisBroken("no switch in utap_parse")
        sw = max(switches, key=lambda s: sum(1 for n in walk(s) if n.get("k") == "case"))
        body = sw["body"]["s"]
        cur = None
        nact = 0
        for st in body:
            k = st.get("k")
            # nested case chains: case N: <stmt>
            while k in ("case", "default"):
                if k == "case":
                    cur = st["cv"] - 1
                    if not (0 <= cur < len(self.rules)):
                        raise AnalysisBroken("yyparse case %d has no rule" % st["cv"])
                    self.rules[cur].action = {"k": "block", "s": []}
                    self.rules[cur].line = st["s"].get("l") if isinstance(st.get("s"), dict) else None
                    nact += 1
                else:
                    cur = None
                st = st["s"]
                k = st.get("k") if isinstance(st, dict) else None
            if cur is not None and isinstance(st, dict):
                if k == "break":
                    cur = None
                else:
                    self.rules[cur].action["s"].append(st)
        self._wrappers = self._call_wrappers(facts)
        self._facts = facts
        helpers = self._action_helpers(facts)
        for r in self.rules:
            if r.action is not None:
                if helpers:
                    r.action = self._inline_helpers(r.action, helpers, 0)
                self._scan_calls(r)
        self.n_actions = nact

    def _action_helpers(self, facts):
        """functions of parser.y that an action may call and that (transitively) talk to the builder through a CALL
        wrapper: {name: function}.  Their bodies are put in place of the call, parameters replaced by the arguments, so
        that the callbacks they issue are callbacks of the production."""
        local = {}
        for fn in facts.functions.values():
            if (fn.get("file") or "").endswith("parser.y") and fn.get("body") is not None and fn.get("static") and \
                    fn["q"] not in self._wrappers and fn["name"] not in ("utap_parse", "utap_error", "utap_lex", "utap_msg"):
                local[fn["q"]] = fn
        reach = set()
        changed = True
        while changed:
            changed = False
            for q, fn in local.items():
                if q in reach:
                    continue
                for c in walk(fn["body"]):
                    if c.get("k") == "call" and (c.get("fn") in self._wrappers or c.get("fn") in reach):
                        reach.add(q)
                        changed = True
                        break
        return {q: local[q] for q in reach}

    def _inline_helpers(self, node, helpers, depth):
        import copy

        def subst(n, env):
            if isinstance(n, list):
                return [subst(x, env) for x in n]
            if not isinstance(n, dict):
                return n
            if n.get("k") == "ref" and n.get("dk") == "param" and n.get("name") in env:
                return env[n["name"]]
            return {k: subst(v, env) if isinstance(v, (dict, list)) else v for k, v in n.items()}

        def rec(n):
            if isinstance(n, list):
                return [rec(x) for x in n]
            if not isinstance(n, dict):
                return n
            if n.get("k") == "call" and n.get("fn") in helpers and depth < 4:
                h = helpers[n["fn"]]
                env = {p_["name"]: a for p_, a in zip(h["params"], n.get("args", []))}
                body = subst(copy.deepcopy(h["body"]), env)
                return self._inline_helpers({"k": "block", "l": n.get("l"), "inlined_from": h["name"],
                                             "s": body.get("s", [])}, helpers, depth + 1)
            return {k: rec(v) if isinstance(v, (dict, list)) else v for k, v in n.items()}
        return rec(node)

    @staticmethod
    def _call_wrappers(facts):
        """Functions of parser.y that play the role of the CALL macro: they set the builder position from two location
        parameters, invoke a callable parameter inside `try` and route a caught TypeException to ch->handle_error.
        -> {function name: (index of first, index of last, index of the callable)}"""
        out = {}
        for fn in facts.functions.values():
            if not (fn.get("file") or "").endswith("parser.y") or fn.get("body") is None or len(fn["params"]) < 3:
                continue
            pn = [p["name"] for p in fn["params"]]
            first = last = cb = None
            for c in walk(fn["body"]):
                if c.get("k") == "call" and c.get("name") == "set_position" and len(c.get("args", [])) == 2:
                    a0, a1 = c["args"]
                    if a0.get("k") == "member" and a0.get("name") == "start" and a1.get("k") == "member" and \
                            a1.get("name") == "end" and a0["base"].get("name") in pn and a1["base"].get("name") in pn:
                        first, last = pn.index(a0["base"]["name"]), pn.index(a1["base"]["name"])
                if c.get("k") == "try":
                    inv = [x for x in walk(c.get("body")) if x.get("k") == "call" and
                           ((x.get("callee") or {}).get("name") in pn or
                            (x.get("ck") == "op" and x.get("op") == "()" and (x.get("recv") or {}).get("name") in pn))]
                    routed = any("TypeException" in (h.get("t") or "") and
                                 any(y.get("k") == "call" and y.get("name") == "handle_error" for y in walk(h.get("body")))
                                 for h in c.get("handlers", []) or [])
                    if len(inv) == 1 and routed:
                        tgt = inv[0].get("callee") or inv[0].get("recv")
                        cb = pn.index(tgt["name"])
            if first is not None and last is not None and cb is not None:
                out[fn["q"]] = (first, last, cb)
        return out

    def rhs_len_for_refs(self, r):
        """Offset n such that yyvsp[k] is `$ (k+n)` in the host numbering."""
        return r.host_pos if r.host is not None else len(r.rhs)

    def _sym_index(self, r, node):
        """yyvsp[k] / yylsp[k] -> 1-based symbol index in (host) rule, else None."""
        if node.get("k") in ("paren", "cast") and isinstance(node.get("e"), dict):
            return self._sym_index(r, node["e"])
        if node.get("k") == "ref" and node.get("name") == "yyloc":
            # @$: bison computes it before the action runs (YYLLOC_DEFAULT): the span @1..@n of the rule, or for an
            # empty rule the empty range at the end of @0.  Encoded as the pair through `which`.
            return ("@$",)
        if node.get("k") != "sub":
            return None
        b = node["base"]
        if b.get("k") != "ref" or b.get("name") not in ("yyvsp", "yylsp"):
            return None
        idx = node["idx"]
        v = idx.get("v") if idx.get("k") == "int" else idx.get("cv")
        if v is None and idx.get("k") == "un" and idx.get("op") == "-" and idx["e"].get("k") == "int":
            v = -idx["e"]["v"]
        if v is None:
            return None
        return v + self.rhs_len_for_refs(r)

    def _scan_calls(self, r):
        order = 0
        for n in walk(r.action):
            if n.get("k") == "call" and n.get("fn") in self._wrappers and n.get("ck") in ("free", "static", None):
                fi, li, ci = self._wrappers[n["fn"]]
                args = n.get("args", [])
                lam = args[ci] if ci < len(args) else {}
                while isinstance(lam, dict) and lam.get("k") in ("cast", "materialize"):
                    lam = lam["e"]
                if lam.get("k") != "lambda":
                    raise AnalysisBroken("%s without a lambda in rule %r" % (n["fn"], r))
                inner = [c for c in (lam.get("body") or {}).get("s", []) if c.get("k") == "call"]
                if len(inner) != 1 or len((lam.get("body") or {}).get("s", [])) != 1:
                    raise AnalysisBroken("%s with %d calls in rule %r" % (n["fn"], len(inner), r))
                c = inner[0]
                if (c.get("recv") or {}).get("name") != "ch":
                    raise AnalysisBroken("CALL receiver is not ch in rule %r" % r)
                if c.get("name") is None and c.get("memptr") is not None:
                    tgt = self._facts.memptr_target(c["memptr"])
                    if tgt is None:
                        raise AnalysisBroken("callback through a pointer to member that the source does not fix, in rule %r" % r)
                    c = dict(c, name=tgt[0], fn=tgt[1])
                first, last = self._sym_index(r, args[fi]), self._sym_index(r, args[li])
                n_rhs = self.rhs_len_for_refs(r)
                first = (1 if n_rhs else 0) if first == ("@$",) else first
                last = n_rhs if last == ("@$",) else last
                r.calls.append(Call(r, first, last, c["name"], c.get("args", []), c, c.get("l"), order))
                order += 1
                continue
            if n.get("k") != "do":
                continue
            ss = n["body"].get("s", []) if isinstance(n.get("body"), dict) else []
            if len(ss) != 2 or not (ss[0].get("k") == "call" and ss[0].get("name") == "set_position") \
                    or ss[1].get("k") != "try":
                continue
            sp = ss[0]
            first = self._sym_index(r, sp["args"][0].get("base", {}))
            last = self._sym_index(r, sp["args"][1].get("base", {}))
            n_rhs = self.rhs_len_for_refs(r)
            if first == ("@$",):
                first = 1 if n_rhs else 0
            if last == ("@$",):
                last = n_rhs
            inner = [c for c in ss[1]["body"].get("s", []) if c.get("k") == "call"]
            if len(inner) != 1:
                raise AnalysisBroken("CALL with %d calls in rule %r" % (len(inner), r))
            c = inner[0]
            recv = c.get("recv") or {}
            if recv.get("name") != "ch":
                raise AnalysisBroken("CALL receiver is not ch in rule %r" % r)
            r.calls.append(Call(r, first, last, c["name"], c.get("args", []), c, c.get("l"), order))
            order += 1

    # ------------------------------------------------------------------ helpers
    def arg_value(self, r, a):
        """Abstract value of a CALL argument: ('const', v) | ('enum', name, v) | ('sym', i, field)
        | ('str', s) | ('global', name) | ('expr', text)."""
        k = a.get("k")
        if k == "defarg":
            v = self.arg_value(r, a["e"])
            return ("default",) + v
        if k == "int":
            return ("const", a["v"])
        if k == "bool":
            return ("const", 1 if a["v"] else 0)
        if k == "char":
            return ("const", a["v"])
        if k == "str":
            return ("str", a.get("v"))
        if k == "ref" and a.get("dk") == "enumerator":
            return ("enum", a["name"], a["ev"])
        if k == "ref" and a.get("dk") == "global":
            return ("global", a["name"])
        if k == "member":
            i = self._sym_index(r, a.get("base", {}))
            if i is not None:
                return ("sym", i, a["name"])
        if k == "un" and a.get("cv") is not None:
            return ("const", a["cv"])
        if k == "call" and a.get("cv") is not None:
            return ("const", a["cv"])
        return ("expr", short(a))

    def host_rule(self, r):
        return r.host if r.host is not None else r

    def symbol_at(self, r, i):
        """Symbol name at 1-based index i of (host) rule."""
        h = self.host_rule(r)
        if 1 <= i <= len(h.rhs):
            return h.rhs[i - 1]
        return None

    def is_terminal(self, s):
        return s in self.terminals

    def state_actions(self, st):
        """lookahead -> ('shift', state) | ('reduce', rule); plus '$default'."""
        out = {}
        for t, s in st.shifts.items():
            out[t] = ("shift", s)
        for t, rs in st.reductions.items():
            if t not in out:
                out[t] = ("reduce", rs[0])
        if st.default is not None:
            out["$default"] = ("reduce", st.default)
        return out
