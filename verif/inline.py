"""Seeing through helpers: call expansion and per-kind slicing of dispatch functions.

Rules are stated about what an anchored function *does*.  A maintainer may move part of that into a file-local helper,
a private method, a lambda or a predicate over kinds without changing behaviour; the two tools here let a rule keep its
verdict in that case.

expand(node, F, owner)    copy of a facts subtree in which every call of a helper (see is_helper) is replaced by
                              {"k": "inlined", "name", "call": <the call>, "body": <callee body>}
                          with parameters substituted by the argument expressions, `this` by the receiver, the callee's
                          `return e` turned into {"k": "cret", "e": e}, and a call through a parameter bound to a lambda
                          turned into an inlined node of the lambda's body.  walk() visits the body, so rules that ask
                          "is X called / assigned somewhere in here" see through the helper; the original call stays
                          visible under "call".

KindSlicer(F, fn)         for a function that dispatches on the kind of an expression (switch, if-chains over
                          `e.get_kind()`, kind predicates, early returns): slice(K) is the block of statements that can
                          execute when the kind is K.  Conditions that do not depend on the kind keep both branches
                          (may-semantics).
"""
import copy

from .facts import walk, short


def strip(e):
    while isinstance(e, dict) and (e.get("k") in ("cast", "paren", "materialize") or
                                   (e.get("k") == "construct" and e.get("copy") and len(e.get("args", [])) == 1)):
        e = e["e"] if e.get("k") != "construct" else e["args"][0]
    return e


def local_lambdas(body):
    out = {}
    for d in walk(body):
        if d.get("k") == "decl":
            for v in d.get("vars", []):
                init = strip(v.get("init"))
                if isinstance(init, dict) and init.get("k") == "lambda" and init.get("params") is not None:
                    out[v.get("id")] = init
    return out


def is_helper(t, owner, stop=()):
    """A callee the expansion looks into: it has a body in the analysed tree, is not one of the rule's own anchors
    (stop), and is either defined in the same source file as the owner (a file-local function, a private method
    split off the owner) or a header-defined inline/template helper of the tree."""
    f = t.get("file") or ""
    if t.get("body") is None or f.startswith("/usr") or t["q"] in stop or t.get("name") in stop:
        return False
    if owner is not None and t["q"] == owner.get("q") and len(t["params"]) == len(owner.get("params", [])):
        return False
    if t.get("cls") and t.get("access") == "public":
        # the public interface of a class declared in include/ is the vocabulary rules are written in
        # (get_kind(), get(i), empty(), add_symbol ...): never looked into.  Helpers a refactoring extracts are private /
        # protected methods, members of file-local classes, static functions or lambdas.
        from . import facts as _facts
        rec = _facts.CURRENT.records.get(t["cls"]) if _facts.CURRENT is not None else None
        if rec is None or "/include/" in (rec.get("file") or ""):
            return False
    if owner is None:
        return True
    return f == owner.get("file") or (f.endswith((".h", ".hpp")) and "/include/" not in f)


def _subst(n, env, recv):
    if isinstance(n, list):
        return [_subst(x, env, recv) for x in n]
    if not isinstance(n, dict):
        return n
    k = n.get("k")
    if k == "ref" and n.get("dk") == "param" and n.get("name") in env:
        return env[n["name"]]
    if k == "this" and recv is not None:
        return recv
    if k == "return":
        return {"k": "cret", "l": n.get("l"), "f": n.get("f"),
                "e": _subst(n.get("e"), env, recv) if n.get("e") is not None else None}
    if k == "lambda":
        inner = {a: b for a, b in env.items() if a not in {p["name"] for p in n.get("params") or []}}
        body = n.get("body")
        # returns inside a nested lambda belong to the lambda: keep them
        return dict(n, body=_subst_keep_returns(body, inner, recv))
    return {a: _subst(v, env, recv) if isinstance(v, (dict, list)) else v for a, v in n.items()}


def _subst_keep_returns(n, env, recv):
    if isinstance(n, list):
        return [_subst_keep_returns(x, env, recv) for x in n]
    if not isinstance(n, dict):
        return n
    k = n.get("k")
    if k == "ref" and n.get("dk") == "param" and n.get("name") in env:
        return env[n["name"]]
    if k == "this" and recv is not None:
        return recv
    if k == "lambda":
        inner = {a: b for a, b in env.items() if a not in {p["name"] for p in n.get("params") or []}}
        return dict(n, body=_subst_keep_returns(n.get("body"), inner, recv))
    return {a: _subst_keep_returns(v, env, recv) if isinstance(v, (dict, list)) else v for a, v in n.items()}


def expand(node, F, owner=None, stop=(), maxdepth=3, lambdas=None, resolve=None, accept=None):
    """See module docstring.  resolve(call) -> function facts or None overrides the choice of the callee (dynamic
    dispatch from a known most-derived class)."""
    if lambdas is None:
        lambdas = local_lambdas(owner["body"]) if owner is not None and owner.get("body") is not None else {}

    def lambda_of(tgt):
        tgt = strip(tgt)
        if isinstance(tgt, dict) and tgt.get("k") == "lambda" and tgt.get("params") is not None:
            return tgt
        if isinstance(tgt, dict) and tgt.get("k") == "ref" and tgt.get("id") in lambdas:
            return lambdas[tgt["id"]]
        return None

    def rec(n, depth, stack):
        if isinstance(n, list):
            return [rec(x, depth, stack) for x in n]
        if not isinstance(n, dict):
            return n
        out = {a: rec(v, depth, stack) if isinstance(v, (dict, list)) and a != "params" else v for a, v in n.items()}
        if out.get("k") != "call" or depth >= maxdepth:
            return out
        args = out.get("args", [])
        # a call of a lambda object: local variable, parameter already substituted by a lambda expression
        tgt = out.get("callee") if out.get("ck") == "indirect" else \
            (out.get("recv") if out.get("ck") == "op" and out.get("op") == "()" else None)
        lam = lambda_of(tgt) if tgt is not None else None
        if lam is not None and len(lam["params"]) == len(args) and id(lam) not in stack:
            env = {p["name"]: a for p, a in zip(lam["params"], args)}
            body = rec(_subst(copy.deepcopy(lam["body"]), env, None), depth + 1, stack + (id(lam),))
            return {"k": "inlined", "name": "<lambda>", "l": out.get("l"), "f": out.get("f"), "call": out, "body": body,
                    "t": out.get("t")}
        fq = out.get("fn")
        if fq and out.get("ck") != "op" and fq not in stack:
            cands = [t for t in F.fns(fq) if len(t["params"]) == len(args) and is_helper(t, owner, stop) and
                     (accept is None or accept(t))]
            if resolve is not None:
                r = resolve(out)
                if r is False:
                    cands = []
                elif r is not None and r.get("body") is not None and len(r["params"]) == len(args) and \
                        r["q"] not in stack:
                    cands, fq = [r], r["q"]
            if len(cands) == 1:
                t = cands[0]
                env = {}
                for p, a in zip(t["params"], args):
                    la = lambda_of(a)
                    env[p["name"]] = la if la is not None else a
                body = rec(_subst(copy.deepcopy(t["body"]), env, out.get("recv")), depth + 1, stack + (fq,))
                return {"k": "inlined", "name": out.get("name"), "fn": fq, "l": out.get("l"), "f": out.get("f"),
                        "call": out, "body": body, "t": out.get("t")}
        return out
    return rec(copy.deepcopy(node), 0, ((owner or {}).get("q"),))


def expanded_fn(fn, F, stop=(), maxdepth=3, resolve=None, accept=None):
    """Function facts with an expanded body."""
    if fn.get("body") is None:
        return fn
    new = dict(fn)
    new["body"] = expand(fn["body"], F, owner=fn, stop=stop, maxdepth=maxdepth, resolve=resolve, accept=accept)
    return new


# ------------------------------------------------------------------------------------------ per-kind slicing
class KindSlicer:
    """See module docstring.  `subject`: name of the parameter whose kind is dispatched on (default: the first
    parameter; "this" for member functions of expression_t that look at data->kind / get_kind())."""

    def __init__(self, F, fn, subject=None, stop=(), expand_helpers=True):
        self.F = F
        self.fn = expanded_fn(fn, F, stop=stop) if expand_helpers else fn
        self.subject = subject if subject is not None else (fn["params"][0]["name"] if fn.get("params") else "this")

    # ---- kind expressions and conditions
    def is_kind_expr(self, e, env):
        e = strip(e)
        if not isinstance(e, dict):
            return False
        if e.get("k") == "ref" and e.get("dk") == "local" and env.get(("kind", e.get("id"))):
            return True
        if e.get("k") == "member" and e.get("name") == "kind" and self.subject == "this":
            return True
        if e.get("k") == "call" and e.get("name") == "get_kind":
            r = strip(e.get("recv"))
            if r is None or r.get("k") == "this":
                return self.subject == "this"
            return r.get("k") == "ref" and r.get("name") == self.subject
        return False

    def cond(self, c, K, env):
        """True / False / None (does not depend on the kind alone)."""
        c = strip(c)
        if not isinstance(c, dict):
            return None
        k = c.get("k")
        if k == "bool":
            return bool(c["v"])
        if k == "ref" and c.get("dk") == "local" and ("bool", c.get("id")) in env:
            return env[("bool", c["id"])]
        if k == "un" and c.get("op") == "!":
            v = self.cond(c["e"], K, env)
            return None if v is None else not v
        if k == "bin" and c.get("op") in ("&&", "||"):
            a, b = self.cond(c["lhs"], K, env), self.cond(c["rhs"], K, env)
            if c["op"] == "&&":
                return False if (a is False or b is False) else (True if a and b else None)
            return True if (a is True or b is True) else (False if a is False and b is False else None)
        if k == "bin" and c.get("op") in ("==", "!="):
            for x, y in ((c["lhs"], c["rhs"]), (c["rhs"], c["lhs"])):
                y = strip(y)
                if self.is_kind_expr(x, env) and isinstance(y, dict) and y.get("k") == "ref" and y.get("dk") == "enumerator":
                    eq = y["name"] == K
                    return eq if c["op"] == "==" else not eq
            return None
        if k == "cond":
            v = self.cond(c["c"], K, env)
            if v is None:
                a, b = self.cond(c["a"], K, env), self.cond(c["b"], K, env)
                return a if a == b else None
            return self.cond(c["a"] if v else c["b"], K, env)
        if k == "inlined":
            return self.value_of(c["body"], K, dict(env))
        return None

    def value_of(self, body, K, env):
        """Truth value returned by an inlined predicate body for kind K, or None."""
        stmts = body.get("s", []) if isinstance(body, dict) and body.get("k") == "block" else [body]
        res = []

        def run(ss):
            for s in ss:
                if not isinstance(s, dict):
                    continue
                k = s.get("k")
                if k == "cret":
                    res.append(self.cond(s.get("e"), K, env) if s.get("e") is not None else None)
                    return True
                if k == "decl":
                    self.bind(s, K, env)
                elif k == "block":
                    if run(s.get("s", [])):
                        return True
                elif k == "if":
                    v = self.cond(s["c"], K, env)
                    if v is None:
                        if any(x.get("k") == "cret" for x in walk(s)):
                            res.append(None)
                            return True
                        continue
                    br = s.get("then") if v else s.get("else")
                    if br is not None and run([br]):
                        return True
                elif k == "switch" and self.is_kind_expr(s.get("c") or s.get("e") or s.get("cond") or {}, env):
                    if run(self.pick_cases(s, K)):
                        return True
                elif k == "break":
                    return False
                elif any(x.get("k") == "cret" for x in walk(s)):
                    res.append(None)
                    return True
            return False
        run(stmts)
        return res[0] if res else None

    def bind(self, decl, K, env):
        for v in decl.get("vars", []):
            init = v.get("init")
            if init is None:
                continue
            if self.is_kind_expr(init, env):
                env[("kind", v.get("id"))] = True
            elif (v.get("ct") or v.get("t") or "").replace("const ", "") == "bool":
                b = self.cond(init, K, env)
                if b is not None:
                    env[("bool", v.get("id"))] = b

    @staticmethod
    def switch_selector(s):
        for key in ("c", "e", "cond", "sel"):
            if isinstance(s.get(key), dict):
                return s[key]
        return {}

    def pick_cases(self, sw, K):
        """Statements executed by `switch (kind)` for K, fall-through included, up to the terminating break/return."""
        items = []
        for s in (sw.get("body") or {}).get("s", []):
            labels = []
            while isinstance(s, dict) and s.get("k") in ("case", "default"):
                if s["k"] == "case":
                    v = strip(s.get("v", {}))
                    labels.append(v.get("name") if isinstance(v, dict) and v.get("k") == "ref" else None)
                else:
                    labels.append("default")
                s = s.get("s")
            items.append((labels, s))
        st = None
        for i, (labels, _) in enumerate(items):
            if K in labels:
                st = i
        if st is None:
            for i, (labels, _) in enumerate(items):
                if "default" in labels:
                    st = i
        if st is None:
            return []
        out = []
        for labels, s in items[st:]:
            if s is None:
                continue
            out.append(s)
            if isinstance(s, dict) and s.get("k") in ("break", "return", "cret"):
                break
        return out

    # ---- slicing
    def slice(self, K):
        env = {}
        out, _ = self._stmts(self.fn["body"].get("s", []), K, env)
        return {"k": "block", "s": out, "sliced_for": K}

    def _stmts(self, ss, K, env):
        """-> (statements, terminator) with terminator in (None, "break", "return")."""
        out = []
        for s in ss:
            if not isinstance(s, dict):
                continue
            k = s.get("k")
            if k == "decl":
                self.bind(s, K, env)
                out.append(s)
            elif k == "block":
                o, t = self._stmts(s.get("s", []), K, env)
                out += o
                if t:
                    return out, t
            elif k in ("attributed", "label"):
                o, t = self._stmts([s.get("s")], K, env)
                out += o
                if t:
                    return out, t
            elif k == "if":
                for d in ([s["init"]] if isinstance(s.get("init"), dict) else []):
                    if d.get("k") == "decl":
                        self.bind(d, K, env)
                v = self.cond(s["c"], K, env)
                if v is None:
                    th, t1 = self._stmts([s["then"]], K, dict(env)) if s.get("then") is not None else ([], None)
                    el, t2 = self._stmts([s["else"]], K, dict(env)) if s.get("else") is not None else ([], None)
                    n = dict(s, then={"k": "block", "s": th})
                    if s.get("else") is not None:
                        n["else"] = {"k": "block", "s": el}
                    out.append(n)
                    if t1 and t2 and t1 == t2:
                        return out, t1
                else:
                    out.append({"k": "decided", "c": s["c"], "v": v, "l": s.get("l")})
                    br = s.get("then") if v else s.get("else")
                    if br is not None:
                        o, t = self._stmts([br], K, env)
                        out += o
                        if t:
                            return out, t
            elif k == "switch" and self.is_kind_expr(self.switch_selector(s), env):
                o, t = self._stmts(self.pick_cases(s, K), K, env)
                out += o
                if t == "return":
                    return out, t
            elif k in ("for", "while", "do", "rangefor"):
                o, _ = self._stmts([s.get("body")] if s.get("body") is not None else [], K, dict(env))
                out.append(dict(s, body={"k": "block", "s": o}))
            elif k == "break" or k == "continue":
                return out, "break"
            elif k in ("return", "cret"):
                out.append(self._expr(s, K, env))
                return out, "return"
            else:
                out.append(self._expr(s, K, env))
        return out, None

    def _expr(self, n, K, env):
        """slice the bodies of inlined calls that occur in an expression (their own returns end only themselves)"""
        if isinstance(n, list):
            return [self._expr(x, K, env) for x in n]
        if not isinstance(n, dict):
            return n
        if n.get("k") == "inlined":
            b = n.get("body") or {}
            ss = b.get("s", []) if b.get("k") == "block" else [b]
            o, _ = self._stmts(ss, K, dict(env))
            return dict(n, body={"k": "block", "s": o}, call=n.get("call"))
        if n.get("k") == "lambda":
            return n
        return {a: self._expr(v, K, env) if isinstance(v, (dict, list)) and a != "call" else v for a, v in n.items()}


# ------------------------------------------------------------------------------------------ who may modify a field
def walk_ctx(n, parent=None, key=None, idx=None):
    """Pre-order walk yielding (node, parent, key-in-parent, index-in-list-or-None)."""
    if isinstance(n, dict):
        yield n, parent, key, idx
        for k, v in n.items():
            if isinstance(v, dict):
                yield from walk_ctx(v, n, k, None)
            elif isinstance(v, list):
                for i, x in enumerate(v):
                    if isinstance(x, (dict, list)):
                        yield from walk_ctx(x, n, k, i)
    elif isinstance(n, list):
        for i, x in enumerate(n):
            yield from walk_ctx(x, parent, key, i)


def _nonconst_ref(t):
    t = (t or "").strip()
    return t.endswith("&") and not t.endswith("&&") and not t.startswith("const ") and " const &" not in t and \
        "const&" not in t


def mutable_uses(body, pred):
    """Nodes n in body with pred(n) that are used as something that can be written through: the left side of an
    assignment (plain, compound, overloaded), the operand of ++ / -- / unary &, an argument bound to a non-const
    lvalue-reference parameter, or the initialiser of a non-const reference variable.  Reads (including `x->field`
    and by-value / const-reference arguments) are not reported."""
    out = []
    for n, p, key, idx in walk_ctx(body):
        if not pred(n) or p is None:
            continue
        pk = p.get("k")
        if pk == "bin" and key == "lhs" and (p.get("op") == "=" or (p.get("op", "").endswith("=") and
                                                                    p.get("op") not in ("==", "!=", "<=", ">="))):
            out.append(n)
        elif pk == "un" and p.get("op") in ("++", "--", "&", "post++", "post--", "pre++", "pre--"):
            out.append(n)
        elif pk == "call" and key == "recv" and p.get("ck") == "op" and (p.get("op") or "").endswith("=") and \
                p.get("op") not in ("==", "!=", "<=", ">="):
            out.append(n)
        elif pk == "call" and key == "args" and idx is not None:
            pt = p.get("pt") or []
            off = 0
            if p.get("ck") == "op" and p.get("recv") is None and len(pt) == len(p.get("args", [])) - 1:
                off = 1         # member operator written with the object as first argument
            j = idx - off
            if 0 <= j < len(pt) and _nonconst_ref(pt[j]):
                out.append(n)
        elif pk is None and key == "init" and _nonconst_ref(p.get("t") or p.get("ct")):
            out.append(n)       # a variable record inside a decl: {"name","t","init"}
    return out


# ------------------------------------------------------------------------------------------ path conditions
def always_exits(s):
    """Does statement s leave the enclosing function / loop iteration on every path (return, throw, break, continue)?"""
    if not isinstance(s, dict):
        return False
    k = s.get("k")
    if k in ("return", "throw", "break", "continue", "cret"):
        return True
    if k == "block":
        return any(always_exits(x) for x in s.get("s", []))
    if k == "if":
        return s.get("else") is not None and always_exits(s.get("then")) and always_exits(s.get("else"))
    if k in ("attributed", "label"):
        return always_exits(s.get("s"))
    if k == "call" and s.get("noreturn"):
        return True
    return False


def sites_with_conditions(body, pred):
    """[(node, conds)] for every node with pred(node) in body; conds is the list of (condition expression, truth) that
    hold when the node is evaluated: enclosing if / ?: / && / || / loop conditions, and the negation of every earlier
    `if (c) <always exits>` in an enclosing statement list."""
    out = []

    def expr(e, conds):
        if isinstance(e, list):
            for x in e:
                expr(x, conds)
            return
        if not isinstance(e, dict):
            return
        if pred(e):
            out.append((e, list(conds)))
        k = e.get("k")
        if k == "cond":
            expr(e.get("c"), conds)
            expr(e.get("a"), conds + [(e["c"], True)])
            expr(e.get("b"), conds + [(e["c"], False)])
            return
        if k == "bin" and e.get("op") in ("&&", "||"):
            expr(e.get("lhs"), conds)
            expr(e.get("rhs"), conds + [(e["lhs"], e["op"] == "&&")])
            return
        if k in ("block", "if", "for", "while", "do", "rangefor", "switch", "try", "decl", "return", "cret"):
            stmt(e, conds, nested=True)
            return
        for a, v in e.items():
            if isinstance(v, (dict, list)) and a != "call":
                expr(v, conds)

    def stmts(ss, conds):
        conds = list(conds)
        for s in ss:
            stmt(s, conds)
            if isinstance(s, dict) and s.get("k") == "if":
                te, ee = always_exits(s.get("then")), s.get("else") is not None and always_exits(s.get("else"))
                if te and not ee:
                    conds.append((s["c"], False))
                elif ee and not te:
                    conds.append((s["c"], True))

    def stmt(s, conds, nested=False):
        if not isinstance(s, dict):
            return
        k = s.get("k")
        if pred(s) and not nested:
            out.append((s, list(conds)))
        if k == "block":
            stmts(s.get("s", []), conds)
        elif k == "if":
            if s.get("init") is not None:
                expr(s["init"], conds) if s["init"].get("k") != "decl" else stmt(s["init"], conds)
            expr(s.get("c"), conds)
            if s.get("then") is not None:
                stmts([s["then"]], conds + [(s["c"], True)])
            if s.get("else") is not None:
                stmts([s["else"]], conds + [(s["c"], False)])
        elif k in ("for", "while"):
            for key in ("init", "inc", "step"):
                if s.get(key) is not None:
                    expr(s[key], conds) if s[key].get("k") != "decl" else stmt(s[key], conds)
            if s.get("c") is not None:
                expr(s["c"], conds)
            inner = conds + ([(s["c"], True)] if s.get("c") is not None else [])
            if s.get("body") is not None:
                stmts([s["body"]], inner)
        elif k == "switch" and isinstance(s.get("body"), dict) and s["body"].get("k") == "block":
            # the statements of a case group run under the pseudo-condition {"k": "caseof", subject, labels}: a test of
            # the switch subject against the group's labels (groups joined by fall-through share their labels)
            if s.get("init") is not None:
                expr(s["init"], conds) if s["init"].get("k") != "decl" else stmt(s["init"], conds)
            expr(s.get("c"), conds)
            cur, open_, run = [], False, []

            def flush():
                if run:
                    inner = conds + ([({"k": "caseof", "subject": s.get("c"), "labels": list(cur)}, True)] if cur else [])
                    stmts(list(run), inner)        # one statement list: earlier `if (c) break;` guards later statements
                    del run[:]
            for st in s["body"].get("s", []):
                y, lbs = st, []
                while isinstance(y, dict) and y.get("k") in ("case", "default"):
                    lbs.append(y.get("v") if y["k"] == "case" and isinstance(y.get("v"), dict) else {"k": "default"})
                    y = y.get("s")
                if lbs:
                    flush()
                    cur = (cur if open_ else []) + lbs
                if isinstance(y, dict):
                    run.append(y)
                    open_ = not (y.get("k") in ("break", "return", "cret", "throw", "continue") or always_exits(y))
            flush()
        elif k in ("do", "rangefor", "switch", "try"):
            for key, v in s.items():
                if key == "body":
                    stmts([v], conds)
                elif isinstance(v, (dict, list)) and key not in ("var",):
                    expr(v, conds)
        elif k in ("case", "default", "attributed", "label"):
            stmts([s.get("s")], conds)
        elif k == "decl":
            for v in s.get("vars", []):
                if v.get("init") is not None:
                    expr(v["init"], conds)
        elif k in ("return", "cret", "throw"):
            if s.get("e") is not None:
                expr(s["e"], conds)
        elif k == "inlined":
            b = s.get("body") or {}
            stmts(b.get("s", []) if b.get("k") == "block" else [b], conds)
        else:
            for a, v in s.items():
                if isinstance(v, (dict, list)) and a != "call":
                    expr(v, conds)
    stmts(body.get("s", []) if isinstance(body, dict) and body.get("k") == "block" else [body], [])
    return out


# ------------------------------------------------------------------------------------------ path bits
def flag_locals(body):
    """Locals used as flags: bool or pointer variables initialised with a literal -> {id: initial value}
    (values: True / False / "null" / "nonnull")."""
    out = {}
    for d in walk(body):
        if d.get("k") == "decl":
            for v in d.get("vars", []):
                val = _flag_value(v.get("init"))
                if val is not None and v.get("id") is not None:
                    out[v["id"]] = val
    return out


def _flag_value(e):
    e = strip(e) if e is not None else None
    if not isinstance(e, dict):
        return None
    if e.get("k") == "bool":
        return bool(e["v"])
    if e.get("k") == "null" or (e.get("k") == "int" and e.get("v") == 0 and "*" in (e.get("t") or "")):
        return "null"
    if e.get("k") == "str":
        return "nonnull"
    return None


def path_states(body, mark, cond_mark=None, after=None, probe=None, probes=None, flags=None):
    """Structured may-analysis over all paths of a function body with a small set of monotone facts ("bits").

    mark(node)                 -> iterable of bits gained by evaluating a non-structural statement / an expression
    cond_mark(cond, truth)     -> iterable of bits gained by *entering* the branch where `cond` has that truth value
    after(stmt)                -> iterable of bits gained after a compound statement (loop, switch, try, inlined) has
                                  been passed, for facts about the statement as a whole

    Conditions are not interpreted: both branches of every `if` are followed, a loop body runs zero or one time.
    Returns (fallthrough, exits): fallthrough = set of frozenset(bits) reaching the end of the body; exits = list of
    (statement, frozenset(bits)) for every return / cret / throw reached."""
    exits = []
    cm = cond_mark or (lambda c, t: ())
    af = after or (lambda s: ())
    flags = flags if flags is not None else {}

    def gain(states, bits):
        bits = frozenset(bits)
        return {s | bits for s in states} if bits else states

    def set_flag(states, fid, val):
        out = set()
        for s_ in states:
            s_ = frozenset(b for b in s_ if not (isinstance(b, tuple) and b[0] == "=" and b[1] == fid))
            out.add(s_ | ({("=", fid, val)} if val is not None else frozenset()))
        return out

    def flag_of(state, fid):
        for b in state:
            if isinstance(b, tuple) and b[0] == "=" and b[1] == fid:
                return b[2]
        return None

    def decide(c, state):
        """truth value of condition c under the flag values of `state`, or None"""
        c = strip(c)
        if not isinstance(c, dict):
            return None
        if c.get("k") == "un" and c.get("op") == "!":
            v = decide(c["e"], state)
            return None if v is None else not v
        if c.get("k") == "ref" and c.get("id") in flags:
            v = flag_of(state, c["id"])
            if v in (True, False):
                return v
            if v in ("null", "nonnull"):
                return v == "nonnull"
            return None
        if c.get("k") == "bin" and c.get("op") in ("==", "!="):
            for a, b in ((c["lhs"], c["rhs"]), (c["rhs"], c["lhs"])):
                a, bv = strip(a), _flag_value(b)
                if isinstance(a, dict) and a.get("k") == "ref" and a.get("id") in flags and bv is not None:
                    v = flag_of(state, a["id"])
                    if v is None:
                        return None
                    eq = (v == bv)
                    return eq if c["op"] == "==" else not eq
        if c.get("k") == "bin" and c.get("op") in ("&&", "||"):
            a, b = decide(c["lhs"], state), decide(c["rhs"], state)
            if c["op"] == "&&":
                return False if (a is False or b is False) else (True if a and b else None)
            return True if (a is True or b is True) else (False if a is False and b is False else None)
        return None

    def outer_inlined(e):
        """inlined helper calls that occur inside an expression (not inside a lambda body / another inlined node)"""
        out = []

        def rec(n):
            if isinstance(n, list):
                for x in n:
                    rec(x)
            elif isinstance(n, dict):
                if n.get("k") == "inlined":
                    out.append(n)
                    return
                if n.get("k") == "lambda":
                    return
                for a, v in n.items():
                    if isinstance(v, (dict, list)) and a != "call":
                        rec(v)
        rec(e)
        return out

    def ev(e, states):
        if e is None:
            return states
        if isinstance(e, (dict, list)):
            for n in outer_inlined(e):
                states = flow(n, states)        # what the helper does on its own paths (loops, early answers)
        if probe is not None and probes is not None:
            for n in walk(e):
                if probe(n):
                    probes.extend((n, st) for st in states)
        states = gain(states, mark(e))
        if flags:
            # assignments to flag locals (statement level or nested)
            for n in walk(e):
                if n.get("k") == "decl":
                    for v in n.get("vars", []):
                        if v.get("id") in flags:
                            states = set_flag(states, v["id"], _flag_value(v.get("init")))
                elif n.get("k") == "bin" and n.get("op") in ("=", "|=", "&=") and strip(n["lhs"]).get("k") == "ref" and \
                        strip(n["lhs"]).get("id") in flags:
                    states = set_flag(states, strip(n["lhs"])["id"], _flag_value(n["rhs"]) if n["op"] == "=" else None)
        return states

    def branch(states, c, truth):
        """states that can take the branch `c == truth`"""
        if not flags:
            return states
        return {st for st in states if decide(c, st) in (None, truth)}

    def flow(s, states):
        if s is None or not states:
            return states
        if isinstance(s, list):
            for x in s:
                states = flow(x, states)
            return states
        k = s.get("k")
        if k == "block":
            for x in s.get("s", []):
                states = flow(x, states)
                if not states:
                    break
            return states
        if k == "if":
            st = states
            if isinstance(s.get("init"), dict):
                st = ev(s["init"], st)
            st = ev(s["c"], st)
            a = flow(s.get("then"), gain(branch(st, s["c"], True), cm(s["c"], True)))
            b = flow(s.get("else"), gain(branch(st, s["c"], False), cm(s["c"], False))) if s.get("else") is not None else \
                gain(branch(st, s["c"], False), cm(s["c"], False))
            return a | b
        if k in ("for", "while", "rangefor", "do"):
            st = states
            for key in ("init", "c", "range"):
                if isinstance(s.get(key), dict):
                    st = ev(s[key], st)
            breaks.append(set())
            b = flow(s.get("body"), st)
            b = b | breaks.pop()
            for key in ("inc", "step"):
                if isinstance(s.get(key), dict):
                    b = ev(s[key], b)
            return gain(st | b, af(s))
        if k == "switch":
            st = ev(s.get("c"), states)
            breaks.append(set())
            cur, has_default = set(), False
            body = s.get("body") or {}
            for x in (body.get("s", []) if body.get("k") == "block" else [body]):
                y = x
                while isinstance(y, dict) and y.get("k") in ("case", "default"):
                    cur = cur | st              # every label is an entry point
                    has_default = has_default or y["k"] == "default"
                    y = y.get("s")
                cur = flow(y, cur)
            out = cur | breaks.pop() | (set() if has_default else st)
            return gain(out, af(s))
        if k in ("case", "default", "attributed", "label"):
            return flow(s.get("s"), states)
        if k == "inlined":
            # the callee's returns end the callee only
            sub_f, sub_e = path_states(s.get("body") or {}, mark, cond_mark, after, probe, probes, flags)
            out = set()
            for base in states:
                for t in list(sub_f) + [e for _, e in sub_e]:
                    out.add(base | t)
            return gain(out or states, af(s))
        if k in ("return", "cret"):
            e0 = strip(s.get("e")) if s.get("e") is not None else None
            if isinstance(e0, dict) and e0.get("k") == "inlined":
                # `return helper(...)`: the helper's own exits are this function's exits (with their statements, so
                # that a rule can tell `return true` inside the helper from `return false`)
                sub_f, sub_e = path_states(e0.get("body") or {}, mark, cond_mark, after, probe, probes, flags)
                for base in states:
                    for st_, t in sub_e:
                        exits.append((st_, base | t))
                    for t in sub_f:
                        exits.append((s, base | t))
                return set()
            st = ev(s.get("e"), states) if s.get("e") is not None else states
            exits.extend((s, x) for x in st)
            return set()
        if k == "throw":
            exits.extend((s, x) for x in states)
            return set()
        if k == "try":
            b = flow(s.get("body"), states)
            hs = set()
            for h in s.get("handlers", []) or []:
                hs |= flow(h.get("body"), states)
            return gain(b | hs, af(s))
        if k in ("break", "continue"):
            if breaks:
                breaks[-1] |= states
                return set()
            return states
        return ev(s, states)
    breaks = []
    out = flow(body, {frozenset()})
    return out, exits


# ------------------------------------------------------------------------------------------ normal form
def _blk(ss):
    return {"k": "block", "s": ss}


def _structure_returns(ss):
    """Statement list of an inlined callee: turn `if (C) { A; cret; } rest...` into `if (C) { A } else { rest... }`
    (recursively), and drop a trailing `cret;`.  Returns None if a `cret` remains somewhere else (inside a loop, in
    the middle of a block): such a callee is left as an `inlined` node."""
    def flat(xs):
        r = []
        for x in xs:
            if isinstance(x, dict) and x.get("k") == "block" and not any(
                    isinstance(y, dict) and y.get("k") == "decl" for y in x.get("s", [])):
                r += flat(x.get("s", []))
            elif isinstance(x, dict):
                r.append(x)
        return r
    ss = flat(ss)
    out = []
    for i, s in enumerate(ss):
        if not isinstance(s, dict):
            continue
        k = s.get("k")
        if k == "cret" and s.get("e") is None:
            if i != len(ss) - 1 and any(isinstance(x, dict) for x in ss[i + 1:]):
                return None if False else out      # statements after an unconditional return are dead
            return out
        if k == "if":
            th = s.get("then")
            th_ss = flat(th.get("s", []) if isinstance(th, dict) and th.get("k") == "block" else [th])
            el = s.get("else")
            el_ss = flat(el.get("s", []) if isinstance(el, dict) and el.get("k") == "block" else [el]) if el is not None else None

            def ends_ret(b):
                return bool(b) and isinstance(b[-1], dict) and b[-1].get("k") == "cret" and b[-1].get("e") is None
            rest = ss[i + 1:]
            if ends_ret(th_ss) and not (el_ss and ends_ret(el_ss)):
                a = _structure_returns(th_ss[:-1])
                b = _structure_returns((el_ss or []) + rest)
                if a is None or b is None:
                    return None
                out.append(dict(s, then=_blk(a), **{"else": _blk(b)}))
                return out
            if el_ss and ends_ret(el_ss) and not ends_ret(th_ss):
                a = _structure_returns(th_ss + rest)
                b = _structure_returns(el_ss[:-1])
                if a is None or b is None:
                    return None
                out.append(dict(s, then=_blk(a), **{"else": _blk(b)}))
                return out
            a = _structure_returns(th_ss)
            b = _structure_returns(el_ss) if el_ss is not None else None
            if a is None or (el_ss is not None and b is None):
                return None
            n = dict(s, then=_blk(a))
            if el_ss is not None:
                n["else"] = _blk(b)
            out.append(n)
            continue
        if any(x.get("k") == "cret" for x in walk(s) if x is not s) and k != "inlined":
            return None
        out.append(s)
    return out


def _predicate_form(inl):
    """An inlined bool helper of the form  [effects0;] if (C) { [effA;] cret B1; } [effB;] cret B2;  (B literals, B1 != B2)
    -> (condition equivalent to `returns true`, effects when true, effects when false), else None."""
    body = inl.get("body") or {}
    ss = [s for s in (body.get("s", []) if body.get("k") == "block" else [body]) if isinstance(s, dict)]
    pre = []
    binds = {}
    while ss and ss[0].get("k") not in ("if", "cret"):
        d = ss[0]
        # `const int node_type = getNodeType();` - a value binding is substituted into the condition
        if d.get("k") == "decl" and all(v.get("init") is not None and v.get("id") is not None and
                                        not v.get("bindings") for v in d.get("vars", [])):
            for v in d["vars"]:
                binds[v["id"]] = v["init"]
        else:
            pre.append(d)
        ss = ss[1:]
    if pre:
        return None                      # effects before the decision: keep the helper opaque
    if binds:
        def sub(n):
            if isinstance(n, list):
                return [sub(x) for x in n]
            if not isinstance(n, dict):
                return n
            if n.get("k") == "ref" and n.get("id") in binds:
                return sub(binds[n["id"]])
            return {a: sub(v) if isinstance(v, (dict, list)) else v for a, v in n.items()}
        ss = sub(ss)

    def lit(s):
        e = strip(s.get("e")) if isinstance(s, dict) and s.get("k") == "cret" and s.get("e") is not None else None
        return bool(e["v"]) if isinstance(e, dict) and e.get("k") == "bool" else None
    if len(ss) == 1 and ss[0].get("k") == "cret" and ss[0].get("e") is not None:
        return (ss[0]["e"], [], [])      # `return C;`
    if not ss or ss[0].get("k") != "if" or ss[0].get("else") is not None:
        return None
    th = ss[0]["then"]
    th_ss = [s for s in (th.get("s", []) if th.get("k") == "block" else [th]) if isinstance(s, dict)]
    if not th_ss or lit(th_ss[-1]) is None or not ss[1:] or lit(ss[-1]) is None:
        return None
    eff_then, eff_rest = th_ss[:-1], ss[1:-1]
    if any(x.get("k") in ("cret", "return") for s in eff_then + eff_rest for x in walk(s)):
        return None
    b1, b2 = lit(th_ss[-1]), lit(ss[-1])
    if b1 == b2:
        return None
    c = ss[0]["c"]
    if b1:
        return (c, eff_then, eff_rest)
    return ({"k": "un", "op": "!", "e": c, "l": c.get("l")}, eff_rest, eff_then)


def _fold_cond(c):
    """condition with inlined predicate helpers folded -> (condition, effects-if-true, effects-if-false) where the
    effects are the helper's own statements on that outcome (only for a condition that is the helper call itself or
    its negation; inside && / || the effects are dropped and only the condition is folded)."""
    c0 = strip(c)
    if isinstance(c0, dict) and c0.get("k") == "inlined":
        pf = _predicate_form(c0)
        if pf is not None:
            cc, et, ef = pf
            cc2, _, _ = _fold_cond(cc)
            return cc2, et, ef
        return c, [], []
    if isinstance(c0, dict) and c0.get("k") == "un" and c0.get("op") == "!":
        cc, et, ef = _fold_cond(c0["e"])
        return dict(c0, e=cc), ef, et
    if isinstance(c0, dict) and c0.get("k") == "bin" and c0.get("op") in ("&&", "||"):
        a, _, _ = _fold_cond(c0["lhs"])
        b, _, _ = _fold_cond(c0["rhs"])
        return dict(c0, lhs=a, rhs=b), [], []
    return c, [], []


def _ptr_to_member(n):
    """`obj->*(&C::m)` / `obj.*(&C::m)` with a literal member pointer -> ordinary member access"""
    if isinstance(n, list):
        return [_ptr_to_member(x) for x in n]
    if not isinstance(n, dict):
        return n
    n = {a: _ptr_to_member(v) if isinstance(v, (dict, list)) else v for a, v in n.items()}
    if n.get("k") == "bin" and n.get("op") in ("->*", ".*"):
        r = strip(n["rhs"])
        if isinstance(r, dict) and r.get("k") == "un" and r.get("op") == "&" and strip(r["e"]).get("k") == "ref" and \
                "::" in (strip(r["e"]).get("q") or ""):
            q = strip(r["e"])["q"]
            return {"k": "member", "name": q.split("::")[-1], "of": q.rsplit("::", 1)[0], "t": n.get("t"),
                    "arrow": n["op"] == "->*", "base": n["lhs"], "l": n.get("l")}
    return n


def normalize_fn(fn, F, stop=(), maxdepth=3, resolve=None, accept=None):
    """Function facts in a normal form in which extracted helpers have been put back:
      - helper / lambda calls are expanded (see expand);
      - a void helper called as a statement becomes a block, its early `return;`s turned into if/else nesting;
      - a bool helper used as an `if` condition (`if (!inside_edge()) return;` with inside_edge reporting the error) is
        replaced by the condition it computes, and what the helper does on each outcome is moved into the branches;
      - `p->*(&C::m)` with a literal member pointer becomes `p->m`.
    Rules written against the direct form of a callback then also read the refactored form."""
    x = expanded_fn(fn, F, stop=stop, maxdepth=maxdepth, resolve=resolve, accept=accept)
    if x.get("body") is None:
        return x

    def stmt(s):
        if isinstance(s, list):
            out = []
            for y in s:
                r = stmt(y)
                out += r if isinstance(r, list) else [r]
            return out
        if not isinstance(s, dict):
            return s
        k = s.get("k")
        if k == "inlined":
            b = s.get("body") or {}
            ss = _structure_returns(stmt(b.get("s", []) if b.get("k") == "block" else [b]))
            if ss is not None and not any(y.get("k") == "cret" for z in ss for y in walk(z)):
                return dict(_blk(ss), inlined_from=s.get("name"), l=s.get("l"))
            return s
        if k == "block":
            return dict(s, s=stmt(s.get("s", [])))
        if k == "if":
            c, et, ef = _fold_cond(s["c"])
            th = stmt(s.get("then")) if s.get("then") is not None else None
            el = stmt(s.get("else")) if s.get("else") is not None else None
            if et:
                th = _blk(stmt(copy.deepcopy(et)) + ([th] if th is not None else []))
            if ef:
                el = _blk(stmt(copy.deepcopy(ef)) + ([el] if el is not None else []))
            n = dict(s, c=c, then=th if th is not None else _blk([]))
            if el is not None:
                n["else"] = el
            elif "else" in n:
                del n["else"]
            return n
        if k in ("for", "while", "do", "rangefor", "switch", "try"):
            n = dict(s)
            if s.get("body") is not None:
                n["body"] = stmt(s["body"])
            return n
        if k in ("case", "default", "attributed", "label"):
            return dict(s, s=stmt(s.get("s")))
        return s
    new = dict(x)
    new["body"] = _ptr_to_member(stmt(x["body"]))
    return new


def flatten_conds(conds):
    """[(condition, truth)] with `a && b` known true split into a and b, `a || b` known false split likewise, and `!x`
    unfolded: the atomic facts that hold on the path."""
    out = []

    def add(c, t):
        c0 = strip(c)
        if not isinstance(c0, dict):
            return
        if c0.get("k") == "un" and c0.get("op") == "!":
            add(c0["e"], not t)
        elif c0.get("k") == "bin" and c0.get("op") == "&&" and t:
            add(c0["lhs"], True)
            add(c0["rhs"], True)
        elif c0.get("k") == "bin" and c0.get("op") == "||" and not t:
            add(c0["lhs"], False)
            add(c0["rhs"], False)
        else:
            out.append((c0, t))
    for c, t in conds:
        add(c, t)
    return out
