"""Seeing through helpers: call expansion and per-kind slicing of dispatch functions.

Rules are stated about what an anchored function *does*.  A maintainer may move part of that into a file-local helper,
a private method, a lambda or a predicate over kinds without changing behaviour; the two tools here let a rule keep its
verdict in that case.

expand(node, F, owner)    copy of a facts subtree in which every call of a helper (see is_helper) is replaced by
                              {"k": "inlined", "name", "call": <the call>, "body": <callee body>}
                          with parameters substituted by the argument expressions, `this` by the receiver, the callee's
                          `return e` turned into {"k": "cret", "e": e}, and a call through a parameter bound to a lambda
                          turned into an inlined node of the lambda's body.  walk() visits the body, so rules that ask
                          "is X called / assigned somewhere in here" see through the helper; the original call stays
                          visible under "call".

KindSlicer(F, fn)         for a function that dispatches on the kind of an expression (switch, if-chains over
                          `e.get_kind()`, kind predicates, early returns): slice(K) is the block of statements that can
                          execute when the kind is K.  Conditions that do not depend on the kind keep both branches
                          (may-semantics).
"""
import copy

from .facts import walk, short


def strip(e):
    while isinstance(e, dict) and (e.get("k") in ("cast", "paren", "materialize") or
                                   (e.get("k") == "construct" and e.get("copy") and len(e.get("args", [])) == 1)):
        e = e["e"] if e.get("k") != "construct" else e["args"][0]
    return e


def local_lambdas(body):
    out = {}
    for d in walk(body):
        if d.get("k") == "decl":
            for v in d.get("vars", []):
                init = strip(v.get("init"))
                if isinstance(init, dict) and init.get("k") == "lambda" and init.get("params") is not None:
                    out[v.get("id")] = init
    return out


def is_helper(t, owner, stop=()):
    """A callee the expansion looks into: it has a body in the analysed tree, is not one of the rule's own anchors
    (stop), and is either defined in the same source file as the owner (a file-local function, a private method
    split off the owner) or a header-defined inline/template helper of the tree."""
    f = t.get("file") or ""
    if t.get("body") is None or f.startswith("/usr") or t["q"] in stop or t.get("name") in stop:
        return False
    if owner is not None and t["q"] == owner.get("q") and len(t["params"]) == len(owner.get("params", [])):
        return False
    if owner is None:
        return True
    return f == owner.get("file") or (f.endswith((".h", ".hpp")) and "/include/" not in f)


def _subst(n, env, recv):
    if isinstance(n, list):
        return [_subst(x, env, recv) for x in n]
    if not isinstance(n, dict):
        return n
    k = n.get("k")
    if k == "ref" and n.get("dk") == "param" and n.get("name") in env:
        return env[n["name"]]
    if k == "this" and recv is not None:
        return recv
    if k == "return":
        return {"k": "cret", "l": n.get("l"), "f": n.get("f"),
                "e": _subst(n.get("e"), env, recv) if n.get("e") is not None else None}
    if k == "lambda":
        inner = {a: b for a, b in env.items() if a not in {p["name"] for p in n.get("params") or []}}
        body = n.get("body")
        # returns inside a nested lambda belong to the lambda: keep them
        return dict(n, body=_subst_keep_returns(body, inner, recv))
    return {a: _subst(v, env, recv) if isinstance(v, (dict, list)) else v for a, v in n.items()}


def _subst_keep_returns(n, env, recv):
    if isinstance(n, list):
        return [_subst_keep_returns(x, env, recv) for x in n]
    if not isinstance(n, dict):
        return n
    k = n.get("k")
    if k == "ref" and n.get("dk") == "param" and n.get("name") in env:
        return env[n["name"]]
    if k == "this" and recv is not None:
        return recv
    if k == "lambda":
        inner = {a: b for a, b in env.items() if a not in {p["name"] for p in n.get("params") or []}}
        return dict(n, body=_subst_keep_returns(n.get("body"), inner, recv))
    return {a: _subst_keep_returns(v, env, recv) if isinstance(v, (dict, list)) else v for a, v in n.items()}


def expand(node, F, owner=None, stop=(), maxdepth=3, lambdas=None, resolve=None):
    """See module docstring.  resolve(call) -> function facts or None overrides the choice of the callee (dynamic
    dispatch from a known most-derived class)."""
    if lambdas is None:
        lambdas = local_lambdas(owner["body"]) if owner is not None and owner.get("body") is not None else {}

    def lambda_of(tgt):
        tgt = strip(tgt)
        if isinstance(tgt, dict) and tgt.get("k") == "lambda" and tgt.get("params") is not None:
            return tgt
        if isinstance(tgt, dict) and tgt.get("k") == "ref" and tgt.get("id") in lambdas:
            return lambdas[tgt["id"]]
        return None

    def rec(n, depth, stack):
        if isinstance(n, list):
            return [rec(x, depth, stack) for x in n]
        if not isinstance(n, dict):
            return n
        out = {a: rec(v, depth, stack) if isinstance(v, (dict, list)) and a != "params" else v for a, v in n.items()}
        if out.get("k") != "call" or depth >= maxdepth:
            return out
        args = out.get("args", [])
        # a call of a lambda object: local variable, parameter already substituted by a lambda expression
        tgt = out.get("callee") if out.get("ck") == "indirect" else \
            (out.get("recv") if out.get("ck") == "op" and out.get("op") == "()" else None)
        lam = lambda_of(tgt) if tgt is not None else None
        if lam is not None and len(lam["params"]) == len(args) and id(lam) not in stack:
            env = {p["name"]: a for p, a in zip(lam["params"], args)}
            body = rec(_subst(copy.deepcopy(lam["body"]), env, None), depth + 1, stack + (id(lam),))
            return {"k": "inlined", "name": "<lambda>", "l": out.get("l"), "f": out.get("f"), "call": out, "body": body,
                    "t": out.get("t")}
        fq = out.get("fn")
        if fq and out.get("ck") != "op" and fq not in stack:
            cands = [t for t in F.fns(fq) if len(t["params"]) == len(args) and is_helper(t, owner, stop)]
            if resolve is not None:
                r = resolve(out)
                if r is not None and r.get("body") is not None and len(r["params"]) == len(args) and \
                        r["q"] not in stack:
                    cands, fq = [r], r["q"]
                elif r is False:
                    cands = []
            if len(cands) == 1:
                t = cands[0]
                env = {}
                for p, a in zip(t["params"], args):
                    la = lambda_of(a)
                    env[p["name"]] = la if la is not None else a
                body = rec(_subst(copy.deepcopy(t["body"]), env, out.get("recv")), depth + 1, stack + (fq,))
                return {"k": "inlined", "name": out.get("name"), "fn": fq, "l": out.get("l"), "f": out.get("f"),
                        "call": out, "body": body, "t": out.get("t")}
        return out
    return rec(copy.deepcopy(node), 0, ((owner or {}).get("q"),))


def expanded_fn(fn, F, stop=(), maxdepth=3, resolve=None):
    """Function facts with an expanded body."""
    if fn.get("body") is None:
        return fn
    new = dict(fn)
    new["body"] = expand(fn["body"], F, owner=fn, stop=stop, maxdepth=maxdepth, resolve=resolve)
    return new


# ------------------------------------------------------------------------------------------ per-kind slicing
class KindSlicer:
    """See module docstring.  `subject`: name of the parameter whose kind is dispatched on (default: the first
    parameter; "this" for member functions of expression_t that look at data->kind / get_kind())."""

    def __init__(self, F, fn, subject=None, stop=(), expand_helpers=True):
        self.F = F
        self.fn = expanded_fn(fn, F, stop=stop) if expand_helpers else fn
        self.subject = subject if subject is not None else (fn["params"][0]["name"] if fn.get("params") else "this")

    # ---- kind expressions and conditions
    def is_kind_expr(self, e, env):
        e = strip(e)
        if not isinstance(e, dict):
            return False
        if e.get("k") == "ref" and e.get("dk") == "local" and env.get(("kind", e.get("id"))):
            return True
        if e.get("k") == "member" and e.get("name") == "kind" and self.subject == "this":
            return True
        if e.get("k") == "call" and e.get("name") == "get_kind":
            r = strip(e.get("recv"))
            if r is None or r.get("k") == "this":
                return self.subject == "this"
            return r.get("k") == "ref" and r.get("name") == self.subject
        return False

    def cond(self, c, K, env):
        """True / False / None (does not depend on the kind alone)."""
        c = strip(c)
        if not isinstance(c, dict):
            return None
        k = c.get("k")
        if k == "bool":
            return bool(c["v"])
        if k == "ref" and c.get("dk") == "local" and ("bool", c.get("id")) in env:
            return env[("bool", c["id"])]
        if k == "un" and c.get("op") == "!":
            v = self.cond(c["e"], K, env)
            return None if v is None else not v
        if k == "bin" and c.get("op") in ("&&", "||"):
            a, b = self.cond(c["lhs"], K, env), self.cond(c["rhs"], K, env)
            if c["op"] == "&&":
                return False if (a is False or b is False) else (True if a and b else None)
            return True if (a is True or b is True) else (False if a is False and b is False else None)
        if k == "bin" and c.get("op") in ("==", "!="):
            for x, y in ((c["lhs"], c["rhs"]), (c["rhs"], c["lhs"])):
                y = strip(y)
                if self.is_kind_expr(x, env) and isinstance(y, dict) and y.get("k") == "ref" and y.get("dk") == "enumerator":
                    eq = y["name"] == K
                    return eq if c["op"] == "==" else not eq
            return None
        if k == "cond":
            v = self.cond(c["c"], K, env)
            if v is None:
                a, b = self.cond(c["a"], K, env), self.cond(c["b"], K, env)
                return a if a == b else None
            return self.cond(c["a"] if v else c["b"], K, env)
        if k == "inlined":
            return self.value_of(c["body"], K, dict(env))
        return None

    def value_of(self, body, K, env):
        """Truth value returned by an inlined predicate body for kind K, or None."""
        stmts = body.get("s", []) if isinstance(body, dict) and body.get("k") == "block" else [body]
        res = []

        def run(ss):
            for s in ss:
                if not isinstance(s, dict):
                    continue
                k = s.get("k")
                if k == "cret":
                    res.append(self.cond(s.get("e"), K, env) if s.get("e") is not None else None)
                    return True
                if k == "decl":
                    self.bind(s, K, env)
                elif k == "block":
                    if run(s.get("s", [])):
                        return True
                elif k == "if":
                    v = self.cond(s["c"], K, env)
                    if v is None:
                        if any(x.get("k") == "cret" for x in walk(s)):
                            res.append(None)
                            return True
                        continue
                    br = s.get("then") if v else s.get("else")
                    if br is not None and run([br]):
                        return True
                elif k == "switch" and self.is_kind_expr(s.get("c") or s.get("e") or s.get("cond") or {}, env):
                    if run(self.pick_cases(s, K)):
                        return True
                elif k == "break":
                    return False
                elif any(x.get("k") == "cret" for x in walk(s)):
                    res.append(None)
                    return True
            return False
        run(stmts)
        return res[0] if res else None

    def bind(self, decl, K, env):
        for v in decl.get("vars", []):
            init = v.get("init")
            if init is None:
                continue
            if self.is_kind_expr(init, env):
                env[("kind", v.get("id"))] = True
            elif (v.get("ct") or v.get("t") or "").replace("const ", "") == "bool":
                b = self.cond(init, K, env)
                if b is not None:
                    env[("bool", v.get("id"))] = b

    @staticmethod
    def switch_selector(s):
        for key in ("c", "e", "cond", "sel"):
            if isinstance(s.get(key), dict):
                return s[key]
        return {}

    def pick_cases(self, sw, K):
        """Statements executed by `switch (kind)` for K, fall-through included, up to the terminating break/return."""
        items = []
        for s in (sw.get("body") or {}).get("s", []):
            labels = []
            while isinstance(s, dict) and s.get("k") in ("case", "default"):
                if s["k"] == "case":
                    v = strip(s.get("v", {}))
                    labels.append(v.get("name") if isinstance(v, dict) and v.get("k") == "ref" else None)
                else:
                    labels.append("default")
                s = s.get("s")
            items.append((labels, s))
        st = None
        for i, (labels, _) in enumerate(items):
            if K in labels:
                st = i
        if st is None:
            for i, (labels, _) in enumerate(items):
                if "default" in labels:
                    st = i
        if st is None:
            return []
        out = []
        for labels, s in items[st:]:
            if s is None:
                continue
            out.append(s)
            if isinstance(s, dict) and s.get("k") in ("break", "return", "cret"):
                break
        return out

    # ---- slicing
    def slice(self, K):
        env = {}
        out, _ = self._stmts(self.fn["body"].get("s", []), K, env)
        return {"k": "block", "s": out, "sliced_for": K}

    def _stmts(self, ss, K, env):
        """-> (statements, terminator) with terminator in (None, "break", "return")."""
        out = []
        for s in ss:
            if not isinstance(s, dict):
                continue
            k = s.get("k")
            if k == "decl":
                self.bind(s, K, env)
                out.append(s)
            elif k == "block":
                o, t = self._stmts(s.get("s", []), K, env)
                out += o
                if t:
                    return out, t
            elif k in ("attributed", "label"):
                o, t = self._stmts([s.get("s")], K, env)
                out += o
                if t:
                    return out, t
            elif k == "if":
                for d in ([s["init"]] if isinstance(s.get("init"), dict) else []):
                    if d.get("k") == "decl":
                        self.bind(d, K, env)
                v = self.cond(s["c"], K, env)
                if v is None:
                    th, t1 = self._stmts([s["then"]], K, dict(env)) if s.get("then") is not None else ([], None)
                    el, t2 = self._stmts([s["else"]], K, dict(env)) if s.get("else") is not None else ([], None)
                    n = dict(s, then={"k": "block", "s": th})
                    if s.get("else") is not None:
                        n["else"] = {"k": "block", "s": el}
                    out.append(n)
                    if t1 and t2 and t1 == t2:
                        return out, t1
                else:
                    out.append({"k": "decided", "c": s["c"], "v": v, "l": s.get("l")})
                    br = s.get("then") if v else s.get("else")
                    if br is not None:
                        o, t = self._stmts([br], K, env)
                        out += o
                        if t:
                            return out, t
            elif k == "switch" and self.is_kind_expr(self.switch_selector(s), env):
                o, t = self._stmts(self.pick_cases(s, K), K, env)
                out += o
                if t == "return":
                    return out, t
            elif k in ("for", "while", "do", "rangefor"):
                o, _ = self._stmts([s.get("body")] if s.get("body") is not None else [], K, dict(env))
                out.append(dict(s, body={"k": "block", "s": o}))
            elif k == "break" or k == "continue":
                return out, "break"
            elif k in ("return", "cret"):
                out.append(self._expr(s, K, env))
                return out, "return"
            else:
                out.append(self._expr(s, K, env))
        return out, None

    def _expr(self, n, K, env):
        """slice the bodies of inlined calls that occur in an expression (their own returns end only themselves)"""
        if isinstance(n, list):
            return [self._expr(x, K, env) for x in n]
        if not isinstance(n, dict):
            return n
        if n.get("k") == "inlined":
            b = n.get("body") or {}
            ss = b.get("s", []) if b.get("k") == "block" else [b]
            o, _ = self._stmts(ss, K, dict(env))
            return dict(n, body={"k": "block", "s": o}, call=n.get("call"))
        if n.get("k") == "lambda":
            return n
        return {a: self._expr(v, K, env) if isinstance(v, (dict, list)) and a != "call" else v for a, v in n.items()}


# ------------------------------------------------------------------------------------------ who may modify a field
def walk_ctx(n, parent=None, key=None, idx=None):
    """Pre-order walk yielding (node, parent, key-in-parent, index-in-list-or-None)."""
    if isinstance(n, dict):
        yield n, parent, key, idx
        for k, v in n.items():
            if isinstance(v, dict):
                yield from walk_ctx(v, n, k, None)
            elif isinstance(v, list):
                for i, x in enumerate(v):
                    if isinstance(x, (dict, list)):
                        yield from walk_ctx(x, n, k, i)
    elif isinstance(n, list):
        for i, x in enumerate(n):
            yield from walk_ctx(x, parent, key, i)


def _nonconst_ref(t):
    t = (t or "").strip()
    return t.endswith("&") and not t.endswith("&&") and not t.startswith("const ") and " const &" not in t and \
        "const&" not in t


def mutable_uses(body, pred):
    """Nodes n in body with pred(n) that are used as something that can be written through: the left side of an
    assignment (plain, compound, overloaded), the operand of ++ / -- / unary &, an argument bound to a non-const
    lvalue-reference parameter, or the initialiser of a non-const reference variable.  Reads (including `x->field`
    and by-value / const-reference arguments) are not reported."""
    out = []
    for n, p, key, idx in walk_ctx(body):
        if not pred(n) or p is None:
            continue
        pk = p.get("k")
        if pk == "bin" and key == "lhs" and (p.get("op") == "=" or (p.get("op", "").endswith("=") and
                                                                    p.get("op") not in ("==", "!=", "<=", ">="))):
            out.append(n)
        elif pk == "un" and p.get("op") in ("++", "--", "&", "post++", "post--", "pre++", "pre--"):
            out.append(n)
        elif pk == "call" and key == "recv" and p.get("ck") == "op" and (p.get("op") or "").endswith("=") and \
                p.get("op") not in ("==", "!=", "<=", ">="):
            out.append(n)
        elif pk == "call" and key == "args" and idx is not None:
            pt = p.get("pt") or []
            off = 0
            if p.get("ck") == "op" and p.get("recv") is None and len(pt) == len(p.get("args", [])) - 1:
                off = 1         # member operator written with the object as first argument
            j = idx - off
            if 0 <= j < len(pt) and _nonconst_ref(pt[j]):
                out.append(n)
        elif pk is None and key == "init" and _nonconst_ref(p.get("t") or p.get("ct")):
            out.append(n)       # a variable record inside a decl: {"name","t","init"}
    return out


# ------------------------------------------------------------------------------------------ path conditions
def always_exits(s):
    """Does statement s leave the enclosing function / loop iteration on every path (return, throw, break, continue)?"""
    if not isinstance(s, dict):
        return False
    k = s.get("k")
    if k in ("return", "throw", "break", "continue", "cret"):
        return True
    if k == "block":
        return any(always_exits(x) for x in s.get("s", []))
    if k == "if":
        return s.get("else") is not None and always_exits(s.get("then")) and always_exits(s.get("else"))
    if k in ("attributed", "label"):
        return always_exits(s.get("s"))
    if k == "call" and s.get("noreturn"):
        return True
    return False


def sites_with_conditions(body, pred):
    """[(node, conds)] for every node with pred(node) in body; conds is the list of (condition expression, truth) that
    hold when the node is evaluated: enclosing if / ?: / && / || / loop conditions, and the negation of every earlier
    `if (c) <always exits>` in an enclosing statement list."""
    out = []

    def expr(e, conds):
        if isinstance(e, list):
            for x in e:
                expr(x, conds)
            return
        if not isinstance(e, dict):
            return
        if pred(e):
            out.append((e, list(conds)))
        k = e.get("k")
        if k == "cond":
            expr(e.get("c"), conds)
            expr(e.get("a"), conds + [(e["c"], True)])
            expr(e.get("b"), conds + [(e["c"], False)])
            return
        if k == "bin" and e.get("op") in ("&&", "||"):
            expr(e.get("lhs"), conds)
            expr(e.get("rhs"), conds + [(e["lhs"], e["op"] == "&&")])
            return
        if k in ("block", "if", "for", "while", "do", "rangefor", "switch", "try", "decl", "return", "cret"):
            stmt(e, conds, nested=True)
            return
        for a, v in e.items():
            if isinstance(v, (dict, list)) and a != "call":
                expr(v, conds)

    def stmts(ss, conds):
        conds = list(conds)
        for s in ss:
            stmt(s, conds)
            if isinstance(s, dict) and s.get("k") == "if":
                te, ee = always_exits(s.get("then")), s.get("else") is not None and always_exits(s.get("else"))
                if te and not ee:
                    conds.append((s["c"], False))
                elif ee and not te:
                    conds.append((s["c"], True))

    def stmt(s, conds, nested=False):
        if not isinstance(s, dict):
            return
        k = s.get("k")
        if pred(s) and not nested:
            out.append((s, list(conds)))
        if k == "block":
            stmts(s.get("s", []), conds)
        elif k == "if":
            if s.get("init") is not None:
                expr(s["init"], conds) if s["init"].get("k") != "decl" else stmt(s["init"], conds)
            expr(s.get("c"), conds)
            if s.get("then") is not None:
                stmts([s["then"]], conds + [(s["c"], True)])
            if s.get("else") is not None:
                stmts([s["else"]], conds + [(s["c"], False)])
        elif k in ("for", "while"):
            for key in ("init", "inc", "step"):
                if s.get(key) is not None:
                    expr(s[key], conds) if s[key].get("k") != "decl" else stmt(s[key], conds)
            if s.get("c") is not None:
                expr(s["c"], conds)
            inner = conds + ([(s["c"], True)] if s.get("c") is not None else [])
            if s.get("body") is not None:
                stmts([s["body"]], inner)
        elif k in ("do", "rangefor", "switch", "try"):
            for key, v in s.items():
                if key == "body":
                    stmts([v], conds)
                elif isinstance(v, (dict, list)) and key not in ("var",):
                    expr(v, conds)
        elif k in ("case", "default", "attributed", "label"):
            stmts([s.get("s")], conds)
        elif k == "decl":
            for v in s.get("vars", []):
                if v.get("init") is not None:
                    expr(v["init"], conds)
        elif k in ("return", "cret", "throw"):
            if s.get("e") is not None:
                expr(s["e"], conds)
        elif k == "inlined":
            b = s.get("body") or {}
            stmts(b.get("s", []) if b.get("k") == "block" else [b], conds)
        else:
            for a, v in s.items():
                if isinstance(v, (dict, list)) and a != "call":
                    expr(v, conds)
    stmts(body.get("s", []) if isinstance(body, dict) and body.get("k") == "block" else [body], [])
    return out
