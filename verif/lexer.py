"""Lexer IR: the rule list of lexer.l (start conditions, parsed flex pattern) joined
with the type-resolved action of each rule taken from the `switch (yy_act)` of the
generated lexer_flex() (via #line), and the keyword table of keywords.cpp (read
from the initializer list in the AST, not from text)."""
import os
import re

from .front import AnalysisBroken, REPO
from .facts import walk, short


# ------------------------------------------------------------------ flex pattern parser
class PatErr(Exception):
    pass


def _esc(c):
    return {"n": "\n", "t": "\t", "r": "\r", "f": "\f", "v": "\v", "a": "\a", "b": "\b", "0": "\0"}.get(c, c)


class PatParser:
    def __init__(self, s, defs):
        self.s, self.i, self.defs = s, 0, defs

    def peek(self):
        return self.s[self.i] if self.i < len(self.s) else ""

    def parse(self):
        if self.s == "<<EOF>>":
            return ("eof",)
        r = self.alt()
        if self.i != len(self.s):
            raise PatErr("trailing %r in %r" % (self.s[self.i:], self.s))
        return r

    def alt(self):
        xs = [self.cat()]
        while self.peek() == "|":
            self.i += 1
            xs.append(self.cat())
        return xs[0] if len(xs) == 1 else ("alt", xs)

    def cat(self):
        xs = []
        while self.peek() and self.peek() not in "|)":
            xs.append(self.post())
        return xs[0] if len(xs) == 1 else ("cat", xs)

    def post(self):
        a = self.atom()
        while True:
            c = self.peek()
            if c == "*":
                a = ("star", a)
            elif c == "+":
                a = ("plus", a)
            elif c == "?":
                a = ("opt", a)
            elif c == "{" and re.match(r"\{\d+(,\d*)?\}", self.s[self.i:]):
                m = re.match(r"\{(\d+)(,(\d*))?\}", self.s[self.i:])
                lo = int(m.group(1))
                hi = lo if m.group(2) is None else (int(m.group(3)) if m.group(3) else None)
                a = ("rep", a, lo, hi)
                self.i += m.end() - 1
            else:
                return a
            self.i += 1

    def atom(self):
        c = self.peek()
        if c == "(":
            self.i += 1
            r = self.alt()
            if self.peek() != ")":
                raise PatErr("unbalanced ( in %r" % self.s)
            self.i += 1
            return r
        if c == '"':
            self.i += 1
            out = []
            while self.peek() != '"':
                if not self.peek():
                    raise PatErr("unterminated string in %r" % self.s)
                if self.peek() == "\\":
                    self.i += 1
                    out.append(("lit", _esc(self.peek())))
                else:
                    out.append(("lit", self.peek()))
                self.i += 1
            self.i += 1
            return out[0] if len(out) == 1 else ("cat", out)
        if c == "[":
            self.i += 1
            neg = False
            if self.peek() == "^":
                neg = True
                self.i += 1
            chars = set()
            first = True
            while self.peek() != "]" or first:
                if not self.peek():
                    raise PatErr("unterminated class in %r" % self.s)
                first = False
                ch = self.peek()
                if ch == "\\":
                    self.i += 1
                    ch = _esc(self.peek())
                self.i += 1
                if self.peek() == "-" and self.i + 1 < len(self.s) and self.s[self.i + 1] != "]":
                    self.i += 1
                    hi = self.peek()
                    if hi == "\\":
                        self.i += 1
                        hi = _esc(self.peek())
                    self.i += 1
                    for o in range(ord(ch), ord(hi) + 1):
                        chars.add(chr(o))
                else:
                    chars.add(ch)
            self.i += 1
            return ("class", frozenset(chars), neg)
        if c == "{":
            m = re.match(r"\{([A-Za-z_][A-Za-z0-9_-]*)\}", self.s[self.i:])
            if not m or m.group(1) not in self.defs:
                raise PatErr("unknown definition at %r" % self.s[self.i:])
            self.i += m.end()
            return PatParser(self.defs[m.group(1)], self.defs).parse()
        if c == ".":
            self.i += 1
            return ("class", frozenset("\n"), True)
        if c == "\\":
            self.i += 1
            ch = _esc(self.peek())
            self.i += 1
            return ("lit", ch)
        self.i += 1
        return ("lit", c)


def pat_literal(p):
    """The single string a pattern matches, if it is a pure literal."""
    if p[0] == "lit":
        return p[1]
    if p[0] == "cat":
        out = []
        for x in p[1]:
            s = pat_literal(x)
            if s is None:
                return None
            out.append(s)
        return "".join(out)
    return None


def pat_can_match(p, ch):
    """May a match of p contain character ch?"""
    k = p[0]
    if k == "lit":
        return p[1] == ch
    if k == "class":
        return (ch in p[1]) != p[2]
    if k in ("cat", "alt"):
        return any(pat_can_match(x, ch) for x in p[1])
    if k in ("star", "plus", "opt", "rep"):
        return pat_can_match(p[1], ch)
    return False


def pat_count(p, ch):
    """(min, max, per_len) number of occurrences of ch in a match; max None = unbounded.
    per_len: if every match consists of n repetitions of a fixed block of length L holding c
    occurrences, returns (L, c) so that count = yyleng * c / L; else None."""
    k = p[0]
    if k == "lit":
        n = 1 if p[1] == ch else 0
        return n, n
    if k == "class":
        has = (ch in p[1]) != p[2]
        only = (not p[2]) and p[1] == frozenset(ch)
        return (1 if only else 0), (1 if has else 0)
    if k == "cat":
        lo = hi = 0
        for x in p[1]:
            a, b = pat_count(x, ch)
            lo += a
            hi = None if (hi is None or b is None) else hi + b
        return lo, hi
    if k == "alt":
        rs = [pat_count(x, ch) for x in p[1]]
        return min(r[0] for r in rs), (None if any(r[1] is None for r in rs) else max(r[1] for r in rs))
    if k == "opt":
        return 0, pat_count(p[1], ch)[1]
    if k == "star":
        b = pat_count(p[1], ch)[1]
        return 0, (0 if b == 0 else None)
    if k == "plus":
        a, b = pat_count(p[1], ch)
        return a, (0 if b == 0 else None)
    if k == "rep":
        a, b = pat_count(p[1], ch)
        return a * p[2], (None if (b is None or p[3] is None) and b != 0 else (0 if b == 0 else b * p[3]))
    return 0, 0


def pat_fixed_len(p):
    k = p[0]
    if k in ("lit", "class"):
        return 1
    if k == "cat":
        t = 0
        for x in p[1]:
            n = pat_fixed_len(x)
            if n is None:
                return None
            t += n
        return t
    if k == "alt":
        ls = {pat_fixed_len(x) for x in p[1]}
        return ls.pop() if len(ls) == 1 and None not in ls else None
    return None


def inline_helpers(node, facts, depth=0, stack=()):
    """Copy of a facts subtree in which every call to a function *defined in lexer.l / parser.y user code* (a helper
    extracted from scanner actions) is replaced by
        {"k": "inlined", "name", "call": <original call>, "body": <callee body, parameters substituted by the
         argument expressions, its `return e` turned into {"k": "cret", "e": e}>}
    so that rules which look for what an action does (line accounting, BEGIN, builder calls, the tokens it can return)
    see through the helper.  Recursive helpers and helpers deeper than 4 levels are left as calls."""
    import copy

    def subst(n, env):
        if isinstance(n, list):
            return [subst(x, env) for x in n]
        if not isinstance(n, dict):
            return n
        if n.get("k") == "ref" and n.get("dk") == "param" and n.get("name") in env:
            return env[n["name"]]
        if n.get("k") == "return":
            return {"k": "cret", "l": n.get("l"), "f": n.get("f"), "e": subst(n.get("e"), env) if n.get("e") is not None else None}
        return {k: subst(v, env) if isinstance(v, (dict, list)) else v for k, v in n.items()}

    def rec(n, depth, stack):
        if isinstance(n, list):
            return [rec(x, depth, stack) for x in n]
        if not isinstance(n, dict):
            return n
        out = {k: rec(v, depth, stack) if isinstance(v, (dict, list)) else v for k, v in n.items()}
        if out.get("k") == "call" and out.get("ck") in ("free", None, "static") and out.get("fn") and depth < 4:
            fq = out["fn"]
            if fq not in stack:
                for t in facts.fns(fq):
                    f = t.get("file") or ""
                    if t.get("body") is None or not f.endswith(("lexer.l", "parser.y")) or \
                            len(t["params"]) != len(out.get("args", [])) or fq in ("utap_error", "utap_lex", "lexer_flex"):
                        continue
                    env = {p["name"]: a for p, a in zip(t["params"], out.get("args", []))}
                    body = rec(subst(copy.deepcopy(t["body"]), env), depth + 1, stack + (fq,))
                    return {"k": "inlined", "name": out.get("name"), "l": out.get("l"), "f": out.get("f"),
                            "call": out, "body": body}
        return out
    return rec(node, depth, stack)


def leaf_returns(e):
    """The expressions an action's `return e` can evaluate to, looking through inlined helpers and ?: ."""
    if e is None:
        return []
    while isinstance(e, dict) and e.get("k") == "cast":
        e = e["e"]
    if e.get("k") == "inlined":
        out = []
        for x in walk(e["body"]):
            if x.get("k") == "cret" and x.get("e") is not None:
                out += leaf_returns(x["e"])
        return out
    if e.get("k") == "cond":
        return leaf_returns(e["a"]) + leaf_returns(e["b"])
    return [e]


class LexRule:
    __slots__ = ("num", "sc", "text", "pat", "line", "endline", "action", "eof", "shared_with_next")

    def __repr__(self):
        return "lex#%s <%s> %s @%d" % (self.num, self.sc, self.text, self.line)


class Lexer:
    def __init__(self, facts):
        path = os.path.join(REPO, "src", "lexer.l")
        with open(path, encoding="utf-8", errors="replace") as f:
            lines = f.read().split("\n")
        try:
            i1 = lines.index("%%")
            i2 = lines.index("%%", i1 + 1)
        except ValueError:
            raise AnalysisBroken("lexer.l has no %% sections")
        self.defs = {}
        self.exclusive = []
        in_code = False
        for ln in lines[:i1]:
            if ln.startswith("%{"):
                in_code = True
            elif ln.startswith("%}"):
                in_code = False
            elif in_code:
                continue
            elif ln.startswith("%x"):
                self.exclusive += ln.split()[1:]
            else:
                m = re.match(r"^([A-Za-z_][A-Za-z0-9_-]*)\s+(\S.*?)\s*$", ln)
                if m:
                    self.defs[m.group(1)] = m.group(2)
        self.rules = []
        self._parse_rules(lines, i1 + 1, i2)
        self._join_actions(facts)

    def _split_pattern(self, s):
        """Split 'pattern action' at the first unquoted whitespace outside [] and ()."""
        i, depth, n = 0, 0, len(s)
        while i < n:
            c = s[i]
            if c == "\\":
                i += 2
                continue
            if c == '"':
                i += 1
                while i < n and s[i] != '"':
                    i += 2 if s[i] == "\\" else 1
                i += 1
                continue
            if c == "[":
                i += 1
                if i < n and s[i] == "^":
                    i += 1
                if i < n and s[i] == "]":
                    i += 1
                while i < n and s[i] != "]":
                    i += 2 if s[i] == "\\" else 1
                i += 1
                continue
            if c == "(":
                depth += 1
            elif c == ")":
                depth -= 1
            elif c in " \t" and depth == 0:
                return s[:i], s[i:]
            i += 1
        return s, ""

    @staticmethod
    def _brace_delta(s):
        # ignore braces in string / char literals and // comments
        d, i, n = 0, 0, len(s)
        while i < n:
            c = s[i]
            if c == '"':
                i += 1
                while i < n and s[i] != '"':
                    i += 2 if s[i] == "\\" else 1
            elif c == "'":
                i += 1
                while i < n and s[i] != "'":
                    i += 2 if s[i] == "\\" else 1
            elif c == "/" and i + 1 < n and s[i + 1] == "/":
                break
            elif c == "{":
                d += 1
            elif c == "}":
                d -= 1
            i += 1
        return d

    def _parse_rules(self, lines, a, b):
        sc = "INITIAL"
        i = a
        num = 0
        while i < b:
            raw = lines[i]
            s = raw.strip()
            lineno = i + 1
            if not s or s.startswith("/*") or s.startswith("//"):
                i += 1
                continue
            m = re.match(r"^<([A-Za-z_,]+)>\{\s*$", s)
            if m:
                sc = m.group(1)
                i += 1
                continue
            if s == "}" and sc != "INITIAL":
                sc = "INITIAL"
                i += 1
                continue
            if raw[0] in " \t" and sc == "INITIAL":
                i += 1   # indented code line outside any rule (none expected)
                continue
            rsc = sc
            m = re.match(r"^<([A-Za-z_,*]+)>(?!\{)", s)
            if m and not s.startswith("<<EOF>>"):
                rsc = m.group(1)
                s = s[m.end():]
            pat, act = self._split_pattern(s)
            r = LexRule()
            r.sc, r.text, r.line = rsc, pat, lineno
            r.eof = pat == "<<EOF>>"
            try:
                r.pat = PatParser(pat, self.defs).parse()
            except PatErr as e:
                raise AnalysisBroken("lexer.l:%d: cannot parse flex pattern: %s" % (lineno, e))
            depth = self._brace_delta(act)
            j = i
            while depth > 0 and j + 1 < b:
                j += 1
                depth += self._brace_delta(lines[j])
            r.endline = j + 1
            r.shared_with_next = act.strip() == "|"
            r.action = None
            if not r.eof:
                num += 1
                r.num = num
            else:
                r.num = None
            self.rules.append(r)
            i = j + 1

    def _join_actions(self, facts):
        lf = facts.fn("lexer_flex")
        sws = [n for n in walk(lf["body"]) if n.get("k") == "switch"]
        if not sws:
            raise AnalysisBroken("lexer_flex has no switch")
        sw = max(sws, key=lambda s: sum(1 for _ in walk(s)))
        cases = {}
        cur = []
        for st in sw["body"]["s"]:
            k = st.get("k")
            labels = []
            while k in ("case", "default"):
                labels.append(st.get("cv") if k == "case" else "default")
                st = st["s"]
                k = st.get("k") if isinstance(st, dict) else None
            if labels:
                cur = []
                for lb in labels:
                    cases[lb] = cur
            if isinstance(st, dict):
                cur.append(st)
        self.cases = cases
        # YY_USER_ACTION: the statements every rule's case starts with (whatever the macro expands to - three
        # assignments, or a call of a helper)
        texts = None
        for lb, body in cases.items():
            if not isinstance(lb, int) or lb < 1 or lb > len([r for r in self.rules if not r.eof]):
                continue
            t = {short(s_) for s_ in body if (s_.get("f") or "").endswith("lexer.l") or s_.get("f") is None}
            texts = t if texts is None else (texts & t)
        self._ua_texts = {t for t in (texts or set()) if t not in ("<break>", "break", "")}
        ua_stmts = []
        for lb, body in cases.items():
            if isinstance(lb, int) and lb >= 1:
                ua_stmts = [s_ for s_ in body if short(s_) in self._ua_texts and s_.get("k") != "break"]
                if ua_stmts:
                    break
        self.user_action = inline_helpers({"k": "block", "s": ua_stmts}, facts)
        nrules = len([r for r in self.rules if not r.eof])
        by_num = {r.num: r for r in self.rules if not r.eof}
        for n, r in by_num.items():
            if n not in cases:
                raise AnalysisBroken("lexer rule %r has no case in lexer_flex" % r)
            body = [s for s in cases[n] if (s.get("f") or "").endswith("lexer.l") and
                    r.line <= s.get("l", 0) <= max(r.endline, r.line)]
            # drop YY_USER_ACTION (expanded at the rule's line): keep statements that are blocks / returns
            ua = [s for s in body if not self._is_user_action(s)]
            body = [b for b in body if not self._is_user_action(b)] or body
            r.action = {"k": "block", "s": [s for s in ua if s.get("k") != "break"]}
            anyline = [s for s in cases[n] if (s.get("f") or "").endswith("lexer.l")
                       and not self._is_user_action(s) and s.get("k") not in ("break", "null")]
            if anyline and not [b for b in body if b in anyline] and not r.shared_with_next:
                raise AnalysisBroken("lexer rule %r: action lines do not match case %d" % (r, n))
        # EOF rules: cases above nrules+1
        eofs = [r for r in self.rules if r.eof]
        for r in eofs:
            for lb, body in cases.items():
                if isinstance(lb, int) and lb > nrules and any(
                        (s.get("f") or "").endswith("lexer.l") and r.line <= s.get("l", 0) <= r.endline for s in body):
                    r.action = {"k": "block", "s": [s for s in body if (s.get("f") or "").endswith("lexer.l")
                                                     and s.get("k") != "break"]}
            if r.action is None:
                raise AnalysisBroken("EOF rule %r has no case" % r)
        self.n_rules = nrules
        for r in self.rules:
            if r.action is not None:
                r.action = inline_helpers(r.action, facts)

    def _is_user_action(self, s):
        # yylloc.start = tracker.position; tracker.increment(ch, yyleng); yylloc.end = tracker.position;
        if short(s) in getattr(self, "_ua_texts", ()) and s.get("k") != "break":
            return True
        if s.get("k") == "bin" and s.get("op") == "=" and s["lhs"].get("k") == "member" and \
                s["lhs"].get("name") in ("start", "end") and s["lhs"].get("base", {}).get("name") == "utap_lloc":
            return True
        if s.get("k") == "call" and s.get("name") == "increment" and s.get("cls", "").endswith("PositionTracker"):
            return True
        return False

    # ------------------------------------------------------------------ queries
    def returns(self, r):
        """Return statements of a rule's action, one pseudo node per value the returned expression can have (looking
        through inlined helpers and conditional expressions)."""
        out = []
        if not r.action:
            return out
        for n in walk(r.action):
            if n.get("k") != "return":
                continue
            if n.get("e") is None:
                out.append(n)
                continue
            leaves = leaf_returns(n["e"])
            if len(leaves) == 1 and leaves[0] is n["e"]:
                out.append(n)
            else:
                out += [dict(n, e=x) for x in leaves]
        return out

    def literal_tokens(self):
        """lexeme -> set of returned token names, for INITIAL rules with pure-literal patterns."""
        out = {}
        for r in self.rules:
            if r.eof or r.sc != "INITIAL":
                continue
            s = pat_literal(r.pat)
            if s is None:
                continue
            toks = set()
            for ret in self.returns(r):
                e = ret.get("e")
                if e is None:
                    continue
                toks.add(token_name(e))
            out.setdefault(s, set()).update(toks)
        return out


def token_name(e):
    """Token returned by `return X`: enumerator name, or a character literal as bison spells it."""
    k = e.get("k")
    if k == "ref" and e.get("dk") == "enumerator":
        return e["name"]
    if k == "char":
        c = chr(e["v"])
        return {"\n": "'\\n'", "'": "'\\''", "\\": "'\\\\'"}.get(c, "'%s'" % c)
    if k == "int":
        return "$end" if e["v"] == 0 else "#%d" % e["v"]
    if k == "member":
        return "<%s>" % e.get("name")
    return "<?>"


class Keywords:
    """keyword -> (token name, syntax mask expression) from the initializer of the keyword table."""

    def __init__(self, facts):
        self.map = {}
        tab = None
        for q, gs in facts.globals.items():
            for g in gs:
                if g["file"].endswith("keywords.cpp") and g.get("init") is not None:
                    if sum(1 for n in walk(g["init"]) if n.get("k") == "str") > 20:
                        tab = g
        if tab is None:
            # may be a function-local static
            for fn in facts.functions.values():
                if fn["file"].endswith("keywords.cpp"):
                    for n in walk(fn["body"]):
                        if n.get("k") == "decl":
                            for v in n["vars"]:
                                if v.get("init") and sum(1 for x in walk(v["init"]) if x.get("k") == "str") > 20:
                                    tab = v
        if tab is None:
            raise AnalysisBroken("keyword table not found in keywords.cpp")
        self.table = tab
        # entries: initlist / construct nodes having a str child and an enumerator child
        for n in walk(tab["init"]):
            if n.get("k") not in ("initlist", "construct"):
                continue
            kids = n.get("e") if n.get("k") == "initlist" else n.get("args")
            if not kids or len(kids) < 2:
                continue
            strs = [self._str(x) for x in kids]
            if strs[0] is None:
                continue
            # token: first enumerator of yytokentype (or int) below the remaining children
            tok = None
            syn = []
            for x in kids[1:]:
                for y in walk(x):
                    if y.get("k") == "ref" and y.get("dk") == "enumerator":
                        if y.get("enum", "").endswith("tokentype") and tok is None:
                            tok = y["name"]
                        elif "syntax" in y.get("enum", ""):
                            syn.append(y["name"])
            if tok is not None:
                self.map[strs[0]] = (tok, tuple(sorted(set(syn))))

    @staticmethod
    def _str(x):
        for y in walk(x):
            if y.get("k") == "str":
                return y.get("v")
            if y.get("k") in ("initlist",):
                return None
        return None
