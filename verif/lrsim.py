"""LR(1) simulation over the automaton bison reports (no libutap code is executed: this interprets
the *table*, which is a finite object extracted from parser.y on every run)."""


class ParseError(Exception):
    pass


class Node:
    __slots__ = ("rule", "sym", "kids", "tok")

    def __init__(self, sym, rule=None, kids=None, tok=None):
        self.sym, self.rule, self.kids, self.tok = sym, rule, kids or [], tok


class LRSim:
    def __init__(self, G):
        self.G = G

    def action(self, st, la):
        if la in st.shifts:
            return ("shift", st.shifts[la])
        if la in st.reductions:
            return ("reduce", st.reductions[la][0])
        if st.default is not None:
            return ("reduce", st.default)
        return ("error", None)

    def parse(self, tokens):
        """tokens: list of terminal names (as bison spells them). Returns the Node of the start symbol."""
        G = self.G
        states = [0]
        nodes = []
        toks = list(tokens) + ["$end"]
        i = 0
        steps = 0
        while True:
            steps += 1
            if steps > 100000:
                raise ParseError("no progress")
            st = G.states[states[-1]]
            la = toks[i]
            act, arg = self.action(st, la)
            if act == "shift":
                states.append(arg)
                nodes.append(Node(la, tok=la))
                i += 1
                if la == "$end":
                    return nodes[0]
            elif act == "reduce":
                if arg == -1 or arg == 0:
                    return nodes[0]
                r = G.rules[arg]
                n = len(r.rhs)
                kids = nodes[len(nodes) - n:] if n else []
                if n:
                    del nodes[len(nodes) - n:]
                    del states[len(states) - n:]
                nodes.append(Node(r.lhs, rule=r, kids=kids))
                top = G.states[states[-1]]
                if r.lhs not in top.gotos:
                    raise ParseError("no goto on %s in state %d" % (r.lhs, top.num))
                states.append(top.gotos[r.lhs])
            else:
                raise ParseError("syntax error at token %d (%s) in state %d" % (i, la, st.num))


def shape(n, keep=("Expression", "Assignment", "DynamicExpression", "MITLExpression", "ExprList")):
    """Canonical grouping of a parse tree: parentheses and unit productions are transparent; every other
    production of the expression family becomes [rule signature, shapes of its operand children...]."""
    if n.tok is not None:
        return n.tok
    r = n.rule
    kids = [k for k in n.kids]
    if n.sym in keep:
        rhs = r.rhs
        if len(rhs) == 3 and rhs[0] == "'('" and rhs[2] == "')'" and rhs[1] in keep:
            return shape(kids[1], keep)
        if len(rhs) == 1 and (rhs[0] in keep):
            return shape(kids[0], keep)
    out = [r.sig if n.sym in keep else n.sym]
    for k in kids:
        if k.tok is not None:
            if k.tok in ("T_ID", "T_NAT", "T_FLOATING", "T_TRUE", "T_FALSE"):
                out.append(k.tok)
            continue
        s = shape(k, keep)
        out.append(s)
    if n.sym not in keep:
        # flatten helper nonterminals (NonTypeId, UnaryOp, AssignOp ...): keep their token content
        flat = [r.sig]
        for k in kids:
            flat.append(k.tok if k.tok is not None else shape(k, keep))
        return flat
    return out
