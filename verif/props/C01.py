"""C01 - no input crashes / corrupts memory: memory-safety clauses decidable from the code shape."""
from ..report import Check
from ..callgraph import CallGraph
from ..rules import stack, nullness, progress, driver, scopes

CONFIGS = [("doc", "UTAP::DocumentBuilder"), ("query", "UTAP::TigaPropertyBuilder")]


def run(F, G, tier, seed):
    chk = Check("C01", tier, "other", seed)
    CG = CallGraph(F)
    for tag, cls in CONFIGS:
        F.record(cls)
        T = stack.Typing(F, G, CG, cls)
        stack.check(chk, T, "R-STACK[%s]" % tag, cls, emit=("U", "P", "N"))
        chk.analysed["R-STACK[%s]" % tag] = {
            "class": cls, "productions": len(G.rules), "call_sites": sum(len(r.calls) for r in G.rules),
            "callback_summaries": len(T.I.cache), "fixpoint_rounds": T.rounds, "initial_depths": T.init,
            "grammar_counter": T.g}
        if tag == "doc":
            driver.run(chk, F, G, T)
    nullness.run(chk, F, CG)
    nullness.run_enumidx(chk, F)
    nullness.run_catch(chk, F)
    nullness.run_dtor(chk, F, CG)
    nullness.run_childidx(chk, F)
    nullness.run_symderef(chk, F)
    nullness.run_fixedidx(chk, F)
    nullness.run_optderef(chk, F)
    nullness.run_findderef(chk, F, CG, nullness.PARSE_ENTRIES)
    nullness.run_datacast(chk, F)
    nullness.run_countloop(chk, F, G)
    scopes.part_context(chk, F, G)
    scopes.current_clear(chk, F, G)
    scopes.template_set(chk, F)
    from ..rules import driver as _drv
    _drv.expr_entry(chk, F)
    nullness.run_nullmember(chk, F, ("UTAP::TypeChecker",))
    progress.run(chk, F, CG)
    chk.assume("functions without a body in the facts (libstdc++, libxml2, libc) raise no UTAP::TypeException")
    chk.assume("bison error recovery only discards grammar symbols whose actions already ran (yacc semantics)")
    return chk.finish(
        "Decides memory-safety clauses of C01 that are visible in the code shape: operand-stack accesses of all "
        "builder callbacks under every production, error production and recovery path (R-STACK).",
        not_decided="termination and time proportionality; libxml2 / libc internals; dlopen of user-chosen paths")
