"""C02 - parsed expression trees follow the operator table."""
from ..report import Check
from ..lexer import Lexer, Keywords
from ..callgraph import CallGraph
from ..rules import lalr, optable, scopes


def run(F, G, tier, seed):
    chk = Check("C02", tier, "proof", seed)
    L = Lexer(F)
    K = Keywords(F)
    chk.analysed["front"] = {"units": F.n_units, "functions": F.n_functions, "lexer_rules": L.n_rules,
                             "keywords": len(K.map)}
    lalr.run(chk, F, G, L, K)
    optable.run(chk, F, G, L, K, CallGraph(F))
    optable.run_literals(chk, F, L)
    # identifier binding is C07's subject; the one clause that is about the *tree* an expression parse hands out is that
    # the symbol of an IDENTIFIER node is resolved in the scope current at that moment, not taken from a cache
    scopes.no_symbol_cache(chk, F)
    return chk.finish(
        "Decides the grouping clause of C02 for ALL nesting depths: an LR parser's shift/reduce decision depends "
        "only on (state, look-ahead), so checking every automaton state that holds a completed right-open operator "
        "item against the lexeme-keyed operator table covers every expression text.",
        not_decided="identifier binding (C07); floating-point literal values (runtime arithmetic of atof); the value of an in-range integer literal beyond `verified against the lexeme`")
