"""C03 - printing an expression and re-parsing it reproduces the same tree (structural clauses)."""
from ..report import Check
from ..rules import printer


def run(F, G, tier, seed):
    chk = Check("C03", tier, "other", seed)
    printer.run(chk, F, G)
    printer.run_roles(chk, F)
    printer.run_total(chk, F)
    printer.run_strquote(chk, F)
    from ..rules import prquery
    prquery.run(chk, F, G)
    prquery.run_productions(chk, F, G)
    printer.run_altsyntax(chk, F)
    prquery.run_delimiters(chk, F, G)
    return chk.finish(
        "Decides that the printer's parenthesisation is safe with respect to the parser for every (parent, position, "
        "child) triple of the operator fragment - by LR simulation on the automaton of the current grammar, not by "
        "running libutap - plus the text-is-syntax and double-precision clauses.",
        not_decided="the round trip for arbitrary models and query forms (runtime equality of trees)")
