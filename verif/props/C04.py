"""C04 - the document built from an XML model mirrors the XML's structure (routing clauses)."""
from ..report import Check
from ..rules import routing, instances


def run(F, G, tier, seed):
    chk = Check("C04", tier, "other", seed)
    routing.run_route(chk, F, G)
    routing.run_locroute(chk, F)
    routing.run_endpoints(chk, F)
    routing.run_iter(chk, F)
    routing.run_labelorder(chk, F)
    routing.run_nodrop(chk, F, G)
    routing.run_taguse(chk, F)
    routing.run_wholetext(chk, F)
    routing.run_loopend(chk, F)
    instances.run(chk, F, rid="R-POSBIND")
    return chk.finish(
        "Decides the routing clauses of C04: each is a def-use chain through named interface points (label kind table, "
        "start-token table, start productions, builder callbacks, argument positions, field assignments) resolved by "
        "callee and field identity; plus element iteration order the positional binding of instantiation "
        "arguments, and that no storing callback can leave silently without storing.",
        not_decided="equality of the whole document with the XML for generated models (a runtime relation); names, "
                    "ids and declarations beyond the routing of their text blocks")
