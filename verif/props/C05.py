"""C05 - XML and XTA renderings of the same model yield equivalent documents (front-end conformance clauses)."""
from ..report import Check
from ..callgraph import CallGraph
from ..rules import frontends, scopes, stack


def run(F, G, tier, seed):
    chk = Check("C05", tier, "other", seed)
    CG = CallGraph(F)
    frontends.run(chk, F, G)
    T = stack.Typing(F, G, CG, "UTAP::DocumentBuilder")
    scopes.lexer_scope(chk, F, G, T)
    from ..lexer import Lexer
    frontends.run_idchars(chk, F, Lexer(F))
    frontends.run_diagpair(chk, F, G)
    return chk.finish(
        "Decides the front-end conformance clauses of C05: both front ends are drivers of one builder interface, so "
        "the input format can only show where they issue different callbacks or arguments for the same construct, or "
        "where the whole-file parse scans text in a different scope than the per-block parse.  Checked: provenance of "
        "every argument of every shared callback, flags of XTA state declarations, arrows, per-field attaching "
        "callbacks, and scope closing before the next token is scanned.",
        not_decided="equivalence of the two resulting documents and of their diagnostics for a given model (a runtime "
                    "relation between two parses)")
