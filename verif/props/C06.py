"""C06 - every diagnostic points into the element, line and columns that caused it (structural clauses)."""
from ..report import Check
from ..callgraph import CallGraph
from ..lexer import Lexer
from ..rules import positions


def run(F, G, tier, seed):
    chk = Check("C06", tier, "other", seed)
    CG = CallGraph(F)
    L = Lexer(F)
    positions.run_locord(chk, G)
    positions.run_idrange(chk, G)
    positions.run_newline(chk, L)
    positions.run_eofloc(chk, L)
    positions.run_setpath(chk, F, CG)
    positions.run_xpath(chk, F, CG)
    positions.run_tcpos(chk, F)
    positions.run_gap(chk, F, CG)
    positions.run_nodepos(chk, F)
    positions.run_typepos(chk, F)
    positions.run_poskey(chk, F)
    from ..rules import routing
    routing.run_wholetext(chk, F)
    chk.assume("scanner positions are monotone within a parse and YYLLOC_DEFAULT is the standard one (read from parser.y)")
    return chk.finish(
        "Decides necessary conditions of well-formed positions that are visible in the code shape: location ranges of "
        "grammar callbacks, exact line-feed accounting of every scanner rule, path registration before every parse "
        "and element-level report, agreement of XPath segments with the reader's own tag table, the position "
        "argument of every diagnostic, and a position for every node the builders synthesise.",
        not_decided="numeric correctness of line and column for every layout; the fault-injection clauses (which block "
                    "an error is attributed to) beyond path registration")
