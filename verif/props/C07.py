"""C07 - identifiers bind to the innermost preceding declaration in scope (scope-stack clauses)."""
from ..report import Check
from ..callgraph import CallGraph
from ..rules import stack, scopes, instances


def run(F, G, tier, seed):
    chk = Check("C07", tier, "other", seed)
    CG = CallGraph(F)
    for tag, cls in (("doc", "UTAP::DocumentBuilder"), ("query", "UTAP::TigaPropertyBuilder")):
        T = stack.Typing(F, G, CG, cls)
        scopes.frames_typing(chk, F, G, T, cls, rid="R-FRAMES[%s]" % tag)
        if tag == "doc":
            scopes.lexer_scope(chk, F, G, T)
    scopes.resolve_rules(chk, F)
    scopes.run_dotid(chk, F, G)
    scopes.run_memberscope(chk, F)
    scopes.run_dynkey(chk, F)
    scopes.push_parent(chk, F)
    scopes.no_symbol_cache(chk, F)
    # P.x in queries: the type of x is taken with P's arguments substituted, i.e. through instance_t::mapping
    instances.run(chk, F)
    return chk.finish(
        "Decides that the scope on top of the frame stack at every identifier callback is the one the grammar position "
        "implies: exact stack-effect typing of every callback (normal and caught-exception exits) and production, "
        "parent links of pushed frames, and the lookup order of frame_t::resolve / add_symbol.",
        not_decided="process-qualified names with argument substitution; scopes left open by syntax-error recovery "
                    "(that is C16's clause)")
