"""C08 - parsed documents satisfy the structural invariants clients rely on (registration/ownership clauses)."""
from ..report import Check
from ..callgraph import CallGraph
from ..rules import instances, ownership


def run(F, G, tier, seed):
    chk = Check("C08", tier, "other", seed)
    CG = CallGraph(F)
    ownership.run_selfreg(chk, F)
    ownership.run_uidsrc(chk, F)
    ownership.run_stable(chk, F)
    ownership.run_edge(chk, F)
    ownership.run_endpoint_null(chk, F)
    ownership.run_tadef(chk, F)
    ownership.run_lineuid(chk, F)
    instances.run(chk, F)
    instances.run_arity_sync(chk, F)
    return chk.finish(
        "Decides the registration and ownership clauses of C08 from the code shape: every object registered as the "
        "user data of a symbol is the object whose uid receives that symbol and lives in a node-stable container; "
        "add_edge is the only writer of an edge's endpoints and sets exactly one of each pair; instances list unbound "
        "parameters first and bind arguments to the source instance's parameters.",
        not_decided="that the invariants hold on every document reached through error recovery (a runtime traversal); "
                    "density of location/edge numbers beyond the assignment from the container size")
