"""C09 - accept/reject verdicts are invariant under meaning-preserving rewrites (syntactic preconditions only)."""
from ..report import Check
from ..lexer import Lexer, Keywords
from ..rules import rewrites


def run(F, G, tier, seed):
    chk = Check("C09", tier, "other", seed)
    L, K = Lexer(F), Keywords(F)
    rewrites.run_paren(chk, G)
    rewrites.run_alias(chk, G, L, K)
    rewrites.run_blanks(chk, L)
    rewrites.run_idtok(chk, G, L, K)
    rewrites.run_xmlnames(chk, F, G, K)
    rewrites.run_idroles(chk, G, L)
    rewrites.run_lexonly(chk, F)
    rewrites.run_commentlang(chk, L, maxlen=5 if tier == "quick" else 7)
    rewrites.run_diag_sink(chk, F)
    return chk.finish(
        "Decides the syntactic preconditions of C09 - each a necessary condition of the invariance, each checked on "
        "every instance in grammar, scanner and XML reader: parentheses build nothing; a keyword alias and its "
        "symbolic form differ only in the token; blanks and comments never reach parser or builder; single-letter "
        "tokens stay usable as names; the reader looks at block text only through the scanner.",
        not_decided="the invariance itself (a relation between the results of two different inputs): consistent "
                    "renaming, the diagnostics multiset, identity of the built documents")
