"""C10 - only convex clock constraints are accepted as guards and invariants."""
from ..report import Check
from ..rules import convex


def run(F, G, tier, seed):
    chk = Check("C10", tier, "proof", seed)
    convex.run(chk, F)
    chk.assume("abstract type domain: a type is identified by its base kind (prefixes CONSTANT/REF/RANGE/LABEL are "
               "looked through by type_t::is, as in the code)")
    return chk.finish(
        "Proof over the decision table extracted from TypeChecker::checkExpression: every (operator, operand "
        "classes) row whose result can pass the guard or invariant gate is shape preserving; plus the lattice "
        "shape of the classification predicates and the two gates in visitEdge / visitLocation.",
        not_decided="soundness of the engine for what is accepted; INLINE_IF with a clock condition (outside the "
                    "connectives C10 lists, printed as a note)")
