"""C11 - expressions that must be side-effect free are rejected if they can write state."""
from ..report import Check
from ..rules import effects, descend


def run(F, G, tier, seed):
    chk = Check("C11", tier, "other", seed)
    rid = "R-GATE[C11]"
    chk.rule(rid, "context table of C11 (guard, invariant, sync, probability, initialisers, instantiation argument, "
                  "assertion, query; range bounds / array sizes / select domains through the computability gate): the "
                  "checker function reports an error whenever the context expression can write, on every path on "
                  "which the expression type-checks")
    effects.gate_table(chk, F, rid, effects.C11_CONTEXTS)
    effects.quantifier_bodies(chk, F, rid)
    effects.run_argsibling(chk, F)
    effects.run_summaryorder(chk, F)
    kinds = effects.run_writekinds(chk, F, G, parts=("collect",))
    effects.run_lvshape(chk, F, G, parts=("symbols",))
    effects.run_visitors(chk, F, visitors=("UTAP::CollectChangesVisitor",))
    effects.run_reads(chk, F)
    effects.run_callee(chk, F, ["collect_possible_writes", "collect_possible_reads"])
    from ..callgraph import CallGraph
    CG = CallGraph(F)
    effects.run_prepass(chk, F, CG, fields=("changes", "depends"))
    effects.run_ownlocals(chk, F, CG, fields=("changes", "depends"))
    effects.run_block_locals(chk, F, CG)
    descend.run(chk, F, ["changes_any_variable", "changes_variable", "collect_possible_writes"], [])
    descend.run_link(chk, F, G, ["changes_any_variable", "changes_variable"], "collect_possible_writes")
    chk.analysed["write_kinds"] = sorted(kinds)
    return chk.finish(
        "Decides the structural clauses of C11: every listed context is gated (dominance over the checker's "
        "control flow), the may-write computation covers every write kind the grammar can create, every statement "
        "field and every call (callee summary + non-const reference arguments).",
        not_decided="acceptance/rejection of each concrete model (runtime)")
