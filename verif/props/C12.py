"""C12 - no accepted model writes to a constant."""
from ..report import Check
from ..rules import effects


def run(F, G, tier, seed):
    chk = Check("C12", tier, "other", seed)
    kinds = effects.run_writekinds(chk, F, G, parts=("lvalue",))
    effects.WRITE_KINDS_CACHE.clear()
    effects.WRITE_KINDS_CACHE.update(kinds)
    effects.run_c12(chk, F, G)
    effects.run_lvshape(chk, F, G, parts=("modifiable",))
    effects.run_dupname(chk, F)
    effects.run_fieldgate(chk, F)
    effects.run_conststicky(chk, F)
    effects.run_dynparam(chk, F)
    rid = "R-GATE[C12]"
    chk.rule(rid, "visitInstance: a non-const reference template parameter needs a unique-reference argument")
    effects.run_c13_instance(chk, F, rid)
    return chk.finish(
        "Decides the structural clauses of C12: every write kind the grammar can create is gated on "
        "isModifiableLValue, which is true only by induction over already-gated kinds and type_t::is_mutable(); "
        "CONSTANT is sticky in is_mutable/is_constant; binders are forced const; reference parameters are gated.",
        not_decided="acceptance of the mutable twins; const-ness through every type shape (runtime)")
