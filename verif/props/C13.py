"""C13 - sizes, bounds, initialisers and value arguments must be compile-time computable."""
from ..report import Check
from ..rules import effects, descend


def run(F, G, tier, seed):
    chk = Check("C13", tier, "other", seed)
    rid = "R-GATE[C13]"
    chk.rule(rid, "range bounds (hence array sizes, scalar-set sizes, select domains: all RANGE types reach checkType), "
                  "variable initialisers and by-value / const-reference instantiation arguments are rejected unless "
                  "isCompileTimeComputable")
    effects.gate_table(chk, F, rid, effects.C13_CONTEXTS)
    effects.run_c13_instance(chk, F, rid)
    rid2 = "R-SEEDS"
    chk.rule(rid2, "the computable set is seeded only from is_constant() variables, constant non-reference template "
                   "parameters and binders")
    effects.run_c13_seeds(chk, F, rid2)
    effects.run_reads(chk, F)
    effects.run_restricted(chk, F)
    from ..callgraph import CallGraph
    CG = CallGraph(F)
    effects.run_prepass(chk, F, CG, fields=("depends",))
    effects.run_ownlocals(chk, F, CG, fields=("depends",))
    effects.run_block_locals(chk, F, CG)
    effects.run_visitors(chk, F, visitors=("UTAP::CollectDependenciesVisitor",))
    descend.run(chk, F, ["depends_on", "collect_possible_reads"], [])
    # checkType reaches array sizes and nested types
    rid3 = "R-CHECKTYPE"
    chk.rule(rid3, "checkType recurses: ARRAY checks its size type and element type, RECORD every field, and every "
                   "prefix/label/reference its child; the callers check the type of every variable, select binder, "
                   "parameter, block-local and quantifier binder")
    from ..rules.effects import switch_cases, _fn
    from ..facts import calls, short
    ct = _fn(F, "checkType")
    from ..inline import KindSlicer
    tparam = ct["params"][0]["name"]
    sl = KindSlicer(F, ct, subject=tparam, stop=("checkType", "checkExpression"))    # lambdas / helpers expanded
    tkinds = ("ARRAY", "RECORD", "LABEL", "CONSTANT", "REF", "SYSTEM_META", "URGENT", "BROADCAST", "COMMITTED", "HYBRID")
    for lb0 in tkinds:
        body = sl.slice(lb0)
        rec = [short(c) for c in calls(body, "checkType")]
        for lb in (lb0,):
            if lb in ("ARRAY",):
                chk.ob(rid3, "checkType|ARRAY|size", any("size" in r for r in rec),
                       "checkType(ARRAY) does not check the size type", "%s:%s" % (ct["file"], ct["line"]))
                chk.ob(rid3, "checkType|ARRAY|element", any("type[0]" in r for r in rec),
                       "checkType(ARRAY) does not check the element type", "%s:%s" % (ct["file"], ct["line"]))
            elif lb in ("RECORD",):
                chk.ob(rid3, "checkType|RECORD", any("get_sub" in r for r in rec),
                       "checkType(RECORD) does not check the field types", "%s:%s" % (ct["file"], ct["line"]))
            elif lb in ("LABEL", "CONSTANT", "REF", "SYSTEM_META", "URGENT", "BROADCAST", "COMMITTED", "HYBRID"):
                chk.ob(rid3, "checkType|%s" % lb, any("type[0]" in r for r in rec),
                       "checkType(%s) does not descend into the wrapped type" % lb, "%s:%s" % (ct["file"], ct["line"]))
    for fnname, what in (("visitVariable", "variable.uid"), ("visitEdge", "select"), ("visitInstance", "type[i]"),
                         ("visitBlockStatement", "symbol"), ("visitIterationStatement", "type")):
        f = _fn(F, fnname)
        cs = [short(c) for c in calls(f["body"], "checkType")]
        chk.ob(rid3, "caller|%s" % fnname, any(what.split(".")[0] in c for c in cs),
               "%s does not check the type of its %s" % (fnname, what), "%s:%s" % (f["file"], f["line"]))
    return chk.finish(
        "Decides the structural clauses of C13: the computability gate dominates acceptance in every listed context, "
        "the read-set computation covers identifiers, calls and all statement fields, and the computable set has "
        "only the three legitimate sources.",
        not_decided="dependence chains in concrete models (runtime); FUN_CALL_EXT contributes no reads (note)")
