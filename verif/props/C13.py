"""C13 - sizes, bounds, initialisers and value arguments must be compile-time computable."""
from ..report import Check
from ..rules import effects, descend


def run(F, G, tier, seed):
    chk = Check("C13", tier, "other", seed)
    rid = "R-GATE[C13]"
    chk.rule(rid, "range bounds (hence array sizes, scalar-set sizes, select domains: all RANGE types reach checkType), "
                  "variable initialisers and by-value / const-reference instantiation arguments are rejected unless "
                  "isCompileTimeComputable")
    effects.gate_table(chk, F, rid, effects.C13_CONTEXTS)
    effects.run_c13_instance(chk, F, rid)
    effects.run_argsibling(chk, F)
    effects.run_summaryorder(chk, F)
    effects.run_binderrange(chk, F)
    effects.run_earlydepends(chk, F)
    rid2 = "R-SEEDS"
    chk.rule(rid2, "the computable set is seeded only from is_constant() variables, constant non-reference template "
                   "parameters and binders")
    effects.run_c13_seeds(chk, F, rid2)
    effects.run_reads(chk, F)
    effects.run_callee(chk, F, ["collect_possible_reads"])
    effects.run_restricted(chk, F)
    from ..callgraph import CallGraph
    CG = CallGraph(F)
    effects.run_prepass(chk, F, CG, fields=("depends",))
    effects.run_ownlocals(chk, F, CG, fields=("depends",))
    effects.run_block_locals(chk, F, CG)
    effects.run_visitors(chk, F, visitors=("UTAP::CollectDependenciesVisitor",))
    descend.run(chk, F, ["depends_on", "collect_possible_reads"], [])
    descend.run_recurfwd(chk, F, ["collect_possible_reads", "checkType", "isCompileTimeComputable", "depends_on"], minimum=3)
    descend.run_randomdep(chk, F)
    # checkType reaches array sizes and nested types
    rid3 = "R-CHECKTYPE"
    chk.rule(rid3, "checkType recurses: ARRAY checks its size type and element type, RECORD every field, and every "
                   "prefix/label/reference its child; the callers check the type of every variable, select binder, "
                   "parameter, block-local and quantifier binder")
    from ..rules.effects import switch_cases, _fn
    from ..facts import calls, short
    ct = _fn(F, "checkType")
    from ..inline import KindSlicer
    tparam = ct["params"][0]["name"]
    sl = KindSlicer(F, ct, subject=tparam, stop=("checkType", "checkExpression"))    # lambdas / helpers expanded
    tkinds = ("ARRAY", "RECORD", "LABEL", "CONSTANT", "REF", "SYSTEM_META", "URGENT", "BROADCAST", "COMMITTED", "HYBRID")
    for lb0 in tkinds:
        body = sl.slice(lb0)
        rec = [short(c) for c in calls(body, "checkType")]
        for lb in (lb0,):
            if lb in ("ARRAY",):
                chk.ob(rid3, "checkType|ARRAY|size", any("size" in r for r in rec),
                       "checkType(ARRAY) does not check the size type", "%s:%s" % (ct["file"], ct["line"]))
                chk.ob(rid3, "checkType|ARRAY|element", any("type[0]" in r for r in rec),
                       "checkType(ARRAY) does not check the element type", "%s:%s" % (ct["file"], ct["line"]))
            elif lb in ("RECORD",):
                chk.ob(rid3, "checkType|RECORD", any("get_sub" in r for r in rec),
                       "checkType(RECORD) does not check the field types", "%s:%s" % (ct["file"], ct["line"]))
            elif lb in ("LABEL", "CONSTANT", "REF", "SYSTEM_META", "URGENT", "BROADCAST", "COMMITTED", "HYBRID"):
                chk.ob(rid3, "checkType|%s" % lb, any("type[0]" in r for r in rec),
                       "checkType(%s) does not descend into the wrapped type" % lb, "%s:%s" % (ct["file"], ct["line"]))
    from ..facts import walk

    def provenance(f, e):
        """names (parameters, members, member functions) the value of e is computed from, through the initialisers of
        locals and the ranges of range-for variables"""
        src = {}
        for d in walk(f["body"]):
            if d.get("k") == "decl":
                for v in d.get("vars", []):
                    if v.get("init") is not None:
                        src.setdefault(v.get("name"), []).append(v["init"])
            if d.get("k") == "rangefor" and isinstance(d.get("var"), dict) and d.get("range") is not None:
                src.setdefault(d["var"].get("name"), []).append(d["range"])
        out, todo, seen = set(), [e], set()
        while todo:
            x = todo.pop()
            for y in walk(x):
                if y.get("k") == "ref":
                    out.add(y.get("name"))
                    if y.get("dk") == "local" and y.get("name") in src and y.get("name") not in seen:
                        seen.add(y["name"])
                        todo.extend(src[y["name"]])
                elif y.get("k") == "member":
                    out.add(y.get("name"))
                elif y.get("k") == "call" and y.get("name"):
                    out.add(y["name"])
        return out
    for fnname, what, need in (("visitVariable", "variable.uid", {"uid"}), ("visitEdge", "select", {"select"}),
                               ("visitInstance", "instance type", {"uid", "get_type"}),
                               ("visitBlockStatement", "frame symbols", {"get_frame"}),
                               ("visitIterationStatement", "iteration variable", {"symbol", "get_type"})):
        f = _fn(F, fnname)
        pname = f["params"][0]["name"]
        ok = any((need | {pname}) <= provenance(f, a) for c in calls(f["body"], "checkType") for a in c.get("args", [])[:1])
        chk.ob(rid3, "caller|%s" % fnname, ok,
               "%s does not check the type of its %s (no checkType call whose argument derives from %s of `%s`)" %
               (fnname, what, "/".join(sorted(need)), pname), "%s:%s" % (f["file"], f["line"]))
    return chk.finish(
        "Decides the structural clauses of C13: the computability gate dominates acceptance in every listed context, "
        "the read-set computation covers identifiers, calls and all statement fields, and the computable set has "
        "only the three legitimate sources.",
        not_decided="dependence chains in concrete models (runtime); FUN_CALL_EXT contributes no reads (note)")
