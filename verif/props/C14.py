"""C14 - typing of commutative operators and inline-if is symmetric in its operands."""
from ..report import Check
from ..rules import symmetry


def run(F, G, tier, seed):
    chk = Check("C14", tier, "proof", seed)
    symmetry.run(chk, F)
    symmetry.run_decomp(chk, F)
    chk.assume("abstract type domain: a type is identified by its base kind; structure below it (ranges, record "
               "fields, labels) is an opaque atom whose two truth values are both explored")
    return chk.finish(
        "Proof over the decision table extracted from TypeChecker::checkExpression (all operand class pairs in both "
        "orders) plus the mirror-closure of the boolean type relations the table calls.",
        not_decided="symmetry for concrete structured types beyond what R-MIRROR implies")
