"""C15 - a parse result depends only on its input: process-global state of lexer and parser (structural clauses)."""
from ..report import Check
from ..callgraph import CallGraph
from ..lexer import Lexer
from ..rules import globalstate


def run(F, G, tier, seed):
    chk = Check("C15", tier, "other", seed)
    CG = CallGraph(F)
    L = Lexer(F)
    globalstate.run_globals(chk, F, G, CG)
    globalstate.run_startcond(chk, F, CG, L)
    globalstate.run_buffer(chk, F, CG)
    globalstate.run_errno(chk, F)
    chk.assume("the flex and bison skeletons initialise their own variables as documented (yychar, yynerrs and the "
               "parser stacks at yyparse entry; the scanner's buffer state on yy_switch_to_buffer)")
    chk.assume("objects with automatic or dynamic storage (builders, documents) are created by the caller per parse; "
               "only objects with static storage duration can carry state between calls")
    return chk.finish(
        "Decides the structural clauses of C15: which objects can carry state from one parsing call into the next "
        "(complete inventory of mutable static-storage objects from the syntax tree of all translation units and "
        "the generated scanner/parser) and, for each, why a later parse cannot observe it.",
        not_decided="equality of results over arbitrary call histories (a runtime relation); the numeric effect of "
                    "the carried position counter short of its wrap-around")
