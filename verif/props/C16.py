"""C16 - a fault in one text block does not disturb the rest of the document (structural clauses)."""
from ..report import Check
from ..callgraph import CallGraph
from ..rules import stack, scopes, globalstate, driver, routing
from ..lexer import Lexer


def run(F, G, tier, seed):
    chk = Check("C16", tier, "other", seed)
    CG = CallGraph(F)
    T = stack.Typing(F, G, CG, "UTAP::DocumentBuilder")
    # operand stacks: a block can leave a surplus (harmless: all access is top-relative) but never a deficit
    stack.check(chk, T, "R-STACK[doc]", "UTAP::DocumentBuilder", emit=("N", "P"))
    stack.throw_net(chk, F, G, T)
    scopes.stale(chk, F)
    driver.deferred(chk, F, T)
    scopes.edge_owned_frames(chk, F)
    scopes.entry_points(chk, F)
    routing.run_flagmono(chk, F)
    from ..rules import features
    features.run_valuekind(chk, F, classes=("UTAP::TypeChecker",))
    features.run_stickyerr(chk, F)
    from ..rules import positions
    positions.run_poskey(chk, F)
    # the scanner's start condition is the one piece of lexer state that outlives a block: a label that ends
    # inside a comment must not turn the following blocks into comment text
    globalstate.run_startcond(chk, F, CG, Lexer(F))
    # top-relative access only: no callback depends on the absolute depth of an operand stack
    rid = "R-TOPREL"
    chk.rule(rid, "no builder callback reads the absolute size of an operand stack (so a stray fragment left by a "
                  "faulty block cannot change what a later block does)")
    bad = {}
    for key, paths in T.I.cache.items():
        for p in paths:
            for st in p.reads_size:
                if st in ("F", "T"):
                    bad.setdefault(key[0], set()).add(st)
    names = sorted({k[0] for k in T.I.cache})
    for n in names:
        chk.ob(rid, n, n not in bad, "callback %s reads the size of operand stack %s" % (n, sorted(bad.get(n, []))),
               "src/")
    return chk.finish(
        "Decides the structural clauses of C16: state that outlives a block parse in the shared builder is exactly the "
        "operand stacks, the scope stack and the current-object pointers; deficits are excluded by stack typing, "
        "stale pointers by R-STALE, and the scope stack by R-ENTRY.",
        not_decided="identity of the faulty and the fault-free document for arbitrary faults (runtime)")
