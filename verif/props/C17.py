"""C17 - analysis methods are reported as supported only when the model permits them."""
from ..report import Check
from ..rules import features, descend


def run(F, G, tier, seed):
    chk = Check("C17", tier, "other", seed)
    features.run(chk, F, G)
    descend.run(chk, F, ["uses_fp", "uses_hybrid"], [])
    features.run_valuekind(chk, F)
    from ..rules import symmetry
    symmetry.run_decomp(chk, F)      # has_stop_watch / has_strict_invariants come from what decompose visits
    return chk.finish(
        "Decides completeness of the feature detectors over the expression forms the type checker admits in guards, "
        "invariants and updates (kinds taken from C10's decision table and the grammar's write kinds), and the "
        "document-flag clauses.",
        not_decided="the verdict for each concrete model (runtime)")
