"""C18 - interval operations of range_t agree with their set semantics (compile-fail witnesses)."""
from .. import front
from ..report import Check
from ..rules import rangelaws


def run(F, G, tier, seed):
    chk = Check("C18", tier, "proof", seed)
    rangelaws.run(chk, tier, front.prepare())
    chk.assume("bounded domain: every operand interval and element of the stated box, plus boundary values for "
               "floating point and the integer extremes; overflowing results are excluded as in the property")
    return chk.finish(
        "Each law is a constexpr function looping over the whole box, asserted with static_assert; the deciding step "
        "is the compiler's constant evaluator on the current include/utap/range.h (nothing is linked or executed).",
        not_decided="values outside the enumerated box")
