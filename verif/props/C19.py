"""C19 - expression cloning, substitution and equality obey their algebraic laws (structural clauses)."""
from ..report import Check
from ..callgraph import CallGraph
from ..rules import exprlaws


def run(F, G, tier, seed):
    chk = Check("C19", tier, "other", seed)
    CG = CallGraph(F)
    exprlaws.run_arity(chk, F, G, CG)
    exprlaws.run_fields(chk, F)
    exprlaws.run_emptyok(chk, F)
    exprlaws.run_eqtext(chk, F)
    exprlaws.run_eqorder(chk, F)
    exprlaws.run_clonesym(chk, F)
    exprlaws.run_deepclone(chk, F)
    return chk.finish(
        "Decides the structural clauses of C19: children reported == children constructed for every kind that can "
        "reach every construction site; clone/clone_deeper copy every member; equal compares everything but "
        "position and type, and the type where print reads it (R-EQTEXT); the empty expression is handled (R-EMPTYOK); subst writes only into a fresh clone.",
        not_decided="the laws on runtime trees (reflexivity, symmetry, transitivity follow only informally)")
