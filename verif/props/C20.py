"""C20 - the XML writer's template graph mirrors the document it was given (structural clauses)."""
from ..report import Check
from ..rules import writer


def run(F, G, tier, seed):
    chk = Check("C20", tier, "other", seed)
    writer.run(chk, F)
    writer.run_escape(chk, F)
    writer.run_attrorder(chk, F)
    writer.run_label_guards(chk, F)
    writer.run_textedit(chk, F)
    from ..rules import printer
    printer.run_total(chk, F)       # `writing never crashes`: the writer prints possibly-empty expressions
    from ..rules import nullness
    from ..callgraph import CallGraph
    CGw = CallGraph(F)
    nullness.run_findderef(chk, F, CGw, nullness.WRITE_ENTRIES)
    nullness.run_dataderef(chk, F, CGw, nullness.WRITE_ENTRIES)
    nullness.run_childguard(chk, F, CGw, nullness.WRITE_ENTRIES)
    nullness.run_npos(chk, F, CGw, nullness.WRITE_ENTRIES, minimum=1)
    return chk.finish(
        "Decides reader/writer agreement: every member the reading side fills is read by the writer and written under "
        "a label kind the reader accepts; endpoints, element multiplicity and order; output only through libxml2's "
        "writer (well-formedness and escaping are then libxml2's).",
        not_decided="the text of each label (expression printing is C03); independent re-reading of written files (runtime)")
