"""Obligations, findings, known-findings matching, evidence files."""
import json
import os
import sys
import time

from .front import VERIF, AnalysisBroken

KNOWN = os.path.join(VERIF, "known_findings.json")
# evidence/ and reports/ go under OUT; the self-test (tools/seedmatrix.py) redirects it so that a run on a
# deliberately broken scratch tree never overwrites the evidence of the real tree
OUT = os.environ.get("VERIF_OUT") or VERIF
FLOORS = os.path.join(VERIF, "verif", "floors.json")


class Finding:
    def __init__(self, rule, key, what, where="", detail=None, replay=None):
        self.rule, self.key, self.what, self.where, self.detail, self.replay = rule, key, what, where, detail, replay

    def as_dict(self):
        return {"rule": self.rule, "key": self.key, "what": self.what, "where": self.where,
                "detail": self.detail, "replay_input": self.replay}


class Check:
    """Collects the obligations of one property run."""

    def __init__(self, pid, tier, level, seed=0):
        self.pid, self.tier, self.level, self.seed = pid, tier, level, seed
        self.t0 = time.time()
        self.rules = {}        # rule id -> {"text":..., "obligations": n, "discharged": n, "samples": []}
        self.findings = []
        self.notes = []
        self.assumptions = []
        self.analysed = {}
        self.trusted = ["bison 3.8.2 XML automaton report", "flex 2.6.4", "clang-14 front end (libTooling AST)",
                        "verif/rules/*.py rule engines"]

    def rule(self, rid, text):
        self.rules.setdefault(rid, {"text": text, "obligations": 0, "discharged": 0, "samples": []})

    def ob(self, rid, key, ok, what, where="", detail=None, sample=None, replay=None):
        """Record one obligation.  key is the semantic identity (no line numbers)."""
        r = self.rules[rid]
        r["obligations"] += 1
        if ok:
            r["discharged"] += 1
        else:
            self.findings.append(Finding(rid, "%s:%s" % (rid, key), what, where, detail, replay))
        if len(r["samples"]) < 4 or (not ok and len(r["samples"]) < 12):
            r["samples"].append({"key": key, "ok": bool(ok), "what": (sample or what)[:300], "where": where})
        return ok

    def note(self, text):
        self.notes.append(text)

    def assume(self, text):
        self.assumptions.append(text)

    # ------------------------------------------------------------------
    def finish(self, explanation, not_decided=None):
        with open(KNOWN) as f:
            known = json.load(f)
        floors = {}
        if os.path.exists(FLOORS):
            with open(FLOORS) as f:
                floors = json.load(f).get(self.pid, {})
        blind = []
        for rid, r in self.rules.items():
            fl = floors.get(rid, 1)
            if r["obligations"] < fl:
                blind.append("rule %s of %s matched %d obligations, floor is %d (anchor moved or rule went blind)"
                             % (rid, self.pid, r["obligations"], fl))
        for rid in floors:
            if rid not in self.rules:
                blind.append("rule %s of %s did not run at all" % (rid, self.pid))
        kf = {e["key"]: e for e in known.get("findings", [])
              if e.get("property") == self.pid and e.get("status") == "known"}
        violations, knowns = [], []
        seen = set()
        for f in self.findings:
            if f.key in seen:
                continue
            seen.add(f.key)
            (knowns if f.key in kf else violations).append(f)
        stale = [k for k in kf if k not in seen]
        os.makedirs(os.path.join(OUT, "reports"), exist_ok=True)
        for f in knowns:
            print("KNOWN-FINDING: property=%s %s [%s] %s" % (self.pid, f.key, f.where, f.what))
        for k in stale:
            print("note: known finding %s no longer reproduced by the analysis (repaired upstream?)" % k)
        for f in violations:
            safe = "".join(c if c.isalnum() or c in "-_." else "_" for c in f.key)[:120]
            path = os.path.join(OUT, "reports", "%s-%s.json" % (self.pid, safe))
            with open(path, "w") as fh:
                json.dump(dict(f.as_dict(), property=self.pid, tier=self.tier), fh, indent=1)
            print("%s: %s: %s" % (f.where or "?", f.key, f.what))
            if f.detail:
                print("    " + str(f.detail)[:600])
            print("VIOLATION property=%s replay=%s" % (self.pid, path))
        if blind and not violations:
            # a rule that lost its instances is neither a pass nor an alarm; concrete violations found by the
            # rules that still see their instances are reported first (they name real constructs)
            raise AnalysisBroken("; ".join(blind))
        nob = sum(r["obligations"] for r in self.rules.values())
        ndis = sum(r["discharged"] for r in self.rules.values())
        level = self.level
        if level == "proof" and ndis != nob:
            level = "other"   # a proof-level claim needs every obligation discharged
        samples = []
        for rid, r in self.rules.items():
            for s in r["samples"][:6]:
                samples.append(dict(s, rule=rid))
        cov = {
            "obligations": nob, "discharged": ndis,
            "evaluations": nob, "distinct_nontrivial": len({(s["rule"], s["key"]) for s in samples}) if nob < 2 else
            sum(r["obligations"] for r in self.rules.values()),
            "rule": "one obligation per (rule, construct) instance enumerated from the current tree; keys are semantic "
                    "(function / production / table row), so all are distinct",
            "checker_cmd": "./check %s --tier %s" % (self.pid, self.tier),
            "trusted_base": self.trusted,
            "explanation": explanation,
            "exhaustive": True,
            "rules": {rid: {"text": r["text"], "obligations": r["obligations"], "discharged": r["discharged"]}
                      for rid, r in self.rules.items()},
            "samples": samples[:40],
            "analysed": self.analysed,
            "known_findings_reproduced": [f.key for f in knowns],
            "unlisted_violations": [f.key for f in violations],
            "notes": self.notes[:60],
            "not_decided": not_decided or "",
        }
        ev = {"property_id": self.pid, "tier": self.tier, "seed": self.seed, "level": level, "coverage": cov,
              "assumptions": self.assumptions, "wall_s": round(time.time() - self.t0, 3),
              "violations": len(violations)}
        os.makedirs(os.path.join(OUT, "evidence"), exist_ok=True)
        with open(os.path.join(OUT, "evidence", self.pid + ".json"), "w") as f:
            json.dump(ev, f, indent=1)
        print("%s [%s]: %d obligations, %d discharged, %d known finding(s), %d violation(s), %.1fs" %
              (self.pid, self.tier, nob, ndis, len(knowns), len(violations), time.time() - self.t0))
        return 1 if violations else 0
