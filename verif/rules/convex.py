"""C10 rules: only convex clock constraints pass the guard / invariant gates.

R-LATTICE  the classification predicates have the inclusion shape integral < invariant < guard <
           constraint < formula (exact truth sets over the abstract type domain).
R-CONVEX   every row of checkExpression for the boolean connectives, relational operators and the
           quantifiers is shape preserving with respect to both gates.
R-CONJ     conversely, the conjunction of any two operands that pass a gate passes it.
R-GATE     visitEdge / visitLocation reject what does not satisfy the gate predicate.
"""
import itertools

from ..front import AnalysisBroken
from ..tables import CheckExprTable, ExprV, eval_predicate
from . import gates as G

# Oracle: which abstract classes denote what.  (Names of enumerators of Constants::kind_t.)
CLOCK_FREE = {"INT", "BOOL", "PROCESS_VAR", "LOCATION", "LOCATION_EXPR"}   # discrete values, no clock
CONVEX = {"INVARIANT", "INVARIANT_WR", "GUARD"}         # conjunctions of clock bounds (with rates for _WR)
NONCONVEX = {"CONSTRAINT", "FORMULA"}                  # arbitrary boolean combinations / temporal formulae
CLOCKISH = {"CLOCK", "DIFF"}
BASE_D = ["INT", "BOOL", "DOUBLE", "CLOCK", "DIFF", "INVARIANT", "INVARIANT_WR", "GUARD", "CONSTRAINT", "FORMULA",
          "RATE", "COST", "SCALAR", "RECORD", "ARRAY", "CHANNEL", "STRING", "VOID_TYPE", "PROCESS_VAR", "LOCATION",
          "LOCATION_EXPR", "PROBABILITY", "DOUBLE_INV_GUARD", "FRACTION", "LIST", "OTHER"]

GATES = {"guard": "is_guard", "invariant": "isInvariantWR"}
# the atomic clock comparisons of C10's quantifier: clock bound, clock difference bound, clock against clock
# (bounds may be integers or doubles: `x != 2.5` is as much a non-convex clock comparison as `x != 3`; E10-1)
ATOM_PAIRS = {("CLOCK", "CLOCK"), ("CLOCK", "INT"), ("INT", "CLOCK"), ("DIFF", "INT"), ("INT", "DIFF"),
              ("CLOCK", "DOUBLE"), ("DOUBLE", "CLOCK"), ("DIFF", "DOUBLE"), ("DOUBLE", "DIFF")}
BINARY = ["AND", "OR", "XOR", "LT", "LE", "GE", "GT", "EQ", "NEQ"]


def truth_set(F, pred, D):
    out = set()
    for k in D:
        res = eval_predicate(F, pred, [ExprV("e", k)])
        vals = {v for _, v in res}
        if vals == {True}:
            out.add(k)
        elif vals != {False}:
            raise AnalysisBroken("predicate %s is not decided by the base kind for %s" % (pred, k))
    return out


def run(chk, F):
    T = CheckExprTable(F)
    D = list(BASE_D)
    kinds = F.enum("UTAP::Constants::kind_t")
    names = {v["name"] for v in kinds["values"]}
    D = [k for k in D if k in names or k == "OTHER"]

    # ---------------------------------------------------------------- R-LATTICE
    rid = "R-LATTICE"
    chk.rule(rid, "truth sets of is_integral / is_invariant / is_guard / is_constraint / is_formula / isInvariantWR "
                  "over the type domain equal the specified chain (each level adds exactly its own class)")
    ts = {p: truth_set(F, p, D) for p in ("is_integral", "is_invariant", "is_guard", "is_constraint", "is_formula",
                                          "isInvariantWR")}
    spec = {"is_integral": CLOCK_FREE & set(D)}
    spec["is_invariant"] = spec["is_integral"] | {"INVARIANT"}
    spec["is_guard"] = spec["is_invariant"] | {"GUARD"}
    spec["is_constraint"] = spec["is_guard"] | {"CONSTRAINT"}
    spec["is_formula"] = spec["is_constraint"] | {"FORMULA"}
    spec["isInvariantWR"] = spec["is_invariant"] | {"INVARIANT_WR"}
    for p in spec:
        chk.ob(rid, p, ts[p] == spec[p],
               "predicate %s holds for %s but the classification requires exactly %s" %
               (p, sorted(ts[p]), sorted(spec[p])) if ts[p] != spec[p] else "%s == %s" % (p, sorted(spec[p])),
               "include/utap/type.h / src/typechecker.cpp")
    gate_set = {g: ts[p] for g, p in GATES.items()}

    # ---------------------------------------------------------------- R-CONVEX / R-CONJ
    rid = "R-CONVEX"
    chk.rule(rid, "for op in AND OR XOR NOT LT LE GE GT EQ NEQ FORALL EXISTS and all operand classes: a result that "
                  "passes the guard or the invariant gate is justified: AND of two passing operands; OR with a "
                  "clock-free side; NOT/XOR/EXISTS/EQ/NEQ of clock-free or atomic operands only; relational atoms "
                  "only over clocks/differences and numbers; FORALL of a passing body")
    rid2 = "R-CONJ"
    chk.rule(rid2, "the conjunction of any two operands that pass a gate is accepted and passes that gate")
    for need in BINARY + ["NOT", "FORALL", "EXISTS"]:
        if not T.has(need):
            raise AnalysisBroken("checkExpression has no case for %s" % need)
    # the quantifier forms: every kind that binds a variable (derived from the builder), classified by reading
    from .effects import binder_kinds
    from .exprlaws import size_table
    QUANT = {"FORALL": "forall", "EXISTS": "exists", "FORALL_DYNAMIC": "forall", "EXISTS_DYNAMIC": "exists"}
    NOT_BOOLEAN = {"SUM": "a number", "SUM_DYNAMIC": "a number (or DOUBLE_INV_GUARD, which passes no gate)",
                   "FOREACH_DYNAMIC": "an update form (INT)", "MITL_FORALL": "a MITL formula (queries only)",
                   "MITL_EXISTS": "a MITL formula (queries only)"}
    bk = binder_kinds(F)
    for k in bk:
        if k not in QUANT and k not in NOT_BOOLEAN:
            raise AnalysisBroken("binder kind %s (ExpressionBuilder::%s) is not classified" % (k, bk[k]))
    sizes, _ = size_table(F)
    quants = []
    for k in sorted(bk):
        if k not in QUANT:
            continue
        if not T.has(k):
            chk.ob("R-CONVEX", "%s|no clause" % k, False,
                   "checkExpression has no clause for %s: the node keeps the type ExpressionBuilder::%s gave it whatever "
                   "its body is, so `%s (p : T) (x < 3 || y < 3)` is a plain boolean that every connective accepts" %
                   (k, bk[k], QUANT[k]), "src/typechecker.cpp:%s" % T.fn["line"])
            continue
        quants.append((k, QUANT[k], sizes[k]))
    nrows = 0

    def results(kind, cs):
        res, seen = T.row(kind, cs)
        for s in seen:
            if s in names and s not in D and s not in ("RANGE", "REF", "CONSTANT", "LABEL", "SYSTEM_META",
                                                         "URGENT", "BROADCAST", "COMMITTED", "HYBRID", "TYPEDEF"):
                D.append(s)       # a class the code distinguishes that the seed domain lacked
        return {oc for _, oc in res}

    def passes(r):
        return [g for g, s in gate_set.items() if r in s]

    laundered = []
    done = set()
    while True:
        todo = [k for k in D if k not in done]
        if not todo:
            break
        cur = list(D)
        for kind in BINARY:
            for a, b in itertools.product(cur, repeat=2):
                if a in done and b in done:
                    continue
                nrows += 1
                for oc in results(kind, [a, b]):
                    if oc[0] == "opaque":
                        if {a, b} & (CONVEX | NONCONVEX | CLOCKISH | CLOCK_FREE):
                            raise AnalysisBroken("row %s(%s,%s) cannot be read from the code" % (kind, a, b))
                        continue
                    if oc[0] != "accept":
                        continue
                    r = oc[1]
                    for g in passes(r):
                        gs = gate_set[g]
                        ok, why = True, ""
                        if kind == "AND":
                            ok = a in gs and b in gs
                            why = "both operands must pass the %s gate" % g
                            if ok and r in CLOCK_FREE:
                                ok = a in CLOCK_FREE and b in CLOCK_FREE
                                why = "a clock-free result needs clock-free operands"
                        elif kind == "OR":
                            ok = (a in CLOCK_FREE and b in gs) or (a in gs and b in CLOCK_FREE)
                            why = "a disjunction passes only with one clock-free operand and the other passing"
                        elif kind == "XOR":
                            ok = a in CLOCK_FREE and b in CLOCK_FREE
                            why = "exclusive-or over clock constraints is not convex"
                        elif kind in ("EQ", "NEQ", "LT", "LE", "GE", "GT"):
                            bad = [x for x in (a, b) if x in CONVEX or x in NONCONVEX]
                            ok = not bad
                            why = "comparison of clock constraints (%s) is not convex" % bad
                            if ok and r in CONVEX:
                                ok = (a in CLOCKISH or b in CLOCKISH or "RATE" in (a, b))
                                why = "a clock-constraint result needs a clock/difference/rate operand"
                            if ok and r in CLOCK_FREE and ({a, b} & CLOCKISH):
                                # the result may go under !, ||, xor, exists: a comparison that involves a clock
                                # must not be typed as a plain boolean.  Armed for the atoms C10 quantifies over
                                # (clock bound, clock difference bound, clock vs clock); the remaining rows
                                # (difference vs difference, clock vs bool: the SMC reading of clocks as
                                # numbers) are outside the property's vocabulary and are printed as notes
                                if (a, b) in ATOM_PAIRS:
                                    ok = False
                                    why = "an atomic clock comparison is typed as a clock-free boolean, which " \
                                          "every non-convex connective (!, ||, xor, exists) accepts"
                                elif g == "guard":
                                    laundered.append("%s(%s,%s)" % (kind, a, b))
                            if ok and r in CONVEX and kind == "NEQ":
                                ok = False
                                why = "x != c is not convex"
                        chk.ob(rid, "%s|%s,%s|%s" % (kind, a, b, g), ok,
                               "%s(%s, %s) is typed %s and passes the %s gate: %s" % (kind, a, b, r, g, why),
                               "src/typechecker.cpp:%s" % T.fn["line"],
                               sample="%s(%s,%s) -> %s" % (kind, a, b, r))
            # R-CONJ
            if kind == "AND":
                for g, gs in gate_set.items():
                    for a, b in itertools.product([x for x in cur if x in gs], repeat=2):
                        ocs = results("AND", [a, b])
                        ok = all(oc[0] == "accept" and oc[1] in gs for oc in ocs)
                        chk.ob(rid2, "%s,%s|%s" % (a, b, g), ok,
                               "AND(%s, %s) of two operands passing the %s gate gives %s" % (a, b, g, sorted(ocs)),
                               "src/typechecker.cpp:%s" % T.fn["line"])
        for a in cur:
            if a in done:
                continue
            nrows += 1
            for oc in results("NOT", [a]):
                if oc[0] == "accept":
                    for g in passes(oc[1]):
                        chk.ob(rid, "NOT|%s|%s" % (a, g), a in CLOCK_FREE,
                               "NOT(%s) is typed %s and passes the %s gate: negation of clock constraints is not "
                               "convex" % (a, oc[1], g), "src/typechecker.cpp:%s" % T.fn["line"])
            for q, qk, ar in quants:
                nrows += 1
                for oc in results(q, ["INT"] * (ar - 1) + [a]):
                    if oc[0] != "accept":
                        continue
                    for g in passes(oc[1]):
                        if qk == "forall":
                            ok = a in gate_set[g]
                            if ok and oc[1] in CLOCK_FREE:
                                ok = a in CLOCK_FREE
                        else:
                            ok = a in CLOCK_FREE
                        chk.ob(rid, "%s|%s|%s" % (q, a, g), ok,
                               "%s over a body of class %s is typed %s and passes the %s gate" % (q, a, oc[1], g),
                               "src/typechecker.cpp:%s" % T.fn["line"])
        done.update(cur)
    if laundered:
        chk.note("comparisons involving a clock that are typed as plain booleans but lie outside the atoms C10 "
                 "quantifies over (clocks read as numbers, SMC): %s" % ", ".join(sorted(set(laundered))))
    chk.analysed["R-CONVEX"] = {"domain": D, "rows_evaluated": nrows, "gate_sets": {g: sorted(s) for g, s in
                                                                                 gate_set.items()}}

    # ---------------------------------------------------------------- R-GATE
    rid = "R-GATE[C10]"
    chk.rule(rid, "visitEdge reports an error unless is_guard(edge.guard); visitLocation reports an error unless "
                  "isInvariantWR(loc.invariant); the test is reached whenever the expression is non-empty and "
                  "type-checks")
    for fnq, pred, subj, what in (("UTAP::TypeChecker::visitEdge", "is_guard", ("edge", "guard"), "guard"),
                                  ("UTAP::TypeChecker::visitLocation", "isInvariantWR", ("loc", "invariant"),
                                   "invariant")):
        fn = F.fn(fnq)
        g, cands = G.gated(fn, subj, pred, True)
        chk.ob(rid, "%s|%s" % (fnq.split("::")[-1], what), g is not None,
               "%s does not reject a %s that fails %s on every path (%d test(s) of %s on it found, none with an "
               "error-reporting branch that is reached unconditionally)" % (fnq, what, pred, len(cands), pred)
               if g is None else "%s gates the %s on %s" % (fnq, what, pred), "%s:%s" % (fn["file"], fn["line"]))
