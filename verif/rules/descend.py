"""R-DESCEND: the subtree predicates and collectors that the gates consult look at the whole subtree.

`changes_any_variable`, `changes_variable`, `depends_on`, `uses_fp`, ... answer "is there, anywhere below this node,
...".  A negative answer (return false / a collector simply returning) is right only if every child has been asked.
The rule decides, per function of the family:  on every path to a negative exit either
  - the question was handed over to another member of the family applied to the same node
    (`collect_possible_writes(changes)` on this), or
  - all children were visited: an index loop from 0 to the number of children, a range-for over the child vector or a
    standard algorithm over it, whose body asks a family member about the loop's child on every path that does not
    leave with a positive answer;
exits taken because the node is empty / has no children are exempt.
"""
from ..front import AnalysisBroken
from ..facts import walk, calls, short
from ..inline import expanded_fn, path_states, strip

ET = "UTAP::expression_t"


def _is_this(e):
    e = strip(e) if e is not None else None
    return e is None or (isinstance(e, dict) and (e.get("k") == "this" or (e.get("k") == "un" and e.get("op") == "*" and
                                                                            strip(e.get("e")).get("k") == "this")))


def _size_expr(e, size_locals):
    """get_size() / data->sub.size() on this, or a local bound to it"""
    e = strip(e)
    if not isinstance(e, dict):
        return False
    if e.get("k") == "ref" and e.get("id") in size_locals:
        return True
    if e.get("k") == "call" and e.get("name") == "get_size" and _is_this(e.get("recv")):
        return True
    if e.get("k") == "call" and e.get("name") == "size" and "sub" in short(e.get("recv")):
        return True
    return False


def _child_of_index(e, var_id):
    """get(i) / (*this)[i] / data->sub[i] / sub.at(i) with i the loop variable"""
    e = strip(e)
    if not isinstance(e, dict) or e.get("k") != "call":
        return False
    a = [strip(x) for x in e.get("args", [])]
    idx = [x for x in a if isinstance(x, dict) and x.get("k") == "ref" and x.get("id") == var_id]
    if not idx:
        return False
    if e.get("name") == "get" and _is_this(e.get("recv")):
        return True
    if e.get("ck") == "op" and e.get("op") == "[]":
        tgt = e.get("recv") if e.get("recv") is not None else (e["args"][0] if e.get("args") else None)
        return _is_this(tgt) or "sub" in short(tgt)
    if e.get("name") == "at" and "sub" in short(e.get("recv")):
        return True
    return False


def run(chk, F, family, delegates, rid="R-DESCEND", prop=""):
    chk.rule(rid, "every subtree predicate / collector of expression_t that a gate consults (%s) reaches every child "
                  "before it answers `no`: by handing the node to another member of the family, or by a complete loop "
                  "over the children whose body asks about each child on every path; exits for the empty node are "
                  "exempt" % ", ".join(family))
    fam = set(family) | set(delegates)
    n = 0
    for name in family:
        fns = [f for f in F.fns(ET + "::" + name) if f.get("body") is not None]
        if not fns:
            raise AnalysisBroken("expression_t::%s not found" % name)
        for fn in fns:
            n += 1
            from .effects import is_worklist_form
            if is_worklist_form(fn):
                raise AnalysisBroken("expression_t::%s walks the tree with a work list: R-DESCEND reads recursion and loops over "
                                     "the operands of `this` only" % name)
            x = expanded_fn(fn, F, stop=tuple(fam), accept=lambda t: not t.get("cls"))   # file-local helpers, lambdas
            size_locals = set()
            begin_locals = set()        # `const auto operands = data->sub.begin();`
            for d in walk(x["body"]):
                if d.get("k") == "decl":
                    for v in d.get("vars", []):
                        if v.get("init") is not None and _size_expr(v["init"], set()):
                            size_locals.add(v.get("id"))
                        if v.get("init") is not None and "sub" in short(v["init"]) and \
                                any(c_.get("name") in ("begin", "cbegin") for c_ in calls(v["init"])):
                            begin_locals.add(v.get("id"))

            def asks_family(node, child_pred):
                """a family member is called on an expression accepted by child_pred"""
                for c in calls(node):
                    if c.get("name") in fam and c.get("recv") is not None and child_pred(c["recv"]):
                        return True
                return False

            def body_always_asks(body, child_pred):
                """every path through the loop body that reaches its end (or leaves with something other than a
                positive answer) has asked a family member about the child"""
                ft, ex = path_states(body, lambda e: ("R",) if asks_family(e, child_pred) else ())
                if any("R" not in s for s in ft):
                    return False
                for st, s in ex:
                    if "R" in s:
                        continue
                    e = strip(st.get("e")) if st.get("e") is not None else None
                    if isinstance(e, dict) and e.get("k") == "bool" and e.get("v"):
                        continue        # leaves with a positive answer
                    return False
                return True

            def loop_visits_all(s):
                k = s.get("k")
                if k == "for":
                    init = s.get("init") or {}
                    vs = init.get("vars", []) if init.get("k") == "decl" else []
                    if len(vs) != 1 or strip(vs[0].get("init") or {}).get("k") != "int" or strip(vs[0]["init"]).get("v") != 0:
                        return False
                    vid = vs[0].get("id")
                    c = strip(s.get("c") or {})
                    if not (c.get("k") == "bin" and c.get("op") in ("<", "!=") and strip(c["lhs"]).get("id") == vid and
                            _size_expr(c["rhs"], size_locals)):
                        return False
                    return body_always_asks(s.get("body"), lambda e: _child_of_index(e, vid))
                if k == "rangefor":
                    if "sub" not in short(s.get("range")) and not _is_this(s.get("range")):
                        return False
                    vid = (s.get("var") or {}).get("id")
                    return body_always_asks(s.get("body"),
                                            lambda e: strip(e).get("k") == "ref" and strip(e).get("id") == vid)
                return False

            def algo_visits_all(e):
                """std::any_of / all_of / none_of / for_each / count_if over the whole child vector"""
                for c in calls(e):
                    if c.get("name") in ("any_of", "all_of", "none_of", "for_each", "count_if", "find_if") and \
                            len(c.get("args", [])) >= 3:
                        a0, a1 = short(c["args"][0]), short(c["args"][1])
                        whole = "sub" in a0 and "begin" in a0 and "sub" in a1 and "end" in a1
                        if not whole:
                            # `const auto operands = data->sub.begin(); any_of(operands, operands + get_size(), ..)`
                            r0 = strip(c["args"][0])
                            r1 = strip(c["args"][1])
                            if isinstance(r0, dict) and r0.get("k") == "ref" and r0.get("id") in begin_locals:
                                plus = r1 if isinstance(r1, dict) else {}
                                while plus.get("k") in ("construct", "cast", "materialize") and (plus.get("args") or plus.get("e")):
                                    plus = strip(plus["args"][0] if plus.get("args") else plus["e"])
                                args_ = ([plus.get("recv")] if plus.get("recv") is not None else []) + list(plus.get("args", [])) \
                                    if plus.get("k") == "call" else [plus.get("lhs"), plus.get("rhs")]
                                args_ = [strip(a_) for a_ in args_ if a_ is not None]
                                if len(args_) == 2 and args_[0].get("k") == "ref" and args_[0].get("id") == r0.get("id") and \
                                        _size_expr(args_[1], size_locals):
                                    whole = True
                        if whole:
                            lam = strip(c["args"][2])
                            if lam.get("k") == "lambda" and lam.get("params"):
                                pn = lam["params"][0]["name"]
                                if body_always_asks(lam.get("body"), lambda r: strip(r).get("k") == "ref" and
                                                    strip(r).get("name") == pn):
                                    return True
                            # std::mem_fn(&expression_t::uses_fp): the member of the family is asked about each operand
                            if lam.get("k") == "call" and lam.get("name") == "mem_fn" and lam.get("args"):
                                tgt = short(lam["args"][0])
                                if any(tgt.endswith("::" + m_) or tgt.endswith(m_) for m_ in fam):
                                    return True
                return False

            def mark(e):
                bits = []
                # handing the node over to a family member (on this)
                for c in calls(e):
                    if c.get("name") in fam and c.get("name") != fn["name"] and _is_this(c.get("recv")) and \
                            c.get("cls") == ET:
                        bits.append("V")
                if algo_visits_all(e):
                    bits.append("V")
                return bits

            def after(s):
                return ("V",) if loop_visits_all(s) else ()

            def cond_mark(c, truth):
                t = short(c)
                c0 = strip(c)
                neg = False
                while isinstance(c0, dict) and c0.get("k") == "un" and c0.get("op") == "!":
                    neg = not neg
                    c0 = strip(c0["e"])
                if isinstance(c0, dict) and c0.get("k") == "call" and c0.get("name") == "empty" and \
                        (_is_this(c0.get("recv")) or "sub" in short(c0.get("recv"))):
                    return ("EMPTY",) if truth != neg else ()
                if isinstance(c0, dict) and c0.get("k") == "call" and c0.get("name") in ("operator bool", "get") and \
                        c0.get("recv") is not None:
                    c0 = strip(c0["recv"])
                if isinstance(c0, dict) and c0.get("k") == "member" and c0.get("name") == "data":
                    return ("EMPTY",) if truth == neg else ()      # if (data) ... else <no node>
                if isinstance(c0, dict) and c0.get("k") == "bin" and c0.get("op") in ("<=", "==", "<") and \
                        _size_expr(c0["lhs"], size_locals) and strip(c0["rhs"]).get("k") == "int" and \
                        strip(c0["rhs"]).get("v") in (0, 1):
                    return ("EMPTY",) if truth != neg else ()
                return ()
            ft, ex = path_states(x["body"], mark, cond_mark, after)
            is_bool = (fn.get("ret") or "").replace("const ", "").strip() == "bool"
            bad = []
            for st, s in ex:
                if "V" in s or "EMPTY" in s or st.get("k") == "throw":
                    continue
                e = strip(st.get("e")) if st.get("e") is not None else None
                if is_bool and isinstance(e, dict) and e.get("k") == "bool" and e.get("v"):
                    continue        # a positive answer needs no further look
                bad.append("line %s: `%s`" % (st.get("l"), short(st)[:50]))
            for s in ft:
                if "V" not in s and "EMPTY" not in s:
                    bad.append("end of function")
            chk.ob(rid, "%s/%d" % (name, len(fn["params"])), not bad,
                   "expression_t::%s can answer `no` (%s) without having looked at every child of the node: whatever "
                   "sits in an unvisited child - an assignment in a call argument, a floating-point operand, a read of "
                   "a parameter - is invisible to the gates that rely on it" % (name, "; ".join(sorted(set(bad))[:3])),
                   "%s:%s" % (fn["file"], fn["line"]),
                   sample="%s: every negative exit is covered" % name)
    if n < len(family):
        raise AnalysisBroken("R-DESCEND: %d of %d functions found" % (n, len(family)))


def run_link(chk, F, G_, predicates, collector, rid="R-GATESRC"):
    """The other rules (R-WRITEKINDS, R-LVSHAPE, call summaries) verify the *collector*.  The gates call the
    *predicates*.  The verdicts carry over only if each predicate gets its answer from the collector applied to the same
    node - or, when it has a traversal of its own, if that traversal answers `yes` for every write kind the grammar can
    create (descent is R-DESCEND's part)."""
    from ..inline import KindSlicer
    from .effects import write_kinds
    chk.rule(rid, "each predicate the side-effect gates call (%s) either hands the node to %s - the function whose "
                  "kind coverage, l-value shapes and call summaries are verified - or answers `yes` itself for every "
                  "write kind the grammar creates" % (", ".join(predicates), collector))
    akinds, incdec = write_kinds(F, G_)
    for name in predicates:
        for fn in F.fns(ET + "::" + name):
            if fn.get("body") is None:
                continue
            top = fn["body"].get("s", [])
            deleg = any(c.get("name") == collector and _is_this(c.get("recv")) for st in top
                        if st.get("k") in ("call", "decl", "return") for c in calls(st))
            if deleg:
                chk.ob(rid, "%s|source" % name, True, "", "%s:%s" % (fn["file"], fn["line"]),
                       sample="%s hands the node to %s" % (name, collector))
                continue
            sl = KindSlicer(F, fn, subject="this", stop=(name, collector))
            missing = []
            for k in sorted(akinds | incdec):
                b = sl.slice(k)
                yes = False
                for st in b.get("s", []):
                    if st.get("k") == "if" and any(c.get("name") == "empty" and _is_this(c.get("recv"))
                                                   for c in calls(st.get("c"))):
                        continue    # `if (empty()) return false;` - a node of kind k is not empty
                    if st.get("k") in ("return", "cret"):
                        e = strip(st.get("e")) if st.get("e") is not None else {}
                        yes = isinstance(e, dict) and e.get("k") == "bool" and bool(e.get("v"))
                        break
                    if st.get("k") in ("if", "for", "while", "rangefor", "switch") and \
                            any(x.get("k") in ("return", "cret") for x in walk(st)):
                        break       # a conditional answer comes first: not an unconditional yes
                if not yes:
                    missing.append(k)
            chk.ob(rid, "%s|source" % name, not missing,
                   "expression_t::%s no longer takes its answer from %s and does not itself answer `yes` for the write "
                   "kind(s) %s: the gates that call it accept such an expression in a side-effect-free context" %
                   (name, collector, missing), "%s:%s" % (fn["file"], fn["line"]))


# ---------------------------------------------------------------------------------------------- R-RECURFWD
# A recursive call that leaves a parameter to its default asks a *different* question about the sub-structure than the
# one the caller was asked: `get(i).collect_possible_reads(symbols)` inside collect_possible_reads(symbols, collectRandom)
# forgets below the root that draws of random numbers count as reads (found by a defect-hunt sub-agent: `-random(3)` was a
# compile-time constant while `random(3)` was not).  Listed: recursion whose subject plays another role than `child of the
# same question`, confirmed by reading.
RECURFWD_LISTED = {
    ("checkType", "get_array_size"): "the index type of an array is a type of its own: whether the array may be "
                                     "initialised or is a field of a struct says nothing about its size type",
}


def run_recurfwd(chk, F, names, rid="R-RECURFWD", minimum=1):
    chk.rule(rid, "in the recursive functions the gates consult (%s): a call of the function from itself passes every "
                  "parameter that has a default value explicitly - falling back to the default drops, below the root, "
                  "what the caller asked for; listed: recursion into a part that is not a child of the same question" %
             ", ".join(names))
    n = 0
    for fn in sorted(F.functions.values(), key=lambda f: (f.get("file") or "", f.get("line") or 0)):
        fl = fn.get("file") or ""
        if fn.get("body") is None or fn.get("name") not in names or fl.startswith("/usr") or "/test/" in fl:
            continue
        params = fn.get("params", [])
        # what locals are computed from (to recognise the role of the subject of the recursion)
        src = {}
        for d in walk(fn["body"]):
            if d.get("k") == "decl":
                for v in d.get("vars", []):
                    if v.get("init") is not None:
                        src.setdefault(v.get("id"), []).append(v["init"])
            lhs = rhs = None
            if d.get("k") == "bin" and d.get("op") == "=":
                lhs, rhs = d["lhs"], d["rhs"]
            elif d.get("k") == "call" and d.get("ck") == "op" and d.get("op") == "=" and d.get("recv") is not None and d.get("args"):
                lhs, rhs = d["recv"], d["args"][0]
            if lhs is not None and strip(lhs).get("k") == "ref":
                src.setdefault(strip(lhs).get("id"), []).append(rhs)

        def roles(e, depth=0):
            out = set()
            for x in walk(e):
                if x.get("k") == "call" and x.get("name"):
                    out.add(x["name"])
                if x.get("k") == "ref" and x.get("id") in src and depth < 3:
                    for s in src[x["id"]]:
                        out |= roles(s, depth + 1)
            return out
        for c in calls(fn["body"]):
            if c.get("fn") != fn["q"] or len(c.get("args", [])) != len(params):
                continue
            n += 1
            subj = c.get("recv") if not _is_this(c.get("recv")) else (c["args"][0] if c.get("args") else None)
            for i, a in enumerate(c["args"]):
                if not (isinstance(a, dict) and a.get("k") == "defarg"):
                    continue
                pn = params[i].get("name")
                listed = [k for k in RECURFWD_LISTED if k[0] == fn["name"] and subj is not None and k[1] in roles(subj)]
                if listed:
                    chk.ob(rid, "%s|%s|%s|listed" % (fn["name"], pn, listed[0][1]), True, "", "%s:%s" % (fl, c.get("l")),
                           sample="%s: %s - listed: %s" % (fn["name"], short(c)[:60], RECURFWD_LISTED[listed[0]][:60]))
                    continue
                chk.ob(rid, "%s|%s" % (fn["name"], pn), False,
                       "%s calls itself as `%s` and leaves its parameter `%s` to the default: what the caller asked "
                       "for with that parameter is forgotten for everything below the root" % (fn["q"], short(c)[:70], pn),
                       "%s:%s" % (fl, c.get("l")))
            if not any(isinstance(a, dict) and a.get("k") == "defarg" for a in c["args"]):
                chk.ob(rid, "%s|call@%s" % (fn["name"], short(subj)[:30] if subj is not None else "this"), True, "",
                       "%s:%s" % (fl, c.get("l")), sample="%s: %s forwards all parameters" % (fn["name"], short(c)[:60]))
    if n < minimum:
        raise AnalysisBroken("R-RECURFWD: only %d recursive calls found in %s" % (n, ", ".join(names)))


def run_randomdep(chk, F, rid="R-RANDOMDEP"):
    """function_t::depends is what collect_possible_reads adds for a call; a function that draws random numbers is
    compile-time computable unless its summary says so."""
    chk.rule(rid, "the read summary of a function (function_t::depends, filled by CollectDependenciesVisitor) records "
                  "draws of random numbers: the visitor collects the reads of each expression of the body with "
                  "collectRandom = true")
    fns = [f for f in F.fns("UTAP::CollectDependenciesVisitor::visitExpression") if f.get("body") is not None]
    if not fns:
        raise AnalysisBroken("CollectDependenciesVisitor::visitExpression not found")
    fn = fns[0]
    cs = [c for c in calls(fn["body"]) if c.get("name") == "collect_possible_reads"]
    if not cs:
        raise AnalysisBroken("CollectDependenciesVisitor::visitExpression does not call collect_possible_reads")
    for c in cs:
        a = c["args"][1] if len(c.get("args", [])) > 1 else None
        v = a.get("e") if isinstance(a, dict) and a.get("k") == "defarg" else a
        v = strip(v) if v is not None else None
        ok = isinstance(v, dict) and v.get("k") in ("bool", "int") and bool(v.get("v"))
        chk.ob(rid, "visitExpression", ok,
               "CollectDependenciesVisitor::visitExpression collects the reads of a function body without the draws of "
               "random numbers (`%s`): `double f() { return random(3); } const double v = f();` is accepted as a "
               "compile-time constant" % short(c)[:70], "%s:%s" % (fn["file"], c.get("l")))
