"""R-DRIVER: builder callbacks that the XML reader calls *directly* (not through the grammar) and that consume
operands which an earlier block parse is supposed to have left on the builder's operand stack.

    XMLReader::invariant()     if (parse(text, S_INVARIANT) == 0) result = 0;  ... S_EXPONENTIAL_RATE ... result = 1;
    XMLReader::location()      l_invariant |= res == 0;  l_exponentialRate |= res == 1;
                               parser->proc_location(name, l_invariant, l_exponentialRate);
    DocumentBuilder::proc_location(name, hasInvariant, hasER)   pops one fragment per flag, unchecked

The licence "the parse returned 0" is only as good as the grammar: the depth a successful parse of that part
is guaranteed to leave is the lower bound of the net effect of *every* start production of the part's start
token(s) (R-STACK typing, error alternatives included).  Obligation, per (driver call, flag parameter, start
production): lb_F(production) >= operands consumed for that flag.

Everything is read from the facts: the part -> token map from setStartToken's switch, the start productions
from the automaton's grammar, the consumption from the callback summary, the flag provenance from the two
reader functions.  A shape that is not recognised is analysis-broken, never a pass.
"""
from ..front import AnalysisBroken
from ..facts import walk, short
from ..stackmachine import Lin, Unsupported

NEG_INF = -10 ** 6
OPERAND_STACKS = ("F", "T", "S")


def start_tokens(F):
    """xta_part_t enumerator -> set of start token names (both syntax switches)."""
    fn = F.fn("setStartToken")
    sw = [n for n in walk(fn["body"]) if n.get("k") == "switch"]
    if not sw:
        # table form: a constant array of {part, token, token} rows that setStartToken (or a helper it calls) searches
        out = {}
        names = {x.get("q") or x.get("name") for x in walk(fn["body"]) if x.get("k") == "ref" and x.get("dk") == "global"}
        for c in walk(fn["body"]):
            if c.get("k") == "call" and c.get("fn"):
                for t in F.fns(c["fn"]):
                    if (t.get("file") or "").endswith(("parser.y", "lexer.l")):
                        names |= {x.get("q") or x.get("name") for x in walk(t.get("body")) if x.get("k") == "ref" and
                                  x.get("dk") == "global"}
        tables = [g for nm in names for g in F.globals.get(nm, []) if g.get("const")]
        for d in walk(fn["body"]):          # or a function-local static constant table
            if d.get("k") == "decl":
                tables += [v for v in d.get("vars", []) if v.get("init") is not None and "[" in (v.get("t") or "")]
        for g in tables:
            if True:
                init = g.get("init")
                if init is None:
                    continue
                for row in walk(init):
                    if row.get("k") != "initlist":
                        continue
                    es = [e for e in (row.get("e") or []) if isinstance(e, dict)]
                    refs = [e for e in es if e.get("k") == "ref" and e.get("dk") == "enumerator"]
                    if len(refs) >= 2 and len(refs) == len(es) and (refs[0].get("enum") or "").endswith("xta_part_t"):
                        out.setdefault(refs[0]["name"], set()).update(r["name"] for r in refs[1:])
        if len(out) < 10:
            raise AnalysisBroken("setStartToken has neither a switch over the part nor a part -> token table")
        return out
    out = {}
    cur = []
    for st in sw[0]["body"].get("s", []):
        k = st.get("k")
        while k == "case":
            cur.append(st["v"].get("name"))
            st = st["s"]
            k = st.get("k") if isinstance(st, dict) else None
        if k == "break":
            cur = []
            continue
        if isinstance(st, dict):
            for n in walk(st):
                if n.get("k") == "bin" and n.get("op") == "=" and n["lhs"].get("name") == "syntax_token":
                    toks = {x["name"] for x in walk(n["rhs"]) if x.get("k") == "ref" and x.get("dk") == "enumerator"}
                    if not toks:
                        raise AnalysisBroken("setStartToken assigns a non-constant start token")
                    for c in cur:
                        out.setdefault(c, set()).update(toks)
    if len(out) < 10:
        raise AnalysisBroken("setStartToken map has only %d parts" % len(out))
    return out


def start_lb(T, tok):
    """[(rule, {stack: lower bound})] for every start production beginning with token tok."""
    res = []
    for r in T.G.rules:
        if r.lhs != "Uppaal" or not r.rhs or r.rhs[0] != tok:
            continue
        lbs = {}
        brs = T.walk(r, None, clamp=False) or []
        live = [b for b in brs if not b["dead"]]
        for st in OPERAND_STACKS:
            vals = []
            for br in live:
                d = br["d"].get(st, Lin(0))
                vals.append(NEG_INF if any(x < 0 for x in d.v.values()) else d.c)
            lbs[st] = min(vals) if vals else None
        res.append((r, lbs))
    return res


def _flag_sources(F):
    """In XMLReader::invariant: result value K -> part enumerator, from `if (parse(text, P) == 0) result = K;`
    and the function returns that variable."""
    fn = F.fn("UTAP::XMLReader::invariant")
    m = {}
    var = None
    for n in walk(fn["body"]):
        if n.get("k") != "if":
            continue
        c = n.get("c") or {}
        if c.get("k") == "bin" and c.get("op") == "==" and (c["lhs"].get("k") == "call" and c["lhs"].get("name") == "parse") \
                and c["rhs"].get("k") == "int" and c["rhs"].get("v") == 0:
            part = c["lhs"]["args"][1]
            if part.get("dk") != "enumerator":
                raise AnalysisBroken("XMLReader::invariant parses a non-constant part")
            then = n.get("then") or {}
            asg = [x for x in walk(then) if x.get("k") == "bin" and x.get("op") == "=" and x["rhs"].get("k") == "int"]
            if len(asg) != 1 or asg[0]["lhs"].get("k") != "ref":
                raise AnalysisBroken("XMLReader::invariant: unrecognised success branch")
            var = asg[0]["lhs"]["name"]
            m[asg[0]["rhs"]["v"]] = part["name"]
    if not m:
        raise AnalysisBroken("XMLReader::invariant: no `parse(..) == 0` licence found")
    # every other assignment to the result variable must not produce one of the licence values
    for n in walk(fn["body"]):
        if n.get("k") == "bin" and n.get("op") == "=" and n["lhs"].get("k") == "ref" and n["lhs"].get("name") == var:
            pass
    found_decl = False
    for d in walk(fn["body"]):
        for n in (d.get("vars", []) if d.get("k") == "decl" else []):
            if n.get("name") != var:
                continue
            found_decl = True
            init = n.get("init") or {}
            v = init.get("v") if init.get("k") == "int" else (-(init["e"]["v"]) if init.get("k") == "un" and
                                                                init.get("op") == "-" and
                                                                init["e"].get("k") == "int" else None)
            if init.get("cv") is not None:
                v = init["cv"]
            if v is None or v in m:
                raise AnalysisBroken("XMLReader::invariant: the default result %r collides with a licence value" % v)
    if not found_decl:
        raise AnalysisBroken("XMLReader::invariant: declaration of the result variable not found")
    rets = [n for n in walk(fn["body"]) if n.get("k") == "return"]
    if not rets or any(short(r.get("e")) != var for r in rets):
        raise AnalysisBroken("XMLReader::invariant does not return its result variable on every path")
    return m


def run(chk, F, G, T, rid="R-DRIVER"):
    chk.rule(rid, "a builder callback that the XML reader calls directly and that pops operands is licensed by "
                  "`parse(text, part) == 0`: every start production of that part leaves at least the operands the "
                  "callback consumes (lower bound from the stack typing, error alternatives included)")
    parts = start_tokens(F)
    n_sites = 0
    for q, fns in sorted(F.by_q.items()):
        if not q.startswith("UTAP::XMLReader::"):
            continue
        for fn in fns:
            for call in walk(fn["body"]):
                if call.get("k") != "call" or (call.get("recv") or {}).get("name") != "parser":
                    continue
                cb = call["name"]
                params = None
                tgt = F.resolve_method(T.cls, cb, len(call.get("args", [])))
                if tgt is None:
                    continue
                params = tgt["params"]
                # which parameters are flags, and what does the callback consume for each valuation
                flags = [i for i, p in enumerate(params) if (p.get("t") or "").replace("const ", "") == "bool"]
                base = []
                for a in call.get("args", []):
                    base.append(Lin(a["v"]) if a.get("k") == "int" else
                                Lin(1 if a["v"] else 0) if a.get("k") == "bool" else None)
                try:
                    allp = T.I.run(cb, list(base))
                except Unsupported as e:
                    raise AnalysisBroken("driver callback %s cannot be summarised: %s" % (cb, e))
                if not any(st.split("!")[0] in OPERAND_STACKS for p in allp for st in p.needs):
                    continue
                n_sites += 1
                where = "%s:%s" % (fn["file"], call.get("l"))
                if q != "UTAP::XMLReader::location" or cb != "proc_location":
                    chk.ob(rid, "%s|%s" % (q.split("::")[-1], cb), False,
                           "%s calls %s, which consumes operands, without a licence this rule knows" % (q, cb), where)
                    continue
                licence = _flag_sources(F)       # K -> part
                # provenance of each flag argument: `flag |= res == K`
                prov = {}
                for n in walk(fn["body"]):
                    if n.get("k") == "bin" and n.get("op") in ("|=", "=") and n["lhs"].get("k") == "ref" and \
                            n["rhs"].get("k") == "bin" and n["rhs"].get("op") == "==" and \
                            n["rhs"]["rhs"].get("k") == "int":
                        prov.setdefault(n["lhs"]["name"], set()).add(n["rhs"]["rhs"]["v"])
                for i in flags:
                    a = call["args"][i]
                    if a.get("k") == "bool":
                        if not a["v"]:
                            continue
                        raise AnalysisBroken("proc_location called with a literal true flag")
                    name = a.get("name")
                    ks = prov.get(name)
                    if a.get("k") != "ref" or not ks or any(k not in licence for k in ks):
                        chk.ob(rid, "location|proc_location|%s" % params[i]["name"], False,
                               "flag argument `%s` of proc_location is not derived from a successful block parse" %
                               short(a), where)
                        continue
                    # consumption with only this flag set
                    args = list(base)
                    for j in flags:
                        args[j] = Lin(1 if j == i else 0)
                    need = 0
                    for p in T.I.run(cb, args):
                        for st, ns in p.needs.items():
                            if st.split("!")[0] == "F":
                                need = max([need] + [x.c for x in ns if x.is_const()])
                    for k in sorted(ks):
                        part = licence[k]
                        for tok in sorted(parts.get(part, ())):
                            prods = start_lb(T, tok)
                            if not prods:
                                raise AnalysisBroken("no start production for token %s" % tok)
                            for r, lbs in prods:
                                lb = lbs.get("F")
                                ok = lb is not None and lb >= need
                                chk.ob(rid, "proc_location|%s|%s|%s" % (params[i]["name"], part, r.sig), ok,
                                       "`%s` can succeed leaving %s operand(s), but XMLReader::location then calls "
                                       "proc_location(.., %s=true, ..) which pops %d from the fragment stack unchecked "
                                       "(read below the stack)" % (r.sig, "no" if not lb or lb <= 0 else lb,
                                                                    params[i]["name"], need)
                                       if not ok else "`%s` leaves >= %d operand(s) for %s" % (r.sig, need,
                                                                                                 params[i]["name"]),
                                       "src/parser.y:%s" % r.line)
    if n_sites == 0:
        raise AnalysisBroken("R-DRIVER found no operand-consuming driver call in XMLReader")
    chk.analysed[rid] = {"driver_sites": n_sites, "parts": len(parts)}


def deferred(chk, F, T, rid="R-DEFER"):
    """Operands that a block parse leaves for a *later* direct call are identified by position from the top of the
    operand stack.  That is only sound if nothing else can be pushed in between: every block parse that can give
    up (utap_parse() != 0 after a syntax error) leaves whatever it had pushed so far.  Obligation per deferred
    consumer: between the licensed parse and the consuming call no further block parse can run."""
    chk.rule(rid, "between a block parse whose operands a later direct builder call consumes and that call, no other "
                  "block parse can run (a parse that gives up leaves its partial operands on the stack, and the "
                  "consumer takes the top ones)")
    fn = F.fn("UTAP::XMLReader::location")
    consumer = [c for c in walk(fn["body"]) if c.get("k") == "call" and c.get("name") == "proc_location"]
    if not consumer:
        raise AnalysisBroken("XMLReader::location no longer calls proc_location")
    # producers: calls (transitively within XMLReader) that reach XMLReader::parse
    def reaches_parse(q, seen):
        if q in seen:
            return False
        seen.add(q)
        for f in F.fns(q):
            for c in walk(f.get("body")):
                if c.get("k") == "call" and c.get("cls") == "UTAP::XMLReader":
                    if c.get("name") == "parse" or reaches_parse(c.get("fn"), seen):
                        return True
        return False
    producers = []

    def scan(n, in_loop):
        if isinstance(n, list):
            for x in n:
                scan(x, in_loop)
            return
        if not isinstance(n, dict):
            return
        k = n.get("k")
        if k in ("while", "for", "do", "rangefor"):
            for key, v in n.items():
                if isinstance(v, (dict, list)):
                    scan(v, True)
            return
        if k == "call" and n.get("cls") == "UTAP::XMLReader" and reaches_parse(n.get("fn"), set()):
            producers.append((n, in_loop))
        for v in n.values():
            if isinstance(v, (dict, list)):
                scan(v, in_loop)
    scan(fn["body"], False)
    if not producers:
        raise AnalysisBroken("XMLReader::location: no block parse before proc_location found")
    where = "%s:%s" % (fn["file"], consumer[0].get("l"))
    looped = [p for p, lp in producers if lp]
    ok = len(producers) == 1 and not looped
    # ... or a parse that gives up leaves nothing behind: every parsing entry point drops the operands pushed beyond the
    # depth it noted before utap_parse() (scopes.entry_restores on the operand stack)
    from .scopes import entry_restores
    entries = [f for f in F.functions.values() if f.get("body") is not None and f.get("name") != "utap_parse" and
               (f.get("file") or "").endswith(("parser.y", "parser.cpp")) and
               any(c.get("k") == "call" and c.get("name") == "utap_parse" for c in walk(f["body"]))]
    drops = bool(entries) and all(entry_restores(F, f, "fragments") is not None for f in entries)
    # ... where `fails` includes the texts the grammar recovers in (`(3 + )`: utap_parse() returns 0, but the error
    # production and the abandoned operand are both on the stack): the verdict of the entry point consults the parser's
    # error count next to the result of utap_parse()
    def counts_errors(f):
        for n in walk(f["body"]):
            c = n.get("c") if n.get("k") == "if" else (n.get("init") if n.get("k") == "var" else None)
            cands = [n["c"]] if n.get("k") == "if" else []
            if n.get("k") == "decl":
                cands += [v["init"] for v in n.get("vars", []) if v.get("init") is not None]
            for c in cands:
                if any(x.get("k") == "call" and x.get("name") == "utap_parse" for x in walk(c)) and \
                        any(x.get("k") == "ref" and x.get("name") in ("utap_nerrs", "yynerrs") for x in walk(c)):
                    return True
        return False
    recovered = bool(entries) and all(counts_errors(f) for f in entries)
    if not ok and drops and not recovered:
        chk.ob(rid, "location|proc_location|recovered-error", False,
               "a label whose syntax error the grammar recovers from (rate `(3 + )`) is parsed to the end: utap_parse() returns "
               "0, the entry point does not count it as failed and keeps what it left on the operand stack - the error "
               "production's `false` and the abandoned operand `3`, which proc_location pops as the invariant", where)
        return
    if not ok and drops:
        chk.ob(rid, "location|proc_location|single-parse", True, "", where,
               sample="several label parses precede proc_location, but a parse that fails drops its operands "
                      "(parse_XTA restores the operand depth)")
        chk.analysed[rid] = {"producers": sorted({p.get("name") for p, _ in producers}), "in_loop": bool(looped),
                             "failed_parse_drops_operands": True}
        return
    chk.ob(rid, "location|proc_location|single-parse", ok,
           "XMLReader::location parses the labels of a location in a loop (%s) and only afterwards lets proc_location "
           "pop the invariant / rate from the top of the operand stack: a label that fails to parse after a good "
           "one (invariant `x<=5`, then rate `3 +`) leaves its partial operand on top, and the location gets "
           "invariant `3`" % ", ".join(sorted({p.get("name") for p in looped} or {p.get("name") for p, _ in producers}))
           if not ok else "exactly one block parse precedes proc_location", where)
    # order: the consumer pops the rate first, then the invariant; the reader accepts the labels in any order
    names = {p.get("name") for p, _ in producers}
    chk.analysed[rid] = {"producers": sorted(names), "in_loop": bool(looped)}


def expr_entry(chk, F, rid="R-EXPRENTRY"):
    """parseExpression parses a text with the part S_EXPRESSION and takes the result from the top of the builder's operand
    stack.  A text that is no expression (empty, `x +`) leaves no operand there - after the repair that makes a failed parse
    drop what it pushed, never - so the read has to be licensed by the result of the parse or by the size of the stack
    (seen by a round-8 sub-agent: `x +` crashed, the empty text always had)."""
    from ..inline import sites_with_conditions, strip
    from ..facts import calls, short
    chk.rule(rid, "every function outside the builders that reads the top of ExpressionBuilder::getExpressions() does so only on "
                  "a path on which the parse returned 0 or the stack was found non-empty")
    n = 0
    for fn in sorted(F.functions.values(), key=lambda f: (f.get("file") or "", f.get("line") or 0)):
        fl = fn.get("file") or ""
        if fn.get("body") is None or fl.startswith("/usr") or "/test/" in fl or (fn.get("cls") or "").endswith("Builder"):
            continue

        def is_read(x):
            return x.get("k") == "call" and x.get("ck") == "op" and x.get("op") == "[]" and \
                any(c.get("name") == "getExpressions" for c in calls(x.get("recv") if x.get("recv") is not None else (x.get("args") or [{}])[0]))
        for site, conds in sites_with_conditions(fn["body"], is_read):
            n += 1

            def licenses(c, t):
                c = strip(c)
                if not isinstance(c, dict):
                    return False
                if c.get("k") == "bin" and c.get("op") == "||" and not t:
                    return licenses(c["lhs"], False) or licenses(c["rhs"], False)
                if c.get("k") == "bin" and c.get("op") == "&&" and t:
                    return licenses(c["lhs"], True) or licenses(c["rhs"], True)
                txt = short(c)
                if c.get("k") == "bin" and c.get("op") in ("!=", "==", ">", "<", ">=", "<="):
                    if any(x.get("name") == "parse_XTA" for x in calls(c)) and "0" in txt:
                        return (c["op"] == "!=" and not t) or (c["op"] == "==" and t)
                    if "size" in txt and "getExpressions" in txt and "0" in txt:
                        return (c["op"] == "==" and not t) or (c["op"] in ("!=", ">") and t)
                if c.get("k") == "call" and c.get("name") == "empty" and "getExpressions" in txt:
                    return not t
                return False
            ok = any(licenses(c, t) for c, t in conds if isinstance(c, dict) and c.get("k") != "caseof")
            chk.ob(rid, "%s|top operand" % fn["name"], ok,
                   "%s reads the top of the builder's operand stack without having asked whether the parse succeeded or the stack "
                   "holds anything: for a text that is no expression (`x +`, the empty text) it indexes an empty vector" % fn["q"],
                   "%s:%s" % (fl, site.get("l")), sample="%s reads the operand only after a successful parse" % fn["name"])
    if n < 1:
        raise AnalysisBroken("R-EXPRENTRY: no read of getExpressions()[..] outside the builders found")
