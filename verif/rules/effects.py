"""Rules for C11 (side-effect-free contexts), C12 (constants are not written), C13 (compile-time computable).

R-GATE        context table x checker function: an error is reported whenever the context expression writes /
              is not computable / is not a modifiable l-value
R-WRITEKINDS  kinds the grammar can create with write semantics  ==  kinds collect_possible_writes treats as
              writes  ==  kinds checkExpression gates on isModifiableLValue
R-VISITOR     CollectChangesVisitor / CollectDependenciesVisitor visit every expression and sub-statement field
              of every concrete Statement class
R-READS       collect_possible_reads records every IDENTIFIER (so anything written outside is also read)
"""
from ..front import AnalysisBroken
from ..facts import walk, short, calls
from ..inline import expanded_fn
from . import gates as G

CHANGES = "changes_any_variable"
COMPUTABLE = "isCompileTimeComputable"
LVALUE = "isModifiableLValue"


def G_strip(e):
    while isinstance(e, dict) and e.get("k") in ("cast", "paren", "materialize", "bind"):
        e = e.get("e")
    return e if isinstance(e, dict) else {}


def _fn(F, q):
    return F.fn("UTAP::TypeChecker::" + q)


# ---------------------------------------------------------------------------------------- C11
C11_CONTEXTS = [
    # (context name, checker function, subject path, predicate, must_hold)
    ("guard", "visitEdge", ("edge", "guard"), CHANGES, False),
    ("synchronisation", "visitEdge", ("edge", "sync"), CHANGES, False),
    ("probability", "visitEdge", ("edge", "prob"), CHANGES, False),
    ("invariant", "visitLocation", ("loc", "invariant"), CHANGES, False),
    ("variable initialiser", "visitVariable", ("variable", "init"), CHANGES, False),
    ("block-local initialiser", "visitBlockStatement", ("var", "init"), CHANGES, False),
    ("instantiation argument", "visitInstance", ("<instance-argument>",), CHANGES, False),
    ("assertion", "visitAssertStatement", ("stat", "expr"), CHANGES, False),
    ("query", "visitProperty", ("expr",), CHANGES, False),
    # contexts protected by the computability gate (see R-READS: a write outside is also a read)
    ("range lower bound", "checkType", ("<get_range>", "first"), COMPUTABLE, True),
    ("range upper bound", "checkType", ("<get_range>", "second"), COMPUTABLE, True),
]


def gate_table(chk, F, rid, table, extra_ok=()):
    cache = {}
    for name, fnname, subj, pred, must in table:
        if subj == ("<instance-argument>",):
            subj = (instance_lookup(F)[4],)
        fn = _fn(F, fnname)
        if fnname not in cache:
            al = G.collect_aliases(fn)
            cache[fnname] = (al, G.find_gates(fn, al))
        al, gs = cache[fnname]
        # the subject may be spelled through an alias (auto& inv = loc.invariant) or directly
        subjects = {subj}
        for vid, p in al.items():
            if p == subj:
                subjects.add(p)
        g, cands = None, []
        for sj in subjects:
            g, cands = G.gated(fn, sj, pred, must, al, extra_ok, gates=gs)
            if g:
                break
        verb = "fails %s" % pred if must else "satisfies %s" % pred
        chk.ob(rid, "%s|%s|%s" % (fnname, ".".join(subj), pred), g is not None,
               "%s: a %s that %s is not rejected on every path (%d test(s) found; none is an error-reporting branch "
               "reached whenever the expression type-checks)" % (fn["q"], name, verb, len(cands)) if g is None else
               "%s rejects a %s that %s" % (fn["q"], name, verb), "%s:%s" % (fn["file"], fn["line"]),
               sample="%s: %s(%s) must %shold" % (name, pred, ".".join(subj), "" if must else "not "))


# Binder forms whose body is deliberately not gated, confirmed by reading
QUANT_EXEMPT = {
    "FOREACH_DYNAMIC": "foreach (p : T) e is the statement-like form of an update: its body is meant to have effects",
    "MITL_FORALL": "exists only inside MITL queries; a query is gated as a whole (visitProperty: changes_any_variable "
                   "descends into every child)",
    "MITL_EXISTS": "see MITL_FORALL",
}


def binder_kinds(F):
    """{kind: callback} for the expression kinds that bind a variable: what the expr_*_end callbacks of
    ExpressionBuilder create whose expr_*_begin opens a scope with the binder in it (add_symbol, directly or through
    another _begin callback)."""
    cls = "UTAP::ExpressionBuilder"

    def opens(fn, depth=0):
        for c in calls(fn["body"]):
            if c.get("name") == "add_symbol":
                return True
            if depth < 2 and c.get("cls") == cls and c.get("name") not in ("push_frame", "popFrame"):
                t = F.resolve_method(cls, c["name"])
                if t is not None and t.get("body") is not None and t is not fn and opens(t, depth + 1):
                    return True
        return False
    out = {}
    for fn in F.functions.values():
        if fn.get("cls") == cls and (fn.get("name") or "").startswith("expr_") and fn["name"].endswith("_begin") and \
                fn.get("body") is not None and opens(fn):
            end = F.resolve_method(cls, fn["name"][:-6] + "_end")
            if end is None or end.get("body") is None:
                continue
            kind_enum = "kind_t"
            for c in calls(end["body"]):
                if (c.get("fn") or "").startswith("UTAP::expression_t::create_") and c.get("args"):
                    for x in walk(c["args"][0]):
                        if x.get("dk") == "enumerator":
                            out[x["name"]] = end["name"]
                elif c.get("cls") == cls and c.get("args"):
                    # a helper shared by several _end callbacks that is told the kind(s) to create
                    t = F.resolve_method(cls, c.get("name"))
                    if t is not None and t.get("body") is not None and \
                            any((y.get("fn") or "").startswith("UTAP::expression_t::create_") for y in calls(t["body"])):
                        for a in c["args"]:
                            for x in walk(a):
                                if x.get("dk") == "enumerator" and kind_enum in (x.get("t") or kind_enum):
                                    out[x["name"]] = end["name"]
    from .exprlaws import size_table
    sizes, _ = size_table(F)
    out = {k: v for k, v in out.items() if k in sizes}      # kind_t also has the type kinds (INT ..): expression kinds only
    if not {"FORALL", "EXISTS", "SUM"} <= set(out):
        raise AnalysisBroken("binder kinds not found in ExpressionBuilder (%s)" % sorted(out))
    return out


def _clause_stmts(T, start):
    """The statements executed for the case label at T.items[start], in order, up to the break / return that ends the
    clause; a clause that falls through into the next labels runs on into their statements, and the braces of a
    `case K: { .. break; }` block are looked through."""
    out = []
    for labels, s_ in T.items[start:]:
        parts = s_.get("s", []) if s_.get("k") == "block" else [s_]
        for x in parts:
            out.append(x)
            if isinstance(x, dict) and x.get("k") in ("break", "return"):
                return out
    return out


def _specialise(n, subject, kind, arity):
    """A copy of the statements of one kind's clause with what is known there folded in: `<subject>.get_size()` is the arity
    of the kind, `<subject>.get_kind()` is the kind, integer arithmetic on literals is evaluated - so that
    `expr[expr.get_size() - 1]` in a clause shared by several kinds reads as `expr[1]` / `expr[2]`."""
    import copy
    if isinstance(n, list):
        return [_specialise(x, subject, kind, arity) for x in n]
    if not isinstance(n, dict):
        return n
    if n.get("k") == "call" and n.get("name") in ("get_size", "get_kind") and not n.get("args"):
        r = n.get("recv")
        while isinstance(r, dict) and r.get("k") in ("cast", "paren"):
            r = r.get("e")
        if isinstance(r, dict) and r.get("k") == "ref" and r.get("name") == subject:
            if n["name"] == "get_size":
                return {"k": "int", "v": arity, "l": n.get("l")}
            return {"k": "ref", "dk": "enumerator", "name": kind, "l": n.get("l"), "t": "UTAP::Constants::kind_t"}
    out = {k: (_specialise(v, subject, kind, arity) if isinstance(v, (dict, list)) else v) for k, v in n.items()}
    if out.get("k") in ("cast", "paren") and isinstance(out.get("e"), dict) and out["e"].get("k") == "int":
        return out["e"]
    if out.get("k") == "construct" and len(out.get("args", [])) == 1 and isinstance(out["args"][0], dict) and \
            out["args"][0].get("k") == "int":
        return out["args"][0]
    if out.get("k") == "bin" and out.get("op") in ("-", "+") and isinstance(out.get("lhs"), dict) and \
            isinstance(out.get("rhs"), dict) and out["lhs"].get("k") == "int" and out["rhs"].get("k") == "int":
        v = out["lhs"]["v"] - out["rhs"]["v"] if out["op"] == "-" else out["lhs"]["v"] + out["rhs"]["v"]
        return {"k": "int", "v": v, "l": out.get("l")}
    return out


def quantifier_bodies(chk, F, rid):
    """checkExpression: every binder form (static and dynamic quantifiers, sums) reports an error when its body - the
    last child - writes."""
    from ..tables import CheckExprTable
    from .exprlaws import size_table
    T = CheckExprTable(F)
    fn = T.fn
    sizes, _ = size_table(F)
    kinds = binder_kinds(F)
    for kind in sorted(kinds):
        if kind in QUANT_EXEMPT:
            chk.ob(rid, "checkExpression|%s body|listed" % kind, True, "", "%s:%s" % (fn["file"], fn["line"]),
                   sample="%s - listed: %s" % (kind, QUANT_EXEMPT[kind][:60]))
            continue
        ar = sizes.get(kind)
        if not isinstance(ar, int) or ar < 2:
            raise AnalysisBroken("arity of %s not known (%r)" % (kind, ar))
        idx = [i for i, (labels, _) in enumerate(T.items) if kind in labels]
        if not idx:
            chk.ob(rid, "checkExpression|%s body|%s" % (kind, CHANGES), False,
                   "checkExpression has no clause for %s (created by ExpressionBuilder::%s): the node keeps the type the "
                   "builder gave it and its body is never asked whether it writes - `b = %s(x++ >= 0)` is accepted" %
                   (kind, kinds[kind], "forall (p : T) " if "DYNAMIC" in kind else kind.lower() + " (i : int[0,1]) "),
                   "%s:%s" % (fn["file"], fn["line"]))
            continue
        stmts = _clause_stmts(T, idx[0])
        stmts = _specialise(stmts, fn["params"][0]["name"], kind, ar)
        pseudo = {"q": fn["q"] + "#" + kind, "file": fn["file"], "line": fn["line"], "body": {"k": "block", "s": stmts}}
        al = G.collect_aliases(pseudo)
        al.update({k_: v_ for k_, v_ in G.collect_aliases(fn).items() if k_ not in al})
        g, cands = G.gated(pseudo, ("expr", "[%d]" % (ar - 1)), CHANGES, False, al)
        chk.ob(rid, "checkExpression|%s body|%s" % (kind, CHANGES), g is not None,
               "checkExpression: the body of %s (child %d) is not rejected when it can write" % (kind, ar - 1)
               if g is None else "checkExpression rejects a writing %s body" % kind, "%s:%s" % (fn["file"], fn["line"]))


def write_kinds(F, G_):
    """Kinds with write semantics the grammar can create: values of AssignOp, and the kinds the
    increment/decrement callbacks construct."""
    kinds = set()
    for r in G_.by_lhs.get("AssignOp", []):
        if r.action is None:
            continue
        for n in walk(r.action):
            if n.get("k") == "bin" and n.get("op") == "=" and n["lhs"].get("k") == "member" and \
                    n["lhs"].get("base", {}).get("name") == "yyval":
                for x in walk(n["rhs"]):
                    if x.get("k") == "ref" and x.get("dk") == "enumerator":
                        kinds.add(x["name"])
    if len(kinds) < 5:
        raise AnalysisBroken("AssignOp kinds not found in the grammar (%s)" % sorted(kinds))
    incdec = set()
    for cb in ("expr_post_increment", "expr_pre_increment", "expr_post_decrement", "expr_pre_decrement"):
        fn = F.resolve_method("UTAP::DocumentBuilder", cb)
        if fn is None:
            raise AnalysisBroken("callback %s not found" % cb)
        for c in calls(fn["body"]):
            if (c.get("fn") or "").startswith("UTAP::expression_t::create_"):
                a = c["args"][0]
                if a.get("k") == "ref" and a.get("dk") == "enumerator":
                    incdec.add(a["name"])
    if len(incdec) != 4:
        raise AnalysisBroken("increment/decrement kinds: %s" % sorted(incdec))
    return kinds, incdec


def switch_cases(fn, selector="get_kind"):
    """[(labels, statements-until-break)] of the largest switch over <x>.get_kind() in fn."""
    sws = [n for n in walk(fn["body"]) if n.get("k") == "switch" and
           any(c.get("name") == selector for c in walk(n["c"]) if c.get("k") == "call")]
    if not sws:
        # the dispatch is not a switch in this function (if-chains on a local holding the kind, kind predicates in
        # helpers): read it kind by kind with the slicer and group the kinds that execute the same statements
        alt = _sliced_cases(fn)
        if alt is None:
            raise AnalysisBroken("%s: no switch over %s()" % (fn["q"], selector))
        return alt
    sw = max(sws, key=lambda s: sum(1 for _ in walk(s)))
    items = []
    for s in sw["body"].get("s", []):
        labels = []
        while isinstance(s, dict) and s.get("k") in ("case", "default"):
            if s["k"] == "case":
                v = s.get("v", {})
                labels.append(v.get("name") if v.get("k") == "ref" else str(s.get("cv")))
            else:
                labels.append("default")
            s = s.get("s")
        items.append((labels, s))
    groups = []
    for i, (labels, s) in enumerate(items):
        if not labels:
            continue
        stmts = []
        for l2, s2 in items[i:]:
            if s2 is not None:
                stmts.append(s2)
            if isinstance(s2, dict) and s2.get("k") in ("break", "return"):
                break
        groups.append((labels, stmts))
    return groups


def _sliced_cases(fn):
    from .. import facts as _facts
    from ..inline import KindSlicer
    from .exprlaws import size_table
    F = _facts.CURRENT
    if F is None:
        return None
    subject = "this" if (fn.get("cls") or "").endswith("expression_t") else None
    try:
        sl = KindSlicer(F, fn, subject=subject, stop=(fn["name"],))
        tab, _ = size_table(F)
    except Exception:
        return None
    import json

    def ser(x):
        def clean(n):
            if isinstance(n, list):
                return [clean(y) for y in n]
            if isinstance(n, dict):
                return {k: clean(v) for k, v in n.items() if k not in ("l", "id")}
            return n
        return json.dumps(clean(x), sort_keys=True, default=str)
    per = {}
    for K in sorted(tab):
        try:
            body = sl.slice(K)
        except Exception:
            return None
        ss = body.get("s", []) if isinstance(body, dict) and body.get("k") == "block" else [body]
        ss = [x for x in ss if isinstance(x, dict) and x.get("k") != "decided"]
        per[K] = (ss, [ser(x) for x in ss])
    # what every kind executes first (the empty test, the loop over the operands, a local holding the kind) is not part
    # of any clause
    keys = list(per)
    pre = 0
    while all(len(per[k_][1]) > pre for k_ in keys) and len({per[k_][1][pre] for k_ in keys}) == 1:
        pre += 1
    groups, order = {}, []
    for K in keys:
        ss, sr = per[K]
        key = "\n".join(sr[pre:])
        if key not in groups:
            groups[key] = ([], ss[pre:])
            order.append(key)
        groups[key][0].append(K)
    if len(order) < 2:
        return None
    # the largest group plays the role of `default`
    big = max(order, key=lambda k_: len(groups[k_][0]))
    out = []
    for k_ in order:
        labels, ss = groups[k_]
        out.append(((labels + ["default"]) if k_ == big else labels, ss))
    return out


def run_writekinds(chk, F, G_, parts=("collect", "lvalue")):
    rid = "R-WRITEKINDS"
    chk.rule(rid, "every kind the grammar creates with write semantics (AssignOp values, ++/-- callbacks) is (a) a case "
                  "of collect_possible_writes that records the symbols of operand 0 and (b) a case of checkExpression "
                  "that reports an error unless isModifiableLValue(operand 0)")
    akinds, incdec = write_kinds(F, G_)
    wfn = F.fn("UTAP::expression_t::collect_possible_writes")
    wcases = switch_cases(wfn)
    writes = set()
    for labels, stmts in wcases:
        if any(c.get("name") == "get_symbols" and G.path_of(c.get("recv")) in (("[0]",), None) or
               (c.get("name") == "get_symbols" and "get(0)" in short(c.get("recv")))
               for s in stmts for c in calls(s)):
            writes.update(labels)
    cfn = F.fn("UTAP::TypeChecker::checkExpression")
    ccases = switch_cases(cfn)
    al = G.collect_aliases(cfn)
    lv = set()
    for labels, stmts in ccases:
        pseudo = {"q": cfn["q"], "file": cfn["file"], "line": cfn["line"], "body": {"k": "block", "s": stmts}}
        g, _ = G.gated(pseudo, ("expr", "[0]"), LVALUE, True, al)
        if g is not None:
            lv.update(labels)
    # no accepting arm before the l-value gate: in the if / else-if chain of a write kind, every arm that precedes the
    # arm testing isModifiableLValue(expr[0]) must itself report an error on every path (an arm that can complete
    # silently - "doubles are fine" - accepts the write without the gate ever being evaluated)
    bypass = {}
    if "lvalue" in parts:
        def always_reports(b):
            if b is None:
                return False
            if b.get("k") == "block":
                return any(always_reports(x) for x in b.get("s", []))
            if b.get("k") == "if":
                return b.get("else") is not None and always_reports(b["then"]) and always_reports(b["else"])
            if b.get("k") == "call":
                return (b.get("name") or "") in ("handleError", "handle_error")
            if b.get("k") in ("return", "throw"):
                return any(c.get("name") in ("handleError", "handle_error") for c in calls(b))
            return any(c.get("name") in ("handleError", "handle_error") for c in calls(b)) and b.get("k") not in (
                "for", "while", "rangefor", "switch")
        for labels, stmts in ccases:
            if not (set(labels) & (akinds | incdec)):
                continue
            for st in stmts:
                if st.get("k") != "if":
                    continue
                chain, n_ = [], st
                while isinstance(n_, dict) and n_.get("k") == "if":
                    chain.append((n_["c"], n_["then"]))
                    n_ = n_.get("else")
                gi = [i for i, (c_, _) in enumerate(chain) if "isModifiableLValue" in short(c_) or "isLValue" in short(c_)]
                if not gi:
                    continue
                for i, (c_, b_) in enumerate(chain[:gi[0]]):
                    if not always_reports(b_):
                        for lb in labels:
                            bypass[lb] = short(c_)[:70]
    for k in sorted(akinds | incdec):
        if "collect" in parts:

          chk.ob(rid, "collect|%s" % k, k in writes,
               "expression kind %s is created by the grammar as a write but collect_possible_writes does not record "
               "its target: a guard/invariant/initialiser using it is accepted" % k,
               "%s:%s" % (wfn["file"], wfn["line"]))
        if "lvalue" in parts:
          chk.ob(rid, "lvalue|%s" % k, k in lv,
               "expression kind %s is created by the grammar as a write but checkExpression does not require a "
               "modifiable l-value for it: constants can be written" % k, "%s:%s" % (cfn["file"], cfn["line"]))
          chk.ob(rid, "lvalue|%s|no-bypass" % k, k not in bypass,
               "checkExpression(%s): the arm `if (%s)` precedes the isModifiableLValue test and can complete without "
               "reporting an error, so a write whose target satisfies it is accepted without the l-value gate (a "
               "constant of that shape can be written)" % (k, bypass.get(k)), "%s:%s" % (cfn["file"], cfn["line"]))
    if "collect" not in parts:
        return akinds | incdec
    # function calls: changes of the callee and arguments bound to non-const reference parameters
    for labels, stmts in wcases:
        if "FUN_CALL" in labels:
            body = {"k": "block", "s": stmts}
            has_changes = any(n.get("k") == "member" and n.get("name") == "changes" for n in walk(body))
            refarg = False
            for n in walk(body):
                if n.get("k") == "if":
                    cs = [c.get("name") for c in calls(n["c"])]
                    args = [short(c) for c in calls(n["c"]) if c.get("name") == "is"]
                    if "is" in cs and any("REF" in a for a in args) and \
                            any(c.get("name") == "get_symbols" for c in calls(n["then"])):
                        refarg = True
            chk.ob(rid, "collect|FUN_CALL|callee-changes", has_changes and "FUN_CALL_EXT" in labels,
                   "collect_possible_writes does not add the callee's may-write set for FUN_CALL / FUN_CALL_EXT",
                   "%s:%s" % (wfn["file"], wfn["line"]))
            chk.ob(rid, "collect|FUN_CALL|ref-arguments", refarg,
                   "collect_possible_writes does not record arguments bound to non-constant reference parameters",
                   "%s:%s" % (wfn["file"], wfn["line"]))
            break
    else:
        chk.ob(rid, "collect|FUN_CALL|callee-changes", False, "collect_possible_writes has no FUN_CALL case",
               "%s:%s" % (wfn["file"], wfn["line"]))
    # recursion into all children comes first and unconditionally
    rec = False
    for n in walk(wfn["body"]):
        if n.get("k") == "for" and any(c.get("name") == "collect_possible_writes" for c in calls(n["body"])):
            rec = True
    chk.ob(rid, "collect|children", rec, "collect_possible_writes does not recurse into all children",
           "%s:%s" % (wfn["file"], wfn["line"]))
    return akinds | incdec


def is_worklist_form(fn):
    """the function walks the tree iteratively: a local vector of expressions that a loop takes nodes from and pushes their
    operands onto.  The per-node rules of this module read a function that is applied to `this` and recurses."""
    vecs = set()
    for d in walk(fn["body"]):
        if d.get("k") == "decl":
            for v in d.get("vars", []):
                t = (v.get("ct") or v.get("t") or "")
                if "vector" in t and "expression_t" in t:
                    vecs.add(v.get("id"))
    if not vecs:
        return False
    for lp in walk(fn["body"]):
        if lp.get("k") in ("while", "for", "do"):
            if any(c.get("name") in ("push_back", "emplace_back", "insert") and
                   any(x.get("k") == "ref" and x.get("id") in vecs for x in walk(c.get("recv") or {})) for c in calls(lp)):
                return True
    return False


def run_reads(chk, F):
    rid = "R-READS"
    chk.rule(rid, "collect_possible_reads recurses into all children, records every IDENTIFIER symbol and adds the "
                  "callee's depends set for FUN_CALL (so a function that writes a non-local is never compile-time "
                  "computable, which lets the computability gate stand in for a side-effect gate)")
    rfn = F.fn("UTAP::expression_t::collect_possible_reads")
    if is_worklist_form(rfn):
        raise AnalysisBroken("collect_possible_reads walks the tree with a work list: this reader follows the recursive form only")
    rec = any(n.get("k") == "for" and any(c.get("name") == "collect_possible_reads" for c in calls(n["body"]))
              for n in walk(rfn["body"]))
    chk.ob(rid, "children", rec, "collect_possible_reads does not recurse into all children",
           "%s:%s" % (rfn["file"], rfn["line"]))
    cases = switch_cases(rfn)
    ident = fun = False
    for labels, stmts in cases:
        body = {"k": "block", "s": stmts}
        if "IDENTIFIER" in labels:
            top = stmts[0] if stmts else {}
            ident = any(c.get("name") == "insert" for c in calls(top)) and top.get("k") != "if"
        if "FUN_CALL" in labels:
            fun = any(n.get("k") == "member" and n.get("name") == "depends" for n in walk(body))
    chk.ob(rid, "IDENTIFIER", ident, "collect_possible_reads does not unconditionally record IDENTIFIER symbols",
           "%s:%s" % (rfn["file"], rfn["line"]))
    chk.ob(rid, "FUN_CALL", fun, "collect_possible_reads does not add the callee's depends set for FUN_CALL",
           "%s:%s" % (rfn["file"], rfn["line"]))
    # isCompileTimeComputable accepts only symbols from the computable set (or functions, whose reads were added)
    ifn = _fn(F, "isCompileTimeComputable")
    # the test may be delegated to a helper (e.g. a method of the computable-values object): follow resolved
    # callees with a body inside the type checker's own translation unit
    names, todo, seen = set(), [ifn], set()
    while todo:
        f = todo.pop()
        if f["q"] in seen or len(seen) > 6:
            continue
        seen.add(f["q"])
        for c in calls(f["body"]):
            names.add(c.get("name"))
            if c.get("fn", "").startswith("UTAP::") and c.get("name") not in ("collect_possible_reads", "contains"):
                for t in F.fns(c["fn"]):
                    if t.get("body") is not None and (t.get("file") or "").endswith("typechecker.cpp"):
                        todo.append(t)
    ok = "collect_possible_reads" in names and "all_of" in names and "contains" in names
    chk.ob(rid, "isCompileTimeComputable", ok,
           "isCompileTimeComputable is not `all reads are in the computable set`", "%s:%s" % (ifn["file"], ifn["line"]))
    # ... and nothing else says yes: a `return true` in isCompileTimeComputable (or the function it hands the question
    # to) is licensed only by a shape that reads nothing - the empty expression or a CONSTANT node.  Any other early
    # yes (a type test, a cache) bypasses the read set: `A[i]` has a constant type and a mutable index.
    from ..inline import path_states, strip

    def reads_nothing(c):
        """+1 if c being true implies the expression reads nothing, else 0"""
        c = strip(c)
        if not isinstance(c, dict):
            return False
        if c.get("k") == "bin" and c.get("op") == "||":
            return reads_nothing(c["lhs"]) and reads_nothing(c["rhs"])
        if c.get("k") == "bin" and c.get("op") == "&&":
            return reads_nothing(c["lhs"]) or reads_nothing(c["rhs"])
        if c.get("k") == "call" and c.get("name") == "empty" and c.get("cls") == "UTAP::expression_t":
            return True
        if c.get("k") == "bin" and c.get("op") == "==":
            for a, b in ((c["lhs"], c["rhs"]), (c["rhs"], c["lhs"])):
                a, b = strip(a), strip(b)
                if a.get("k") == "call" and a.get("name") == "get_kind" and a.get("cls") == "UTAP::expression_t" and \
                        b.get("k") == "ref" and b.get("dk") == "enumerator" and b.get("name") == "CONSTANT":
                    return True
        return False
    bad = []
    for q in sorted(seen):
        for f in F.fns(q):
            if f.get("body") is None or (f.get("ret") or "").replace("const ", "").strip() != "bool":
                continue
            if not any(p_.get("ct", "").replace("const ", "").strip(" &").endswith("expression_t") for p_ in f["params"]):
                continue
            _, ex = path_states(f["body"], lambda e: (),
                                lambda c, t: ("FREE",) if (t and reads_nothing(c)) else ())
            for st, bits in ex:
                e = strip(st.get("e")) if st.get("e") is not None else None
                if isinstance(e, dict) and e.get("k") == "bool" and e.get("v") and "FREE" not in bits:
                    bad.append("%s line %s" % (f["name"], st.get("l")))
    chk.ob(rid, "isCompileTimeComputable|no-other-yes", not bad,
           "isCompileTimeComputable answers `true` without consulting the read set (%s): an expression that merely has "
           "a constant type, such as a constant array indexed by a variable, is accepted as a size, bound, initialiser "
           "or by-value argument" % ", ".join(bad), "%s:%s" % (ifn["file"], ifn["line"]))


def run_visitors(chk, F, visitors=("UTAP::CollectChangesVisitor", "UTAP::CollectDependenciesVisitor")):
    rid = "R-VISITOR"
    chk.rule(rid, "for every concrete Statement class and every field of type expression_t / unique_ptr<Statement> / "
                  "container of statements / frame, the visit method CollectChangesVisitor and "
                  "CollectDependenciesVisitor inherit reaches that field")
    stmt_classes = [q for q in F.records if F.derives(q, "UTAP::Statement") and q != "UTAP::Statement"]
    if len(stmt_classes) < 10:
        raise AnalysisBroken("only %d Statement classes found" % len(stmt_classes))
    for visitor in visitors:
        F.record(visitor)
        for sc in sorted(stmt_classes):
            rec = F.records[sc]
            if rec.get("abstract"):
                continue
            acc = F.resolve_method(sc, "accept", 1)
            if acc is None:
                continue
            vcalls = [c for c in calls(acc["body"]) if c.get("name", "").startswith("visit")]
            if len(vcalls) != 1:
                raise AnalysisBroken("%s::accept does not dispatch to exactly one visit method" % sc)
            vname = vcalls[0]["name"]
            vfn = F.resolve_method(visitor, vname, 1)
            if vfn is None:
                raise AnalysisBroken("%s has no %s" % (visitor, vname))
            # what the visit method does, with everything it delegates to on `this` expanded in place: other visit
            # methods as dispatched for this visitor class, private workers (`visitConditionAndBody(stat->cond,
            # *stat->stat)`) with their parameters replaced by the argument expressions
            def dyn(c, visitor=visitor):
                if (c.get("recv") is None or c["recv"].get("k") == "this") and c.get("name") and \
                        c.get("name") != "visitExpression" and c.get("ck") in ("member", None):
                    t = F.resolve_method(visitor, c["name"], len(c.get("args", [])))
                    if t is not None and t.get("body") is not None:
                        return t
                return None
            bodies = [expanded_fn(vfn, F, maxdepth=5, resolve=dyn)]
            fields = []
            for c in [sc] + F.bases(sc):
                r = F.records.get(c)
                if r and F.derives(c, "UTAP::Statement"):
                    fields += [(c, f) for f in r["fields"]]
            for owner, f in fields:
                t = f["ct"]
                name = f["name"]
                reached = None
                if t == "UTAP::expression_t":
                    reached = any(c.get("name") == "visitExpression" and c.get("args") and
                                  G.path_of(c["args"][0]) and G.path_of(c["args"][0])[-1] == name
                                  for b in bodies for c in calls(b["body"]))
                    what = "expression"
                elif "unique_ptr<UTAP::Statement" in t and "vector" not in t:
                    reached = any(c.get("name") == "accept" and name in short(c.get("recv"))
                                  for b in bodies for c in calls(b["body"]))
                    what = "sub-statement"
                elif "vector<std::unique_ptr<UTAP::Statement" in t:
                    reached = any(n.get("k") == "rangefor" and any(c.get("name") == "accept" for c in calls(n["body"]))
                                  for b in bodies for n in walk(b["body"]))
                    what = "statement list"
                elif t == "UTAP::frame_t" and owner == "UTAP::BlockStatement":
                    reached = any(n.get("k") == "rangefor" and "get_frame" in short(n.get("range")) and
                                  any(c.get("name") == "visitExpression" for c in calls(n["body"]))
                                  for b in bodies for n in walk(b["body"]))
                    what = "local-variable initialisers"
                else:
                    continue
                chk.ob(rid, "%s|%s.%s" % (visitor.split("::")[-1], sc.split("::")[-1], name), bool(reached),
                       "%s does not visit the %s field %s::%s (reached through %s): writes/reads there are invisible "
                       "to the function summaries" % (visitor, what, owner, name, vfn["q"]),
                       "%s:%s" % (vfn["file"], vfn["line"]), sample="%s %s.%s via %s" % (what, sc, name, vfn["q"]))
    # visitFunction: summaries from the whole body, only own locals and parameters removed
    vf = _fn(F, "visitFunction")
    txt = [short(c) for c in calls(vf["body"])]
    ok1 = any("CollectChangesVisitor" in (n.get("t") or "") for n in walk(vf["body"]) if n.get("k") in ("construct", "decl")
              or n.get("k") == "decl" and any("CollectChangesVisitor" in v.get("t", "") for v in n.get("vars", [])))
    decl_types = [v.get("ct", "") for n in walk(vf["body"]) if n.get("k") == "decl" for v in n["vars"]]
    ok1 = any("CollectChangesVisitor" in t for t in decl_types)
    ok2 = any("CollectDependenciesVisitor" in t for t in decl_types)
    accepts = [c for c in calls(vf["body"], "accept")]
    if "UTAP::CollectChangesVisitor" in visitors:
      chk.ob(rid, "visitFunction|changes", ok1 and len(accepts) >= 2,
           "visitFunction does not compute fun.changes by running CollectChangesVisitor over the whole body",
           "%s:%s" % (vf["file"], vf["line"]))
    if "UTAP::CollectDependenciesVisitor" in visitors:
      chk.ob(rid, "visitFunction|depends", ok2 and len(accepts) >= 3,
           "visitFunction does not compute fun.depends by running CollectDependenciesVisitor over the whole body",
           "%s:%s" % (vf["file"], vf["line"]))
    erased = [c for c in calls(vf["body"], "erase")]
    bad = []
    for c in erased:
        a = short(c["args"][0]) if c.get("args") else "?"
        if not ("var.uid" in a or "get_frame" in a):
            bad.append(a)
    chk.ob(rid, "visitFunction|erase-only-locals", not bad and len(erased) >= 2,
           "visitFunction removes symbols other than the function's own locals and parameters from its summaries: %s"
           % bad, "%s:%s" % (vf["file"], vf["line"]))


# ---------------------------------------------------------------------------------------- C13
C13_CONTEXTS = [
    ("range lower bound", "checkType", ("<get_range>", "first"), COMPUTABLE, True),
    ("range upper bound", "checkType", ("<get_range>", "second"), COMPUTABLE, True),
    ("variable initialiser", "visitVariable", ("variable", "init"), COMPUTABLE, True),
]


def instance_lookup(F, entry="visitInstance"):
    """visitInstance: (fn, aliases, instance parameter name, name of the local holding the looked-up parameter, name of
    the local holding its argument, the lookup call)"""
    fn = G.normalized(_fn(F, entry))       # the argument loop may live in a helper shared with visitInstanceLine
    al = G.collect_aliases(fn)
    # which locals are "the argument" and "its parameter": the value and the key of the lookup in instance.mapping
    inst = fn["params"][0]["name"]
    look = [c for c in calls(fn["body"]) if c.get("name") in ("operator[]", "find", "at") and
            G.path_of(c.get("recv"), al) == (inst, "mapping") and c.get("args")]
    if len(look) != 1:
        raise AnalysisBroken("visitInstance: expected one lookup in %s.mapping, found %d" % (inst, len(look)))
    key = look[0]["args"][0]
    while key.get("k") in ("cast", "construct") and (key.get("e") or key.get("args")):
        key = key["e"] if key.get("k") == "cast" else key["args"][0]
    pname = key.get("name") if key.get("k") == "ref" else None
    holder, aname = None, None
    for d in walk(fn["body"]):
        if d.get("k") == "decl":
            for v in d.get("vars", []):
                if v.get("init") is not None and any(x is look[0] for x in walk(v["init"])):
                    holder = v
    def is_expr_type(v):
        return (v.get("ct") or "").replace("const ", "").strip(" &") == "UTAP::expression_t"
    if holder is not None and is_expr_type(holder):
        aname = holder["name"]
    elif holder is not None:            # an iterator: `auto binding = mapping.find(p); expression_t argument = binding->second;`
        for d in walk(fn["body"]):
            if d.get("k") == "decl":
                for v in d.get("vars", []):
                    if v.get("init") is not None and is_expr_type(v) and any(
                            x.get("k") == "ref" and x.get("id") == holder.get("id") for x in walk(v["init"])):
                        aname = v["name"]
    if pname is None or aname is None:
        raise AnalysisBroken("visitInstance: cannot identify the argument / parameter of the mapping lookup")
    return fn, al, inst, pname, aname, look


def run_c13_instance(chk, F, rid):
    """visitInstance: value parameters and const-reference parameters need a computable argument."""
    fn, al, inst, pname, aname, look = instance_lookup(F)
    gs = G.find_gates(fn, al)
    # the parameters whose bindings are checked are the instance's own (they include those inherited from a partial
    # instance and the ones this instantiation step binds) - not the root template's
    origin = None
    for d in walk(fn["body"]):
        if d.get("k") == "decl":
            for v in d.get("vars", []):
                if v.get("name") == pname and v.get("init") is not None:
                    origin = G.path_of(v["init"], al)
        if d.get("k") == "rangefor" and (d.get("var") or {}).get("name") == pname:
            origin = G.path_of(d.get("range"), al)
    chk.ob(rid, "visitInstance|argument|own-parameters", origin is not None and origin[:2] == (inst, "parameters"),
           "visitInstance takes the parameters whose arguments it checks from `%s`, not from %s.parameters: for an "
           "instance of a partial instance the newly bound parameters are not among them and their arguments are "
           "never checked (a constant bound to a non-const reference parameter is accepted)" %
           (".".join(origin) if origin else "?", inst), "%s:%s" % (fn["file"], look[0].get("l")))
    comp = (COMPUTABLE, (aname,))
    ref = ("is", (pname,))            # parameter.get_type().is(REF)
    const = ("is_constant", (pname,))
    # find atom keys as the formula sees them
    found = None
    for g in gs:
        if comp in g.atoms and g.reports:
            found = g
    if found is None:
        chk.ob(rid, "visitInstance|argument|value", False,
               "visitInstance has no error-reporting test of isCompileTimeComputable(argument)",
               "%s:%s" % (fn["file"], fn["line"]))
        return
    refk = [a for a in found.atoms if a[0] == "is"]
    constk = [a for a in found.atoms if a[0] == "is_constant"]
    if len(refk) != 1 or len(constk) != 1:
        raise AnalysisBroken("visitInstance: cannot identify the ref/const atoms (%s)" % sorted(found.atoms, key=str))
    ok_val = found.implied_by({comp: False, refk[0]: False})
    ok_cref = found.implied_by({comp: False, refk[0]: True, constk[0]: True})
    guards_ok = all(G.guard_allowed(i, s, (aname,), al) for i, s in found.guards) and found.silent_exit is None
    chk.ob(rid, "visitInstance|argument|by-value", ok_val and guards_ok,
           "visitInstance accepts a non-computable argument for a by-value template parameter",
           "%s:%s" % (fn["file"], found.ifnode.get("l")))
    chk.ob(rid, "visitInstance|argument|const-reference", ok_cref and guards_ok,
           "visitInstance accepts a non-computable argument for a const reference template parameter",
           "%s:%s" % (fn["file"], found.ifnode.get("l")))
    # non-const reference parameters need a unique reference (C12)
    uniq = [a for a in found.atoms if a[0] == "isUniqueReference"]
    if uniq:
        ok_ref = found.implied_by({uniq[0]: False, refk[0]: True, constk[0]: False})
        chk.ob(rid, "visitInstance|argument|reference", ok_ref and guards_ok,
               "visitInstance accepts a non-unique reference argument for a non-const reference template parameter",
               "%s:%s" % (fn["file"], found.ifnode.get("l")))


def run_c13_seeds(chk, F, rid):
    """The computable set is seeded only from constants, non-reference constant parameters and binders."""
    cls = "UTAP::CompileTimeComputableValues"
    vv = F.fn(cls + "::visitVariable")
    gs = G.find_gates(vv)
    ok = False
    for n in walk(vv["body"]):
        if n.get("k") == "if" and any(c.get("name") == "is_constant" for c in calls(n["c"])) and \
                any(c.get("name") == "insert" for c in calls(n["then"])):
            ok = True
    ins_outside = [c for c in calls(vv["body"], "insert")]
    chk.ob(rid, "seed|variables", ok and len(ins_outside) == 1,
           "CompileTimeComputableValues::visitVariable adds variables that are not is_constant()",
           "%s:%s" % (vv["file"], vv["line"]))
    vi = F.fn(cls + "::visitInstance")
    ok = False
    for n in walk(vi["body"]):
        if n.get("k") == "if" and any(c.get("name") == "insert" for c in calls(n["then"])):
            al = G.collect_aliases(vi)
            f, atoms = G.formula(n["c"], al, G.bool_locals(vi))
            isref = [a for a in atoms if a[0] == "is"]
            isconst = [a for a in atoms if a[0] == "is_constant"]
            if len(isref) == 1 and len(isconst) == 1:
                import itertools
                others = [a for a in atoms if a not in (isref[0], isconst[0])]
                good = True
                for vals in itertools.product((True, False), repeat=len(others)):
                    asg = dict(zip(others, vals))
                    for r_, c_ in ((True, True), (True, False), (False, False)):
                        asg[isref[0]], asg[isconst[0]] = r_, c_
                        if f(asg):
                            good = False       # a reference or a non-constant parameter would be added
                ok = good
    chk.ob(rid, "seed|parameters", ok and len(calls(vi["body"], "insert")) == 1,
           "CompileTimeComputableValues::visitInstance adds template parameters that are references or not constant",
           "%s:%s" % (vi["file"], vi["line"]))
    # add_symbol is only called for quantifier binders (checkExpression FORALL/EXISTS/SUM) and iteration symbols
    sites = []
    for fn in F.functions.values():
        for c in calls(fn.get("body"), "add_symbol"):
            if (c.get("cls") or "") == cls:
                sites.append((fn["q"], short(c)))
    bad = [s for s in sites if not ("get_symbol" in s[1] or "symbol" in s[1])]
    # inside checkExpression the call sits in a clause whose labels are all binder kinds (however many clauses share it)
    from ..tables import CheckExprTable
    T = CheckExprTable(F)
    bk = set(binder_kinds(F))
    cur = []
    for labels, st in T.items:
        if labels:
            cur = labels
        for c in calls(st, "add_symbol"):
            if (c.get("cls") or "") == cls and not set(cur) <= bk:
                bad.append(("checkExpression clause %s" % cur, short(c)))
    chk.ob(rid, "seed|binders", len(sites) >= 1 and not bad,
           "CompileTimeComputableValues::add_symbol call sites outside the binder clauses: %s" % (bad or sites), "src/typechecker.cpp")


# ---------------------------------------------------------------------------------------- C12
def run_c12(chk, F, G_):
    rid = "R-LVALUE"
    chk.rule(rid, "isModifiableLValue returns true only through kinds whose own check demands a modifiable l-value "
                  "and bottoms out in type.is_mutable(); is_mutable / is_constant treat CONSTANT as sticky; binders "
                  "are given a CONSTANT type on every path to add_symbol; reference parameters are gated on "
                  "isModifiableLValue / isUniqueReference")
    fn = _fn(F, "isModifiableLValue")
    try:
        cases = switch_cases(fn)
    except AnalysisBroken:
        cases = None        # restructured (e.g. a wrapper): the semantic rule R-LVSHAPE decides it
    if cases is not None:
        _c12_syntactic(chk, F, fn, cases, rid)
    _c12_rest(chk, F, rid)


def _c12_syntactic(chk, F, fn, cases, rid):
    leaf_ok = False
    for labels, stmts in cases:
        body = {"k": "block", "s": stmts}
        rets = [n for n in walk(body) if n.get("k") == "return"]
        for r in rets:
            e = r.get("e") or {}
            if e.get("k") == "bool" and e.get("v") is True:
                # an unconditional `return true` is acceptable only for kinds that were already l-value checked
                ok = all(lb in WRITE_KINDS_CACHE or lb in ("default",) and False for lb in labels)
                chk.ob(rid, "isModifiableLValue|%s" % ",".join(labels), ok,
                       "isModifiableLValue returns true unconditionally for kinds %s, which are not write kinds whose "
                       "own type check already required a modifiable l-value" % labels,
                       "%s:%s" % (fn["file"], r.get("l")))
        if "IDENTIFIER" in labels:
            leaf_ok = any(c.get("name") == "is_mutable" for c in calls(body))
    chk.ob(rid, "isModifiableLValue|IDENTIFIER", leaf_ok,
           "isModifiableLValue(IDENTIFIER) does not bottom out in type.is_mutable()", "%s:%s" % (fn["file"], fn["line"]))
    dflt = [stmts for labels, stmts in cases if "default" in labels]
    ok = bool(dflt) and all(any(n.get("k") == "return" and (n.get("e") or {}).get("v") is False
                                for n in walk({"k": "block", "s": st})) for st in dflt)
    chk.ob(rid, "isModifiableLValue|default", ok, "isModifiableLValue's default is not `return false`",
           "%s:%s" % (fn["file"], fn["line"]))


def _c12_rest(chk, F, rid):
    # is_mutable / is_constant: CONSTANT sticky
    for mname, want in (("is_mutable", False), ("is_constant", True)):
        m = F.fn("UTAP::type_t::" + mname)
        val = None
        for labels, stmts in switch_cases(m):
            if "CONSTANT" in labels:
                for n in walk({"k": "block", "s": stmts}):
                    if n.get("k") == "return" and (n.get("e") or {}).get("k") == "bool":
                        val = n["e"]["v"]
                        break
        chk.ob(rid, "type_t::%s|CONSTANT" % mname, val is want,
               "type_t::%s does not return %s for a CONSTANT-prefixed type" % (mname, want),
               "%s:%s" % (m["file"], m["line"]))
    # aggregates: a record is mutable only if *every* field is (a write to the record, or passing it to a
    # non-const reference, reaches all fields); dually it is constant only if every field is
    for mname in ("is_mutable", "is_constant"):
        m = F.fn("UTAP::type_t::" + mname)
        verdict, detail = None, ""
        for labels, stmts in switch_cases(m):
            if "RECORD" not in labels:
                continue
            body = {"k": "block", "s": stmts}
            names = [c.get("name") for c in calls(body)]
            rec = mname in names
            if "all_of" in names and rec and "any_of" not in names and "none_of" not in names:
                verdict = True
            elif "any_of" in names or "none_of" in names:
                verdict, detail = False, "uses %s over the fields" % ("any_of" if "any_of" in names else "none_of")
            else:
                # loop form: `for (f : fields) if (!f.is_x()) return false; return true;`
                loops = [n for n in walk(body) if n.get("k") in ("for", "rangefor", "while")]
                early_false = any((r.get("e") or {}).get("v") is False for lp in loops for r in walk(lp)
                                  if r.get("k") == "return")
                early_true = any((r.get("e") or {}).get("v") is True for lp in loops for r in walk(lp)
                                 if r.get("k") == "return")
                if loops and rec and early_false and not early_true:
                    verdict = True
                elif loops and rec and early_true:
                    verdict, detail = False, "returns true as soon as one field qualifies"
        if verdict is None:
            raise AnalysisBroken("type_t::%s: the RECORD case is not in a recognised form" % mname)
        chk.ob(rid, "type_t::%s|RECORD|all-fields" % mname, verdict,
               "type_t::%s(RECORD) %s: a record with one %s field counts as %s, so a write that selects into its "
               "constant part passes isModifiableLValue (which tests the root object only)" %
               (mname, detail, "mutable" if mname == "is_mutable" else "constant",
                "mutable" if mname == "is_mutable" else "constant") if not verdict else
               "type_t::%s(RECORD) requires every field" % mname, "%s:%s" % (m["file"], m["line"]))
    # binders forced const
    # the callbacks that add a binder: the three fixed ones plus every expr_*_begin of ExpressionBuilder that adds a
    # symbol itself (the quantifiers over dynamic templates; found missing here by a defect-hunt sub-agent, E12-1)
    binder_cbs = [("UTAP::ExpressionBuilder::expr_forall_begin", "quantifier binder"),
                  ("UTAP::StatementBuilder::iteration_begin", "iteration variable"),
                  ("UTAP::DocumentBuilder::addSelectSymbolToFrame", "select binder")]
    for f_ in sorted(F.functions.values(), key=lambda z: z.get("line") or 0):
        # (whatever its name: the four callbacks may share one helper that opens the scope)
        if f_.get("cls") == "UTAP::ExpressionBuilder" and f_.get("body") is not None and \
                f_["q"] not in [x[0] for x in binder_cbs] and any(c.get("name") == "add_symbol" for c in calls(f_["body"])):
            binder_cbs.append((f_["q"], "binder of a quantifier over a dynamic template"))
    if len(binder_cbs) < 4:
        raise AnalysisBroken("binder callbacks: only %d found" % len(binder_cbs))
    for q, what in binder_cbs:
        b = F.fn(q)

        def is_const_test(c):
            """X for a condition `X.is(CONSTANT)`, ("!", X) for its negation"""
            c = G_strip(c)
            neg = False
            while isinstance(c, dict) and c.get("k") == "un" and c.get("op") == "!":
                c, neg = G_strip(c["e"]), not neg
            if isinstance(c, dict) and c.get("k") == "call" and c.get("name") == "is" and c.get("args") and \
                    G_strip(c["args"][0]).get("name") == "CONSTANT" and c.get("recv") is not None:
                return ("!" if neg else "", short(G_strip(c["recv"])))
            return None

        def const_forced(fn_, e, depth=0):
            """the value of e is a CONSTANT-prefixed type on every path"""
            e = G_strip(e)
            if not isinstance(e, dict) or depth > 5:
                return False
            if e.get("k") == "construct" and len(e.get("args", [])) == 1:
                return const_forced(fn_, e["args"][0], depth + 1)
            if e.get("k") == "call" and e.get("name") == "create_prefix" and e.get("args") and \
                    G_strip(e["args"][0]).get("name") == "CONSTANT":
                return True
            if e.get("k") == "cond":
                t = is_const_test(e["c"])
                if t is not None:
                    def bare(x):
                        x = G_strip(x)
                        while x.get("k") == "construct" and len(x.get("args", [])) == 1:
                            x = G_strip(x["args"][0])
                        return short(x)
                    same_a, same_b = bare(e["a"]) == t[1], bare(e["b"]) == t[1]
                    if t[0] == "":      # X.is(CONSTANT) ? X : forced
                        return (same_a or const_forced(fn_, e["a"], depth + 1)) and const_forced(fn_, e["b"], depth + 1)
                    return const_forced(fn_, e["a"], depth + 1) and (same_b or const_forced(fn_, e["b"], depth + 1))
                return const_forced(fn_, e["a"], depth + 1) and const_forced(fn_, e["b"], depth + 1)
            if e.get("k") == "call" and e.get("fn") and e.get("name") != "create_prefix":
                # a helper that hands out the type: every value it returns is forced
                cls_ = (fn_.get("cls") or "")
                cands = list(F.fns(e["fn"]))
                if not cands and cls_:
                    m_ = F.resolve_method(cls_, e.get("name"))
                    cands = [m_] if m_ else []
                for g in cands:
                    if g.get("body") is None:
                        continue
                    rets = [r for r in walk(g["body"]) if r.get("k") == "return" and r.get("e") is not None]
                    if rets and all(const_forced(g, r["e"], depth + 1) for r in rets):
                        return True
                return False
            if e.get("k") == "ref" and e.get("dk") == "local":
                name = e.get("name")
                for d in walk(fn_["body"]):
                    if d.get("k") == "decl":
                        for v in d.get("vars", []):
                            if v.get("name") == name and v.get("init") is not None and const_forced(fn_, v["init"], depth + 1):
                                return True
                    # `if (!t.is(CONSTANT)) t = t.create_prefix(CONSTANT);`
                    if d.get("k") == "if" and d.get("else") is None:
                        t = is_const_test(d["c"])
                        if t is not None and t[0] == "!" and t[1] == name:
                            for x in walk(d["then"]):
                                lhs = rhs = None
                                if x.get("k") == "bin" and x.get("op") == "=":
                                    lhs, rhs = x["lhs"], x["rhs"]
                                elif x.get("k") == "call" and x.get("ck") == "op" and x.get("op") == "=" and x.get("recv") is not None and x.get("args"):
                                    lhs, rhs = x["recv"], x["args"][0]
                                if lhs is not None and short(G_strip(lhs)) == name and const_forced(fn_, rhs, depth + 1):
                                    return True
                return False
            return False
        # the symbol is added with a type that is const on every path
        adds = [c for c in calls(b["body"]) if c.get("name") in ("add_symbol", "addVariable")]
        forced = False
        for c in adds:
            targs = [a for a in c.get("args", []) if "type_t" in (a.get("t") or "") or
                     (G_strip(a).get("k") == "ref" and "type_t" in (G_strip(a).get("t") or ""))]
            if targs and const_forced(b, targs[0]):
                forced = True
        chk.ob(rid, "binder-const|%s" % q.split("::")[-1], forced and bool(adds),
               "%s does not force the type of the %s to CONSTANT before adding the symbol" % (q, what),
               "%s:%s" % (b["file"], b["line"]))
    # isParameterCompatible: non-const reference needs a modifiable l-value
    pc = _fn(F, "isParameterCompatible")
    al = G.collect_aliases(pc)
    gs = G.find_gates(pc, al)
    ok = False
    for g in gs:
        lvk = [a for a in g.atoms if a[0] == LVALUE]
        refk = [a for a in g.atoms if a[0] == "is"]
        ck = [a for a in g.atoms if a[0] == "is_constant"]
        if lvk and refk and ck:
            rets = [n for n in walk(g.ifnode["then"]) if n.get("k") == "return"]
            if rets and (rets[0].get("e") or {}).get("v") is False and \
                    g.implied_by({lvk[0]: False, refk[0]: True, ck[0]: False}):
                ok = True
    chk.ob(rid, "isParameterCompatible|reference", ok,
           "isParameterCompatible accepts a non-modifiable argument for a non-const reference parameter",
           "%s:%s" % (pc["file"], pc["line"]))


WRITE_KINDS_CACHE = set()


# ---------------------------------------------------------------------------------------- R-LVSHAPE
LV_COMPOSITES = {"DOT": 1, "ARRAY": 2, "INLINE_IF": 3, "COMMA": 2}


def lvalue_shape(F, write_kinds_):
    """Which children decide isModifiableLValue(K(children)), found semantically: the predicate is
    evaluated (tables.Evaluator, structural recursion) on K applied to IDENTIFIER leaves whose
    mutability is controlled.  Returns {K: set(child indices whose constness forces `false`)},
    plus {K: can be true at all}."""
    from ..tables import Evaluator, ExprV, TypeV, NeedAtom, enumerate_outcomes
    fn = F.fn("UTAP::TypeChecker::isModifiableLValue")

    def leaf(name, mutable):
        e = ExprV(name, "INT", "IDENTIFIER")
        e.type = TypeV("INT", (name, "mutable" if mutable else "const"))
        return e

    def run_with(kind, muts):
        def run(a):
            ev = Evaluator(F, a)
            ev.structural = True
            children = {i: leaf("c%d" % i, m) for i, m in enumerate(muts)}
            top = ExprV("top", "INT", kind, children)
            a2 = dict(a)
            v = ev.run_fn(fn, {fn["params"][0]["name"]: top})
            if hasattr(v, "key"):
                v = ev.atom(v.key)
            return bool(v)
        # is_mutable atoms are decided by the leaf's tag
        def run_tagged(a):
            try:
                return run(a)
            except NeedAtom as na:
                k = na.key
                flat = repr(k)
                if "is_mutable" in flat:
                    val = "'mutable'" in flat and "'const'" not in flat
                    if "'const'" in flat:
                        val = False
                    b = dict(a)
                    b[k] = val
                    return run_tagged(b)
                if "is_constant" in flat:
                    b = dict(a)
                    b[k] = "'const'" in flat
                    return run_tagged(b)
                raise
        return {oc for _, oc in enumerate_outcomes(run_tagged)}

    shape, possible = {}, {}
    for K, n in LV_COMPOSITES.items():
        allmut = run_with(K, [True] * n)
        possible[K] = True in allmut
        dec = set()
        for i in range(n):
            muts = [True] * n
            muts[i] = False
            if True not in run_with(K, muts):
                dec.add(i)
        shape[K] = dec
    extra = {}
    for tag, mut in (("mutable", True), ("const", False)):
        def run_leaf(a, mut=mut, tag=tag):
            ev = Evaluator(F, a)
            ev.structural = True
            top = ExprV("top", "INT", "IDENTIFIER")
            top.type = TypeV("INT", ("top", tag))
            try:
                v = ev.run_fn(fn, {fn["params"][0]["name"]: top})
                if hasattr(v, "key"):
                    v = ev.atom(v.key)
                return bool(v)
            except NeedAtom as na:
                flat = repr(na.key)
                if "is_mutable" in flat:
                    b = dict(a)
                    b[na.key] = mut
                    return run_leaf(b)
                raise
        extra["IDENTIFIER|" + tag] = {oc for _, oc in enumerate_outcomes(run_leaf)}
    for K, n in (("PLUS", 2), ("FUN_CALL", 2), ("CONSTANT", 0)):
        extra[K] = run_with(K, [True] * n)
    shape["__extra__"] = extra
    return shape, possible


def _iterative_symbols_shape(F, fn):
    """get_symbols written as a walk: `node` starts at this; each round of a loop looks at node->get_kind(), collects from
    some operands and steps to one operand (`node = &node->get(i)`), the index possibly taken from a table function of the
    kind.  One round is interpreted per kind: {K: operands collected from or stepped into}."""
    from ..inline import strip
    from .exprlaws import size_table
    loops = [n for n in walk(fn["body"]) if n.get("k") in ("while", "for")]
    if not loops:
        return None
    body = loops[0].get("body") or {}
    stmts = body.get("s", []) if body.get("k") == "block" else [body]
    tab, _ = size_table(F)

    def table_value(call, K):
        for t in F.fns(call.get("fn") or ""):
            if t.get("body") is None or t.get("cls"):
                continue
            for labels, ss in switch_cases(t, selector=None) if False else _param_switch(t):
                if K in labels or ("default" in labels and not any(K in l2 for l2, _ in _param_switch(t) if "default" not in l2)):
                    for x in walk({"k": "block", "s": ss}):
                        if x.get("k") == "return" and x.get("e") is not None:
                            e = strip(x["e"])
                            if e.get("k") == "int":
                                return e["v"]
                            if e.get("k") == "un" and e.get("op") == "-" and strip(e["e"]).get("k") == "int":
                                return -strip(e["e"])["v"]
        return None

    def ev(e, K, env):
        e = strip(e)
        if not isinstance(e, dict):
            return None
        k = e.get("k")
        if k == "int":
            return e["v"]
        if k == "bool":
            return bool(e["v"])
        if k == "ref" and e.get("dk") == "enumerator":
            return ("enum", e["name"])
        if k == "ref" and e.get("id") in env:
            return env[e["id"]]
        if k == "call" and e.get("name") == "get_kind":
            return ("enum", K)
        if k == "call" and e.get("ck") in ("free", "static"):
            return table_value(e, K)
        if k == "un" and e.get("op") == "!":
            v = ev(e["e"], K, env)
            return None if v is None else not v
        if k == "un" and e.get("op") == "-":
            v = ev(e["e"], K, env)
            return -v if isinstance(v, int) else None
        if k == "bin" and e.get("op") in ("==", "!=", "<", ">", "<=", ">=", "&&", "||"):
            a, b = ev(e["lhs"], K, env), ev(e["rhs"], K, env)
            if e["op"] == "&&":
                return False if (a is False or b is False) else (True if a is True and b is True else None)
            if e["op"] == "||":
                return True if (a is True or b is True) else (False if a is False and b is False else None)
            if a is None or b is None:
                return None
            return {"==": a == b, "!=": a != b, "<": a < b, ">": a > b, "<=": a <= b, ">=": a >= b}[e["op"]] \
                if not (isinstance(a, tuple) and e["op"] not in ("==", "!=")) else None
        if k == "cond":
            c = ev(e["c"], K, env)
            return ev(e["a"] if c else e["b"], K, env) if c is not None else None
        return None
    out, ident = {}, False
    for K in tab:
        env, idx, done = {}, set(), False

        def run(ss):
            nonlocal done, ident
            for st in ss:
                if done or not isinstance(st, dict):
                    return
                k = st.get("k")
                if k == "decl":
                    for v in st.get("vars", []):
                        env[v.get("id")] = ev(v.get("init"), K, env) if v.get("init") is not None else None
                elif k == "if":
                    c = ev(st["c"], K, env)
                    if c is None:
                        raise AnalysisBroken("get_symbols (iterative form): condition `%s` not decided for %s" % (short(st["c"])[:50], K))
                    br = st["then"] if c else st.get("else")
                    if br is not None:
                        run(br.get("s", []) if br.get("k") == "block" else [br])
                elif k in ("return", "break"):
                    done = True
                else:
                    for c in calls(st):
                        if c.get("name") == "insert" and K == "IDENTIFIER":
                            ident = True
                        if c.get("name") in ("get", "operator[]") and c.get("args"):
                            i = ev(c["args"][-1], K, env)
                            if isinstance(i, int) and not isinstance(i, bool) and i >= 0:
                                idx.add(i)
                    if k == "bin" and st.get("op") == "=":      # node = &node->get(i): the walk goes on in that operand
                        done = True
        run(stmts)
        out[K] = idx
    return out, ident


def _param_switch(t):
    """[(labels, stmts)] of the switch over the kind parameter of a table function"""
    sws = [n for n in walk(t["body"]) if n.get("k") == "switch"]
    if not sws:
        return []
    items = []
    for s_ in sws[0]["body"].get("s", []):
        labels = []
        while isinstance(s_, dict) and s_.get("k") in ("case", "default"):
            labels.append(s_["v"].get("name") if s_["k"] == "case" and isinstance(s_.get("v"), dict) else "default")
            s_ = s_.get("s")
        items.append((labels, s_))
    groups = []
    for i, (labels, s_) in enumerate(items):
        if not labels:
            continue
        ss = []
        for l2, s2 in items[i:]:
            if s2 is not None:
                ss.append(s2)
            if isinstance(s2, dict) and s2.get("k") in ("break", "return"):
                break
        # merge label runs: `case A: case B: return 0;`
        groups.append((labels, ss))
    # labels without statements of their own share the next group's statements
    merged, pend = [], []
    for labels, ss in groups:
        merged.append((pend + labels, ss))
        pend = []
    return merged


def get_symbols_shape(F):
    """{K: set(child indices whose symbols are collected)} and whether IDENTIFIER inserts its own symbol."""
    fn = F.fn("UTAP::expression_t::get_symbols")
    out, ident = {}, False
    if not any(n.get("k") == "switch" for n in walk(fn["body"])):
        alt = _iterative_symbols_shape(F, fn)
        if alt is not None:
            return alt[0], alt[1], fn
    for labels, stmts in switch_cases(fn):
        body = {"k": "block", "s": stmts}
        idx = set()
        for c in calls(body, "get_symbols"):
            r = c.get("recv") or {}
            if r.get("k") == "call" and r.get("name") == "get" and r.get("args") and r["args"][0].get("k") == "int":
                idx.add(r["args"][0]["v"])
        for lb in labels:
            out[lb] = idx
        if "IDENTIFIER" in labels:
            ident = any(c.get("name") == "insert" for c in calls(body))
    return out, ident, fn


SPEC_LV = {"DOT": {0}, "ARRAY": {0}, "INLINE_IF": {1, 2}, "COMMA": {1}}


def run_lvshape(chk, F, G_, parts):
    rid = "R-LVSHAPE"
    chk.rule(rid, "the l-value structure is the same everywhere: isModifiableLValue(K(..)) is false as soon as a "
                  "child that carries the written object is constant (DOT/ARRAY: child 0, INLINE_IF: both branches, "
                  "COMMA: last) - decided by evaluating the predicate on K applied to const/mutable identifier "
                  "leaves; and expression_t::get_symbols collects the symbols of exactly those children, so that a "
                  "write through any of them reaches the may-write set")
    akinds, incdec = write_kinds(F, G_)
    if "modifiable" in parts:
        shape, possible = lvalue_shape(F, akinds | incdec)
        for K, want in SPEC_LV.items():
            for i in sorted(want):
                chk.ob(rid, "isModifiableLValue|%s|child%d" % (K, i), i in shape[K],
                       "isModifiableLValue accepts %s(...) although child %d is a constant: a write through that "
                       "operand modifies a constant" % (K, i), "src/typechecker.cpp",
                       sample="%s with const child %d is not modifiable" % (K, i))
            chk.ob(rid, "isModifiableLValue|%s|mutable-twin" % K, possible[K],
                   "isModifiableLValue rejects %s(...) even when every child is mutable" % K, "src/typechecker.cpp")
        ex = shape["__extra__"]
        chk.ob(rid, "isModifiableLValue|IDENTIFIER|const", ex["IDENTIFIER|const"] == {False},
               "isModifiableLValue accepts an identifier whose type is not mutable", "src/typechecker.cpp")
        chk.ob(rid, "isModifiableLValue|IDENTIFIER|mutable", ex["IDENTIFIER|mutable"] == {True},
               "isModifiableLValue rejects a mutable identifier", "src/typechecker.cpp")
        for K in ("PLUS", "FUN_CALL", "CONSTANT"):
            chk.ob(rid, "isModifiableLValue|%s" % K, ex[K] == {False},
                   "isModifiableLValue accepts a %s expression as a modifiable l-value" % K, "src/typechecker.cpp")
    if "symbols" in parts:
        gshape, ident, gfn = get_symbols_shape(F)
        where = "%s:%s" % (gfn["file"], gfn["line"])
        chk.ob(rid, "get_symbols|IDENTIFIER", ident, "get_symbols does not record the symbol of an IDENTIFIER", where)
        for K, want in SPEC_LV.items():
            have = gshape.get(K, set())
            for i in sorted(want):
                chk.ob(rid, "get_symbols|%s|child%d" % (K, i), i in have,
                       "expression_t::get_symbols does not collect the symbols of child %d of %s: a write whose "
                       "target is %s(...) does not record that operand, so a function writing a non-local through it "
                       "has an empty may-write set" % (i, K, K), where,
                       sample="get_symbols(%s) collects child %d" % (K, i))
        for k in sorted(akinds | {"PRE_INCREMENT", "PRE_DECREMENT"}):
            chk.ob(rid, "get_symbols|%s|child0" % k, 0 in gshape.get(k, set()),
                   "expression_t::get_symbols does not follow the target of %s (itself an l-value)" % k, where)


# ---------------------------------------------------------------------------------------- R-RESTRICTED (C13)
def run_restricted(chk, F):
    rid = "R-RESTRICTED"
    chk.rule(rid, "free process parameters in array sizes: collectDependencies is a transitive closure (the reads of "
                  "every newly added symbol's initialiser are fed back into the work list the loop drains); array "
                  "sizes and scalar-set sizes of template-local types are added to the template's restricted set; "
                  "instantiation propagates restriction through arguments; visitProcess rejects a restricted unbound "
                  "parameter")
    impls = [f for f in F.fns("UTAP::StatementBuilder::collectDependencies") + F.fns("collectDependencies")
             if any("expression_t" in p["ct"] for p in f["params"])]
    if len(impls) < 2:
        raise AnalysisBroken("collectDependencies(set&, expression_t): expected 2 implementations, found %d" % len(impls))
    for fn in impls:
        tag = "%s@%s" % (fn["q"].split("::")[-1], fn["file"].split("/")[-1])
        dep = fn["params"][0]["name"]
        ok, why = False, "no draining loop found"
        for n in walk(fn["body"]):
            if n.get("k") != "while":
                continue
            cond = short(n["c"])
            # work list W: the set whose emptiness controls the loop
            wl = [c for c in calls(n["c"], "empty")]
            if not wl:
                continue
            W = (wl[0].get("recv") or {}).get("name")
            feeds = [c for c in calls(n["body"], "collect_possible_reads")
                     if c.get("args") and c["args"][0].get("k") == "ref" and c["args"][0].get("name") == W]
            takes = any(c.get("name") in ("begin", "erase", "extract", "pop_back", "back") and
                        (c.get("recv") or {}).get("name") == W for c in calls(n["body"]))
            adds = any(c.get("name") == "insert" and (c.get("recv") or {}).get("name") == dep for c in calls(n["body"]))
            seeded = any(c.get("name") == "collect_possible_reads" and c.get("args") and
                         c["args"][0].get("name") == W for c in calls(fn["body"]) if not any(c is x for x in walk(n)))
            if feeds and takes and adds and seeded and W != dep:
                ok = True
            else:
                why = "loop over `%s`: feeds-back=%s takes-next=%s adds-to-result=%s seeded=%s" % (
                    W, bool(feeds), takes, adds, seeded)
        if not ok:
            # the other closure idiom: direct recursion on the initialiser of each new symbol
            for c in calls(fn["body"], fn["name"]):
                if len(c.get("args", [])) == 2 and "init" in short(c["args"][1]) and \
                        short(c["args"][0]) == dep:
                    ok = True
        chk.ob(rid, "closure|%s" % tag, ok,
               "%s is not a transitive closure over initialisers (%s): a parameter reaching an array size through a "
               "chain of two or more initialisers is not restricted" % (fn["q"], why),
               "%s:%s" % (fn["file"], fn["line"]))
    tfn = [f for f in F.fns("UTAP::StatementBuilder::collectDependencies") if any("type_t" in p["ct"] for p in f["params"])]
    if tfn:
        t = tfn[0]
        rng = any(n.get("k") == "if" and "RANGE" in short(n["c"]) and
                  len(calls(n["then"], "collectDependencies")) >= 3 for n in walk(t["body"]))
        kids = any(n.get("k") == "for" and calls(n["body"], "collectDependencies") for n in walk(t["body"]))
        chk.ob(rid, "closure|types", rng and kids,
               "collectDependencies(type) does not cover both range bounds, the ranged type and all sub-types",
               "%s:%s" % (t["file"], t["line"]))
    for q, arg in (("UTAP::StatementBuilder::type_array_of_type", "size"), ("UTAP::ExpressionBuilder::type_scalar", "upper")):
        fn = F.fn(q)
        ok = False
        for n in walk(fn["body"]):
            if n.get("k") == "if" and short(n["c"]).strip("()") in ("currentTemplate", "this->currentTemplate"):
                for c in calls(n["then"], "collectDependencies"):
                    a = [short(x) for x in c.get("args", [])]
                    if len(a) == 2 and "restricted" in a[0] and arg in a[1]:
                        ok = True
        chk.ob(rid, "restrict|%s" % q.split("::")[-1], ok,
               "%s does not add the symbols its size depends on to currentTemplate->restricted" % q,
               "%s:%s" % (fn["file"], fn["line"]))
    ie = expanded_fn(F.fn("UTAP::DocumentBuilder::instantiation_end"), F, stop=("collectDependencies",))
    prop = False
    for n in walk(ie["body"]):
        if n.get("k") == "for":
            for i in walk(n["body"]):
                if i.get("k") == "if" and "restricted" in short(i["c"]) and "find" in short(i["c"]) and \
                        any("restricted" in short(c["args"][0]) for c in calls(i["then"], "collectDependencies") if c.get("args")):
                    prop = True
    chk.ob(rid, "propagate|instantiation_end", prop,
           "instantiation_end does not propagate restriction from a restricted parameter to the symbols of its argument",
           "%s:%s" % (ie["file"], ie["line"]))
    vp = _fn(F, "visitProcess")
    al = G.collect_aliases(vp)
    gate = False
    for g in G.find_gates(vp, al):
        if g.reports and (any(a[0] in ("operator!=", "!=") or "find" in str(a) for a in g.atoms) or
                          any(c.get("name") in ("count", "contains") for c in calls(g.ifnode["c"]))) and \
                "restricted" in short(g.ifnode["c"]):
            gate = True
    chk.ob(rid, "gate|visitProcess", gate,
           "visitProcess does not reject an unbound parameter that is in the process's restricted set",
           "%s:%s" % (vp["file"], vp["line"]))


# ---------------------------------------------------------------------------------------------- pass ordering
def reach(F, CG, roots, maxdepth=6):
    """Functions reachable from roots through resolved calls (class-hierarchy analysis for virtual calls)."""
    seen, todo = {}, [(r, 0, None) for r in roots]
    while todo:
        fn, d, via = todo.pop()
        key = (fn["q"], fn.get("sig"))
        if key in seen:
            continue
        seen[key] = (fn, via)
        if d >= maxdepth or fn.get("body") is None:
            continue
        for c in calls(fn["body"]):
            for t in CG.targets(c):
                todo.append((t, d + 1, fn["q"]))
    return seen


def run_prepass(chk, F, CG, fields=("depends", "changes"), rid="R-PREPASS"):
    """function_t::depends / ::changes are computed by TypeChecker::visitFunction while the document is visited.
    A visitor that the TypeChecker *constructor* runs over the document sees them empty, so nothing reachable from it
    may consult them (a call would look as if it read and wrote nothing)."""
    chk.rule(rid, "no function reachable from a visitor that the TypeChecker constructor runs over the document reads "
                  "function_t::depends or function_t::changes (they are filled later, by TypeChecker::visitFunction: "
                  "before that, every call looks as if it read and wrote nothing)")
    ctor = None
    for fn in F.fns("UTAP::TypeChecker::TypeChecker"):
        ctor = fn
    if ctor is None:
        raise AnalysisBroken("TypeChecker constructor not found")
    # the writer of the fields must be TypeChecker::visitFunction (otherwise the premise of this rule is gone) - itself or
    # a part split off it.  And nobody else: the summaries are computed in the order in which Document::accept reaches the
    # functions (declaration before use, R-SUMMARYORDER), so a second place that computes them - a pre-pass over some of
    # the functions - sees the summaries of the functions they call still empty (round 8: dynamic templates summarised in
    # visitDocBefore, before the global functions they call)
    vf = F.fn("UTAP::TypeChecker::visitFunction")
    vfx = expanded_fn(vf, F, accept=lambda t: t.get("cls") == "UTAP::TypeChecker" and t.get("name") != "visitFunction", maxdepth=2)
    writes = {n.get("name") for n in walk(vfx["body"]) if n.get("k") == "member" and n.get("of") == "UTAP::function_t"}
    for fld in fields:
        if fld not in writes:
            raise AnalysisBroken("TypeChecker::visitFunction no longer computes function_t::%s" % fld)
    writers = {}
    for f in F.functions.values():
        fl = f.get("file") or ""
        if f.get("body") is None or fl.startswith("/usr") or "/test/" in fl:
            continue
        for x in walk(f["body"]):
            if x.get("k") in ("construct", "decl") and ("CollectChangesVisitor" in short(x) or "CollectDependenciesVisitor" in short(x)) and \
                    any(y.get("k") == "member" and y.get("name") in fields and y.get("of") == "UTAP::function_t" for y in walk(x)):
                writers.setdefault(f["q"], f)
    allowed = {"UTAP::TypeChecker::visitFunction", "UTAP::StatementBuilder::decl_func_end"}
    for q, f in sorted(writers.items()):
        if q in allowed:
            continue
        callers = sorted({g["q"] for g in F.functions.values() if g.get("body") is not None and g is not f and
                          any(c.get("fn") == q for c in calls(g["body"]))})
        chk.ob(rid, "single writer|%s" % q.split("::")[-1], set(callers) <= allowed,
               "%s computes function summaries (function_t::%s) and is called from %s: summaries computed outside the traversal "
               "of Document::accept do not follow declaration order - the functions called by the summarised ones may not have "
               "been summarised yet, and their writes are not counted" %
               (q, "/".join(fields), ", ".join(c.split("::")[-1] for c in callers if c not in allowed) or "-"),
               "%s:%s" % (f["file"], f["line"]))
    chk.ob(rid, "single writer", True, "", "%s:%s" % (vf["file"], vf["line"]),
           sample="function summaries are written by %s only" % ", ".join(sorted(q.split("::")[-1] for q in writers)))
    classes = []
    for c in calls(ctor["body"]):
        if c.get("name") == "accept" and c.get("args"):
            t = (c["args"][0].get("t") or "").replace("&", "").strip()
            if t in F.records:
                classes.append(t)
    if not classes:
        chk.ob(rid, "constructor-visitors", True, "the TypeChecker constructor runs no visitor over the document")
        return
    for cls in classes:
        roots = [fn for fn in F.functions.values() if fn.get("cls") == cls and fn["name"].startswith("visit")]
        if not roots:
            raise AnalysisBroken("no visit methods found for %s" % cls)
        R = reach(F, CG, roots)
        for fld in fields:
            bad = []
            for (q, _), (fn, via) in R.items():
                for n in walk(fn.get("body")):
                    if n.get("k") == "member" and n.get("name") == fld and n.get("of") == "UTAP::function_t":
                        bad.append("%s (%s:%s)" % (q, (fn.get("file") or "").split("/")[-1], n.get("l")))
            chk.ob(rid, "%s|%s" % (cls.split("::")[-1], fld), not bad,
                   "%s runs from the TypeChecker constructor, before any function_t::%s is computed, yet reaches %s: "
                   "a call in an expression it evaluates contributes nothing" % (cls, fld, ", ".join(sorted(set(bad))[:3]))
                   if bad else "%s (%d functions reachable) never consults function_t::%s" % (cls, len(R), fld),
                   "%s:%s" % (ctor["file"], ctor["line"]))


# ---------------------------------------------------------------------------------------------- own locals only
def run_ownlocals(chk, F, CG, fields=("changes",), rid="R-OWNLOCALS"):
    """visitFunction computes function_t::changes / ::depends from the whole body and then removes what is local to
    the function.  Whatever it removes must be *declared by the function*: an element of fun.variables or of the
    body's frame (parameters).  Removal by any other criterion (a predicate on the symbol, a helper that filters the
    set) can drop state that outlives the call - template parameters, globals."""
    chk.rule(rid, "TypeChecker::visitFunction removes from function_t::changes / ::depends only symbols declared by "
                  "the function itself (elements of fun.variables, elements of the body frame): every erase names "
                  "such an element, and the set is not handed to a filtering helper")
    vf = F.fn("UTAP::TypeChecker::visitFunction")

    def is_field(n, fld):
        return isinstance(n, dict) and n.get("k") == "member" and n.get("name") == fld and \
            n.get("of") == "UTAP::function_t"

    loopvars = {}          # id of range-for variable -> short(range)
    for n in walk(vf["body"]):
        if n.get("k") == "rangefor":
            v = n.get("var") or {}
            loopvars[v.get("id")] = short(n.get("range"))
    for fld in fields:
        n_erase = 0
        for c in calls(vf["body"]):
            recv = c.get("recv")
            if is_field(recv, fld):
                name = c.get("name") or c.get("op")
                if name in ("insert", "emplace", "begin", "end", "find", "count", "size", "empty", "contains"):
                    continue
                n_erase += 1
                a = (c.get("args") or [None])[0]
                ok, why = False, "unrecognised removal `%s`" % short(c)[:80]
                if name == "erase" and a is not None:
                    txt = short(a)
                    if a.get("k") == "member" and a.get("name") == "uid" and (a.get("base") or {}).get("k") == "ref" \
                            and "variables" in loopvars.get(a["base"].get("id"), ""):
                        ok = True
                    elif "get_frame()[" in txt and "body" in txt:
                        ok = True
                    else:
                        why = "erases `%s`, which is not an element of fun.variables or of the body frame" % txt[:80]
                chk.ob(rid, "%s|%s" % (fld, short(c)[:70]), ok,
                       "TypeChecker::visitFunction: %s" % why if not ok else
                       "erases an own declaration: %s" % short(c)[:70], "%s:%s" % (vf["file"], c.get("l")))
            else:
                # the set handed to a function: acceptable for the collecting visitors (they only insert)
                for a in c.get("args", []):
                    if is_field(a, fld) or (a.get("k") == "un" and is_field(a.get("e"), fld)):
                        removes = False
                        for t in CG.targets(c):
                            for x in calls(t.get("body")):
                                if (x.get("name") or "") in ("erase", "clear", "swap", "erase_if", "remove_if", "extract"):
                                    removes = True
                        if removes:
                            n_erase += 1
                            chk.ob(rid, "%s|helper|%s" % (fld, c.get("name")), False,
                                   "TypeChecker::visitFunction hands function_t::%s to %s, which removes elements by "
                                   "its own criterion: symbols that are not declared by the function (template "
                                   "parameters, globals) can be dropped from the may-%s set" %
                                   (fld, c.get("name"), "write" if fld == "changes" else "read"),
                                   "%s:%s" % (vf["file"], c.get("l")))
        for n in walk(vf["body"]):
            if n.get("k") == "construct":
                for a in n.get("args", []):
                    if is_field(a, fld):
                        cls = n.get("cls") or n.get("t") or ""
                        rem = False
                        for q, fns in F.by_q.items():
                            if q.startswith(cls + "::"):
                                for f in fns:
                                    for x in calls(f.get("body")):
                                        if (x.get("name") or "") in ("erase", "clear") and \
                                                (x.get("recv") or {}).get("k") == "member":
                                            rem = True
                        chk.ob(rid, "%s|collector|%s" % (fld, cls.split("::")[-1]), not rem,
                               "%s, which is given function_t::%s, removes elements from it" % (cls, fld)
                               if rem else "%s only adds to function_t::%s" % (cls, fld),
                               "%s:%s" % (vf["file"], n.get("l")))
        if n_erase == 0:
            chk.note("TypeChecker::visitFunction removes nothing from function_t::%s (over-approximation: locals count "
                     "as external)" % fld)


def run_block_locals(chk, F, CG, rid="R-VISITOR"):
    """ExpressionVisitor::visitBlockStatement visits the initialiser of EVERY local variable of the block: the only
    admissible filters are `the symbol has user data` and `the initialiser is not empty`.  A filter on the type of the
    symbol (scalar kinds only, say) hides the initialisers of the other locals from the may-read / may-write
    computation."""
    chk.rule(rid, "for every concrete Statement class and every field of type expression_t / unique_ptr<Statement> / "
                  "container of statements / frame, the visit method CollectChangesVisitor and "
                  "CollectDependenciesVisitor inherit reaches that field")
    fn = F.fn("UTAP::ExpressionVisitor::visitBlockStatement")
    loops = [n for n in walk(fn["body"]) if n.get("k") in ("rangefor", "for") and
             any(c.get("name") == "visitExpression" for c in calls(n))]
    if not loops:
        raise AnalysisBroken("ExpressionVisitor::visitBlockStatement has no loop visiting initialisers")
    TYPE_PRED = ("is", "get_kind", "is_integral", "is_integer", "is_array", "is_record", "is_clock", "is_double",
                 "is_scalar", "is_constant", "is_boolean", "isBoolean", "is_string", "is_channel", "strip", "strip_array")
    preds = []
    seen = set()

    def scan(n, depth, where):
        for c in calls(n):
            nm = c.get("name")
            if nm in TYPE_PRED and (c.get("cls") or "").endswith("type_t"):
                preds.append("%s() in %s" % (nm, where))
            if nm == "visitExpression" or depth >= 2:
                continue
            for t in CG.targets(c):
                if t.get("body") is None or t["q"] in seen or not (t.get("file") or "").endswith(("statement.cpp", "statement.h")):
                    continue
                seen.add(t["q"])
                scan(t["body"], depth + 1, t["q"].split("::")[-1])
    for lp in loops:
        scan(lp, 0, "visitBlockStatement")
    chk.ob(rid, "BlockStatement|every-local-initialiser", not preds,
           "ExpressionVisitor::visitBlockStatement selects the local variables whose initialiser it visits by their type "
           "(%s): initialisers of the other locals (arrays, say) are invisible to the read/write-set computation, so a "
           "function that reads a variable only there counts as reading nothing" % ", ".join(sorted(set(preds))[:4]),
           "%s:%s" % (fn["file"], fn["line"]))


# ---------------------------------------------------------------------------------------------- R-CALLEE
def run_callee(chk, F, collectors, rid="R-CALLEE"):
    """The callee of a FUN_CALL is not always an identifier: expr_dot builds `P.f` (DOT over a process) and `p.f`
    (DYNAMIC_EVAL over a dynamic-process variable), both with the type of the member.  expression_t::get_symbol()
    answers `the process` for the first and `nothing` for the second, so a collector that takes the summary of the called
    function from get(0).get_symbol() sees no function there (found by a defect-hunt sub-agent: `A[] P.f() >= 0` with a
    writing f was accepted, `forall (p : Child)(p.g() >= 0)` crashed)."""
    from ..inline import KindSlicer, strip
    chk.rule(rid, "the FUN_CALL clause of %s resolves the called function with a branch of its own for every member "
                  "shape ExpressionBuilder::expr_dot creates (DOT, DYNAMIC_EVAL): get_symbol() of such a callee is not "
                  "the symbol of the function" % " / ".join(collectors))
    ed = F.resolve_method("UTAP::ExpressionBuilder", "expr_dot")
    if ed is None or ed.get("body") is None:
        raise AnalysisBroken("ExpressionBuilder::expr_dot not found")
    ed = expanded_fn(ed, F, accept=lambda t: bool(t.get("static")) and not t.get("cls"), maxdepth=2)
    shapes = set()
    for c in calls(ed["body"]):
        if not (c.get("fn") or "").startswith("UTAP::expression_t::create_"):
            continue
        if c.get("name") == "create_dot":
            shapes.add("DOT")
        elif (c.get("name") or "").startswith("create_") and c.get("args"):
            a = strip(c["args"][0])
            if isinstance(a, dict) and a.get("k") == "ref" and a.get("dk") == "enumerator":
                shapes.add(a["name"])
    if not {"DOT", "DYNAMIC_EVAL"} <= shapes:
        raise AnalysisBroken("expr_dot: member shapes not found (%s)" % sorted(shapes))
    for name in collectors:
        fn = F.fn("UTAP::expression_t::" + name)
        if is_worklist_form(fn):
            raise AnalysisBroken("%s walks the tree with a work list: R-CALLEE reads the recursive form only" % name)
        sl = KindSlicer(F, fn, subject="this")
        body = sl.slice("FUN_CALL")
        uses_summary = any(n.get("k") == "member" and n.get("name") in ("changes", "depends") for n in walk(body))
        if not uses_summary:
            raise AnalysisBroken("%s: the FUN_CALL clause does not read a function summary" % name)
        tested = set()
        for n in walk(body):
            n = strip(n) if isinstance(n, dict) else n
            if isinstance(n, dict) and n.get("k") == "bin" and n.get("op") in ("==", "!="):
                for x, y in ((n["lhs"], n["rhs"]), (n["rhs"], n["lhs"])):
                    x, y = strip(x), strip(y)
                    if isinstance(x, dict) and x.get("k") == "call" and x.get("name") == "get_kind" and \
                            isinstance(y, dict) and y.get("dk") == "enumerator":
                        tested.add(y["name"])
            if isinstance(n, dict) and n.get("k") == "case" and isinstance(n.get("v"), dict):
                tested.add(n["v"].get("name"))
        # the process operand of a DOT callee is any expression of process type the builder creates: the name of a
        # process or an element of a process set, `P(i)`, which expr_call_end builds as ARRAY over the name.  The
        # resolution must reach the instance through get_symbol() (which descends through ARRAY), not restrict the
        # operand to a plain identifier.
        narrowed = []
        for n in walk(body):
            n = strip(n) if isinstance(n, dict) else n
            if isinstance(n, dict) and n.get("k") == "bin" and n.get("op") in ("==", "!="):
                for x, y in ((n["lhs"], n["rhs"]), (n["rhs"], n["lhs"])):
                    x, y = strip(x), strip(y)
                    if isinstance(x, dict) and x.get("k") == "call" and x.get("name") == "get_kind" and \
                            isinstance(y, dict) and y.get("dk") == "enumerator" and y.get("name") == "IDENTIFIER":
                        r = short(x.get("recv")) if x.get("recv") is not None else ""
                        if r.count("[0]") + r.count("get(0)") >= 2 or "[0]" in r:
                            narrowed.append((r, x.get("l")))
        chk.ob(rid, "%s|process operand" % name, not narrowed,
               "%s resolves the callee `X.f` only when X is a plain identifier (`%s.get_kind()` compared with IDENTIFIER, "
               "line %s): an element of a process set, `P(1).f()`, is ARRAY over the name of the set, so the writes / reads of "
               "f are not counted there" % (fn["q"], narrowed[0][0] if narrowed else "", narrowed[0][1] if narrowed else ""),
               "%s:%s" % (fn["file"], fn["line"]), sample="%s: the process operand of a DOT callee is not restricted by kind" % name)
        for sh in sorted(shapes):
            chk.ob(rid, "%s|%s" % (name, sh), sh in tested,
                   "%s takes the function summary of a call from the symbol of the callee without a branch for the "
                   "callee shape %s that expr_dot builds for a member function of a process: get_symbol() of that shape "
                   "is %s, so the writes / reads of the called function are not counted" %
                   (fn["q"], sh, "the symbol of the process" if sh == "DOT" else "empty"),
                   "%s:%s" % (fn["file"], fn["line"]),
                   sample="%s: callee shape %s resolved separately" % (name, sh))


# ---------------------------------------------------------------------------------------------- R-DUPNAME
# frame_t::add_symbol lets a second symbol of the same name take over the name (mapping[name] is overwritten).  A
# namesake added later therefore hides the earlier declaration in the same frame - `void f(const int k, int k) { k = 1; }`
# wrote to "the" parameter k although the first k is constant (found by a defect-hunt sub-agent, E12-3).
DUPNAME_LISTED = {
    "UTAP::DocumentBuilder::instance_name": "an LSC instance line: a second line of the same name in a chart gets a symbol of "
                                            "its own (INSTANCE_LINE symbols are no l-values, no constness is at stake); the "
                                            "tests in this function are about the template the line names, not about duplicates",
    "UTAP::DocumentBuilder::addSelectSymbolToFrame": "a second select binder of the same name on one edge is only warned "
                                                     "about ($shadows_a_variable); both binders are forced constant "
                                                     "(binder-const), so no write gets through",
    "UTAP::Document::add_process": "the process is added under the name of the instance it is made from: the second symbol "
                                   "of that name is the point (a PROCESS symbol in front of the INSTANCE symbol)",
}
DUP_TESTS = ("contains", "get_index_of", "resolve", "find_index_of")


def run_dupname(chk, F, rid="R-DUPNAME"):
    chk.rule(rid, "every frame_t::add_symbol of a name that comes from the model is preceded by a test whether the frame "
                  "already holds that name (in the function itself, or in every builder callback that calls it), or adds "
                  "to a frame created in the same function")
    from ..inline import strip as _strip
    sites = []
    for fn in sorted(F.functions.values(), key=lambda f: (f.get("file") or "", f.get("line") or 0)):
        fl = fn.get("file") or ""
        if fn.get("body") is None or not fl.startswith("/repo/src") and "/src/" not in fl:
            continue
        if "/test/" in fl or fl.startswith("/usr"):
            continue
        for c in calls(fn["body"]):
            if c.get("name") == "add_symbol" and c.get("cls") == "UTAP::frame_t":
                sites.append((fn, c))
    if len(sites) < 15:
        raise AnalysisBroken("R-DUPNAME: only %d add_symbol sites found" % len(sites))

    def dup_locals(fn, via=None):
        """locals holding the answer of a duplicate test: `bool duplicate = frame.contains(name);`, or of a callee that
        hands its own answer back: `const bool fresh = declare(frame, name, ..);`"""
        out = set()
        for d in walk(fn["body"]):
            if d.get("k") == "decl":
                for v in d.get("vars", []):
                    if v.get("init") is not None and any(c.get("name") in DUP_TESTS or (via is not None and c.get("name") == via)
                                                         for c in calls(v["init"])):
                        out.add(v.get("id"))
        return out

    def own_test(fn, via=None):
        """a duplicate test whose positive outcome reports an error or throws; `via`: a callee that hands the answer of
        its own test back as its result"""
        dl = dup_locals(fn, via)
        for n in walk(fn["body"]):
            if n.get("k") != "if":
                continue
            direct = any(c.get("name") in DUP_TESTS for c in calls(n["c"])) or \
                any(x.get("k") == "ref" and x.get("id") in dl for x in walk(n["c"])) or \
                (via is not None and any(c.get("name") == via for c in calls(n["c"])))
            if direct:
                for br in (n["then"], n.get("else")):
                    if br is not None and (G.has_error_report(br) or any(x.get("k") == "throw" for x in walk(br))):
                        return True
        return False

    def returns_answer(fn):
        dl = dup_locals(fn)
        rets = [r for r in walk(fn["body"]) if r.get("k") == "return" and r.get("e") is not None]
        return bool(rets) and "bool" in (fn.get("rt") or fn.get("t") or "bool") and \
            all(any(x.get("k") == "ref" and x.get("id") in dl for x in walk(r["e"])) for r in rets)

    def fresh_frame(fn, c):
        return any(x.get("name") in ("push_frame", "pushFrame") and
                   any(y.get("name") == "create" and (y.get("cls") or "").endswith("frame_t") for y in calls(x))
                   and (x.get("l") or 0) <= (c.get("l") or 0) for x in calls(fn["body"]))
    for fn, c in sites:
        a0 = (c.get("args") or [{}])[0]
        while isinstance(a0, dict) and a0.get("k") in ("construct", "cast") and (a0.get("args") or a0.get("e")):
            a0 = a0["args"][0] if a0.get("args") else a0["e"]
        key = "%s@%s" % (fn["q"].replace("UTAP::", ""), short(a0)[:24])
        where = "%s:%s" % (fn["file"], c.get("l"))
        if fn["q"] in DUPNAME_LISTED:
            chk.ob(rid, key + "|listed", True, "", where, sample="%s - listed: %s" % (key, DUPNAME_LISTED[fn["q"]][:60]))
            continue
        if own_test(fn):
            chk.ob(rid, key, True, "", where, sample="%s tests the frame for the name first" % key)
            continue
        if fresh_frame(fn, c):
            chk.ob(rid, key, True, "", where, sample="%s adds to a frame created in the same function" % key)
            continue
        callers = [g for g in F.functions.values() if g.get("body") is not None and g is not fn and
                   "/test/" not in (g.get("file") or "") and any(x.get("fn") == fn["q"] for x in calls(g["body"]))]
        def callers_of(f_):
            return [g for g in F.functions.values() if g.get("body") is not None and g is not f_ and
                    "/test/" not in (g.get("file") or "") and any(
                        x.get("fn") == f_["q"] or
                        # a call through the declaration in a base class that f_ overrides
                        (x.get("name") == f_["name"] and x.get("cls") and f_.get("cls") and x["cls"] != f_["cls"] and
                         F.derives(f_["cls"], x["cls"])) for x in calls(g["body"]))]

        def callers_ok(f_, answers, depth=0):
            cs = callers_of(f_)
            if not cs or depth > 2:
                return False
            for g in cs:
                if own_test(g, f_["name"] if answers else None):
                    continue
                rets = [r for r in walk(g["body"]) if r.get("k") == "return" and r.get("e") is not None]
                forwards = answers and rets and all(any(c2.get("name") == f_["name"] for c2 in calls(r["e"])) for r in rets)
                if forwards and callers_ok(g, True, depth + 1):
                    continue
                # a worker one level further down (`add_instance` -> `append_instance`): judged by the callers of g
                if not (g.get("cls") or "").endswith("Builder") and callers_ok(g, False, depth + 1):
                    continue
                return False
            return True
        ok = callers_ok(fn, returns_answer(fn)) and not (fn.get("cls") or "").endswith("Builder")
        chk.ob(rid, key, ok,
               "%s adds the symbol `%s` without asking whether the frame already holds the name%s: frame_t::add_symbol "
               "gives the name to the newcomer, so an earlier declaration of the same name in the same frame (a constant "
               "parameter, say) is silently hidden by the later one" %
               (fn["q"], short((c.get("args") or [{}])[0])[:30],
                "" if not callers else " (nor do its callers %s)" % ", ".join(sorted(g["name"] for g in callers if not own_test(g)))),
               where, sample="%s: every caller (%s) tests first" % (key, ", ".join(sorted(g["name"] for g in callers))))


# ---------------------------------------------------------------------------------------------- R-FIELDGATE
def run_fieldgate(chk, F, rid="R-FIELDGATE"):
    """type_t::is_mutable(RECORD) demands that every field is mutable, and isModifiableLValue asks the root object only:
    a field type that is not mutable makes every field of every variable of the struct read-only.  The gate in
    StatementBuilder::struct_field therefore has to refuse every field type for which is_mutable() is false - in
    particular an array of constants, which type_t::is(CONSTANT) does not see (E12-4)."""
    chk.rule(rid, "StatementBuilder::struct_field reports an error for every field type that is not mutable: its test is "
                  "!is_mutable() of the field type, or a constness test applied after descending through the array "
                  "dimensions")
    fn = F.fn("UTAP::StatementBuilder::struct_field")
    from ..inline import strip as _strip
    gates = [n for n in walk(fn["body"]) if n.get("k") == "if" and G.has_error_report(n["then"])]
    if not gates:
        raise AnalysisBroken("struct_field: no reporting test found")
    ok, seen = False, []
    descends = any(c.get("name") in ("get_sub", "get_array_element", "strip_array_keep_prefix") for c in calls(fn["body"])) and \
        any(n.get("k") in ("while", "for") for n in walk(fn["body"]))
    blocals = {}
    for d in walk(fn["body"]):
        if d.get("k") == "decl":
            for v in d.get("vars", []):
                if v.get("init") is not None and "bool" in (v.get("t") or ""):
                    blocals[v.get("id")] = v["init"]
    for g in gates:
        c = _strip(g["c"])
        neg = False
        while isinstance(c, dict) and c.get("k") == "un" and c.get("op") == "!":
            c, neg = _strip(c["e"]), not neg
        if isinstance(c, dict) and c.get("k") == "ref" and c.get("id") in blocals:       # `const bool m = type.is_mutable();`
            c = _strip(blocals[c["id"]])
            while isinstance(c, dict) and c.get("k") == "un" and c.get("op") == "!":
                c, neg = _strip(c["e"]), not neg
        if not (isinstance(c, dict) and c.get("k") == "call"):
            continue
        seen.append(short(g["c"])[:40])
        if c.get("name") == "is_mutable" and neg:
            ok = True
        elif not neg and (c.get("name") == "is_constant" or (c.get("name") == "is" and "CONSTANT" in short(c))):
            ok = ok or (descends and "strip" not in short(c.get("recv")))
    chk.ob(rid, "struct_field", ok,
           "StatementBuilder::struct_field does not refuse every field type that is not mutable (tests: %s): "
           "`struct { const int a[2]; int b; } s;` is accepted and every field of s is then read-only, because a record "
           "is mutable only if all its fields are" % ", ".join(seen), "%s:%s" % (fn["file"], fn["line"]))


# ---------------------------------------------------------------------------------------------- R-ARGSIBLING
def run_argsibling(chk, F, rid="R-ARGSIBLING"):
    """instance_line_t is an instance_t: DocumentBuilder::instance_name_end binds the parameters of the template to the
    arguments written on an LSC instance line (`A(x)`) with the same add_parameters as an instantiation.  The type checker
    visited instantiations only (found by a defect-hunt sub-agent, E13-4: `A(x)` with a mutable x for `const int n`)."""
    chk.rule(rid, "every TypeChecker visitor of an object that binds template parameters to arguments (visitInstance, "
                  "visitInstanceLine) hands the arguments in <instance>.mapping to the same tests: it type-checks them and "
                  "reports a writing or non-computable one")
    entries = [f for f in F.functions.values() if f.get("cls") == "UTAP::TypeChecker" and f.get("body") is not None and
               (f.get("name") or "").startswith("visit") and f.get("params") and
               any(t in (f["params"][0].get("ct") or f["params"][0].get("t") or "") for t in ("instance_t", "instance_line_t"))]
    names = sorted({f["name"] for f in entries})
    if "visitInstance" not in names or "visitInstanceLine" not in names:
        raise AnalysisBroken("TypeChecker visitors of instance_t / instance_line_t not found (%s)" % names)
    for name in names:
        if name == "visitProcess":
            continue            # a process is an instance that was checked as an instance; nothing is bound there
        fn = G.normalized(_fn(F, name))
        inst = fn["params"][0]["name"]
        al = G.collect_aliases(fn)
        look = [c for c in calls(fn["body"]) if c.get("name") in ("operator[]", "find", "at") and
                (G.path_of(c.get("recv"), al) or ())[-1:] == ("mapping",) and c.get("args")]
        tests = {c.get("name") for c in calls(fn["body"])}
        need = {"checkExpression", CHANGES, COMPUTABLE}
        ok = bool(look) and need <= tests
        chk.ob(rid, "%s|arguments" % name, ok,
               "TypeChecker::%s does not check the arguments bound in %s.mapping (%s): an argument on an LSC instance line "
               "is bound to the template parameter like that of an instantiation, but `A(x)` with a mutable x for the "
               "parameter `const int n` is accepted there" %
               (name, inst, "no lookup in the mapping" if not look else "missing: %s" % ", ".join(sorted(need - tests))),
               "%s:%s" % (fn["file"], fn["line"]), sample="%s checks the bound arguments" % name)


# ---------------------------------------------------------------------------------------------- R-CONSTSTICKY
def run_conststicky(chk, F, rid="R-CONSTSTICKY"):
    """A `const` anywhere on the way to the base type makes the object constant: behind a typedef name (LABEL), a range, a
    reference, a prefix (urgent, broadcast, meta ..) or as the element type of an array.  type_t::is_mutable / is_constant
    must give the answer of the wrapped type for every kind that type_t::is() itself looks through, and for ARRAY.  (Found
    missing by a round-7 sub-agent: the catch-all of is_mutable rewritten as a list of wrapper kinds without LABEL made
    `typedef const int cint_t; cint_t c; c = 2;` acceptable.)"""
    from ..inline import KindSlicer, strip
    chk.rule(rid, "for every wrapper kind W - what type_t::is() looks through (RANGE, REF, LABEL, the prefix kinds) and "
                  "ARRAY - type_t::is_mutable(W(t)) and type_t::is_constant(W(t)) are exactly the answers for t (per-kind "
                  "slice of the switch, evaluated with is_prefix() decided by type_t::is_prefix's own switch)")
    isf = F.fn("UTAP::type_t::is")
    through = set()
    for n in walk(isf["body"]):
        if n.get("k") == "bin" and n.get("op") == "&&":
            l, r = strip(n["lhs"]), strip(n["rhs"])
            if isinstance(l, dict) and l.get("k") == "bin" and l.get("op") == "==" and isinstance(r, dict) and \
                    r.get("k") == "call" and r.get("name") == "is":
                for x in (strip(l["lhs"]), strip(l["rhs"])):
                    if isinstance(x, dict) and x.get("dk") == "enumerator":
                        through.add(x["name"])
    if not {"RANGE", "REF", "LABEL"} <= through:
        raise AnalysisBroken("type_t::is: the kinds it looks through were not found (%s)" % sorted(through))
    pf = F.fn("UTAP::type_t::is_prefix")
    not_prefix = set()
    dflt = None
    for labels, stmts in switch_cases(pf):
        val = None
        for n in walk({"k": "block", "s": stmts}):
            if n.get("k") == "return" and (n.get("e") or {}).get("k") == "bool":
                val = n["e"]["v"]
                break
        if "default" in labels:
            dflt = val
        if val is False:
            not_prefix.update(l for l in labels if l != "default")
    if dflt is not True or "INT" not in not_prefix:
        raise AnalysisBroken("type_t::is_prefix is not `false for the listed kinds, true otherwise`")
    prefixes = [k for k in ("CONSTANT", "URGENT", "BROADCAST", "COMMITTED", "HYBRID", "SYSTEM_META") if k not in not_prefix]
    if len(prefixes) < 5:
        raise AnalysisBroken("prefix kinds not confirmed by is_prefix (%s)" % prefixes)
    wrappers = sorted(through) + ["ARRAY"] + [k for k in prefixes if k != "CONSTANT"]

    def ev(e, K, self_name):
        """True / False / 'child' (the answer of the wrapped type) / None"""
        e = strip(e)
        if not isinstance(e, dict):
            return None
        k = e.get("k")
        if k == "bool":
            return bool(e["v"])
        if k == "un" and e.get("op") == "!":
            v = ev(e["e"], K, self_name)
            return (not v) if isinstance(v, bool) else None
        if k == "bin" and e.get("op") in ("||", "&&"):
            a, b = ev(e["lhs"], K, self_name), ev(e["rhs"], K, self_name)
            if e["op"] == "||":
                if a is True or b is True:
                    return True
                if a is False:
                    return b
                if b is False:
                    return a
            else:
                if a is False or b is False:
                    return False
                if a is True:
                    return b
                if b is True:
                    return a
            return None
        if k == "bin" and e.get("op") in ("==", "!=", ">", "<", ">=", "<="):
            txt = short(e)
            if "size()" in txt:         # a wrapper has its wrapped type as child 0
                l, r = strip(e["lhs"]), strip(e["rhs"])
                if isinstance(r, dict) and r.get("k") == "int" and isinstance(l, dict) and l.get("k") == "call" and l.get("name") == "size":
                    n_ = 1 if K not in ("RANGE", "ARRAY") else (3 if K == "RANGE" else 2)
                    return {"==": n_ == r["v"], "!=": n_ != r["v"], ">": n_ > r["v"], "<": n_ < r["v"],
                            ">=": n_ >= r["v"], "<=": n_ <= r["v"]}[e["op"]]
            return None
        if k == "call":
            if e.get("name") == "is_prefix":
                return K not in not_prefix
            if e.get("name") == self_name:
                r = strip(e.get("recv")) if e.get("recv") is not None else None
                if isinstance(r, dict) and r.get("k") == "call" and r.get("name") in ("get", "operator[]") and r.get("args") and \
                        strip(r["args"][-1]).get("k") == "int" and strip(r["args"][-1]).get("v") == 0:
                    return "child"
                if isinstance(r, dict) and r.get("k") == "call" and r.get("name") in ("get_sub", "strip") and not r.get("args"):
                    return "child"
            return None
        return None
    for mname in ("is_mutable", "is_constant"):
        m = F.fn("UTAP::type_t::" + mname)
        sl = KindSlicer(F, m, subject="this")
        for K in wrappers:
            body = sl.slice(K)
            rets = [n for n in walk(body) if n.get("k") == "return" and n.get("e") is not None]
            vals = [ev(r["e"], K, mname) for r in rets]
            ok = len(rets) == 1 and vals[0] == "child"
            chk.ob(rid, "type_t::%s|%s" % (mname, K), ok,
                   "type_t::%s gives %s for a %s type instead of the answer of the type it wraps (`%s`): a `const` behind "
                   "%s is %s" % (mname, vals, K, short(rets[0]["e"])[:60] if rets else "no return",
                                 "a typedef name" if K == "LABEL" else "a %s" % K.lower(),
                                 "lost - the object can be written" if mname == "is_mutable" else "not seen"),
                   "%s:%s" % (m["file"], m["line"]), sample="%s(%s(t)) == %s(t)" % (mname, K, mname))


# ---------------------------------------------------------------------------------------------- R-SUMMARYORDER
def run_summaryorder(chk, F, rid="R-SUMMARYORDER"):
    """function_t::changes / ::depends are filled by TypeChecker::visitFunction when the type checker reaches the function;
    a gate evaluated earlier sees a call of it as reading and writing nothing.  Within one scope declaration-before-use
    guarantees the order.  Across templates there is one way to call a function of another template from a model:
    `p.f()` with p bound to a process of a dynamic template (DYNAMIC_EVAL callee, R-CALLEE) - so the functions of the
    dynamic templates have to be visited before the templates that can call them.  (Round 7, seen by a sub-agent on the
    unmodified tree: `guard forall (p : Child) (p.h() > 0)` with a writing h was accepted in a static template.)"""
    chk.rule(rid, "Document::accept hands the dynamic templates to the visitor before the other templates: the type "
                  "checker summarises the functions of a template (what they read and write) when it visits it, and the "
                  "gates of every other template consult those summaries for calls `p.f()`")
    acc = F.fn("UTAP::Document::accept")
    loops = []
    for n in walk(acc["body"]):
        if n.get("k") in ("rangefor", "for") and any(c.get("name") == "visitTemplate" for c in calls(n)):
            rng = short(n.get("range") or n.get("init") or {})
            loops.append((n.get("l") or 0, "dyn" if "dyn" in rng else "static", rng))
    if len(loops) < 2:
        raise AnalysisBroken("Document::accept: the two template loops were not found (%s)" % loops)
    loops.sort()
    first_dyn = min((l for l, k, _ in loops if k == "dyn"), default=None)
    first_static = min((l for l, k, _ in loops if k == "static"), default=None)
    if first_dyn is None or first_static is None:
        raise AnalysisBroken("Document::accept: cannot tell the dynamic from the static template loop (%s)" % loops)
    # the premise: the collectors do resolve p.f()
    cw = F.fn("UTAP::expression_t::collect_possible_writes")
    from ..inline import KindSlicer
    body = KindSlicer(F, cw, subject="this").slice("FUN_CALL")
    premise = any(x.get("dk") == "enumerator" and x.get("name") == "DYNAMIC_EVAL" for x in walk(body))
    chk.ob(rid, "accept|dynamic templates first", (first_dyn < first_static) or not premise,
           "Document::accept visits the static templates (line %s) before the dynamic ones (line %s): when the guards and "
           "invariants of a static template are checked, function_t::changes of the functions of the dynamic templates is "
           "still empty, so `forall (p : Child) (p.h() > 0)` with a writing h passes the side-effect gate" %
           (first_static, first_dyn), "%s:%s" % (acc["file"], first_static),
           sample="dynamic templates (line %s) are visited before the static ones (line %s)" % (first_dyn, first_static))


# ---------------------------------------------------------------------------------------------- R-BINDERRANGE
def run_binderrange(chk, F, rid="R-BINDERRANGE"):
    """forall / exists / sum over a range: the range lives in the *type of the bound symbol*, which is no operand of the node.
    A collector that walks operands only does not see what the bounds read (found by a defect-hunt sub-agent, E13-2:
    `int a[sum (i : int[0,n]) 1]` with a free process parameter n was accepted - the restricted-parameter mechanism has no
    second look at the binder type as the computability gate has)."""
    from ..inline import KindSlicer, expanded_fn
    chk.rule(rid, "for every quantifier kind whose binder is typed by the model (expr_forall_begin and the callbacks that share "
                  "it: FORALL, EXISTS, SUM), the clause of expression_t::collect_possible_reads also collects what the type of "
                  "the bound symbol reads: it hands get(0).get_symbol().get_type() to a walk that reaches the bounds of ranges")
    bk = binder_kinds(F)
    static = sorted(k for k, cb in bk.items() if "dynamic" not in cb and not k.startswith("MITL"))
    if not {"FORALL", "EXISTS", "SUM"} <= set(static):
        raise AnalysisBroken("static binder kinds not found (%s)" % static)
    fn = F.fn("UTAP::expression_t::collect_possible_reads")
    sl = KindSlicer(F, fn, subject="this", stop=("collect_possible_reads",))
    for K in static:
        body = sl.slice(K)
        reads_type = False
        for c in calls(body):
            if c.get("name") == "get_type" and c.get("cls") == "UTAP::symbol_t":
                reads_type = True
        ranges = any(c.get("name") == "get_range" for c in calls(body)) or any(
            any(x.get("name") == "get_range" for x in calls(t.get("body")))
            for c in calls(body) for t in F.fns(c.get("fn") or "") if t.get("body") is not None and not t.get("cls"))
        chk.ob(rid, "collect_possible_reads|%s" % K, reads_type and ranges,
               "expression_t::collect_possible_reads does not look at the range of the variable bound by %s (the type of "
               "get(0).get_symbol()): `int a[%s (i : int[0,n]) 1]` depends on n without reading it, so a free process "
               "parameter in the range of a binder is not restricted" % (K, K.lower()), "%s:%s" % (fn["file"], fn["line"]),
               sample="%s: the reads of the binder's range are collected" % K)


# ---------------------------------------------------------------------------------------------- R-EARLYDEPENDS
def run_earlydepends(chk, F, rid="R-EARLYDEPENDS"):
    """The builders mark restricted template parameters while the model is *parsed*: collectDependencies follows the reads
    of an array size / scalar-set size / instantiation argument, and for a call it adds function_t::depends.  That set was
    computed only by the type checker, after the whole document had been built, so a call contributed nothing (found by a
    defect-hunt sub-agent, E13-1: `int f() { return n; } int a[f()+1];` with a free process parameter n was accepted).
    Second clause: the range of an iteration variable is in the type of the variable, not in an expression of the statement."""
    chk.rule(rid, "function_t::depends is filled when the function is complete (StatementBuilder::decl_func_end runs a "
                  "CollectDependenciesVisitor over the body and removes only the function's own variables and parameters), "
                  "because the builders consult it through collect_possible_reads before type checking; and the visitor "
                  "also collects what the range of an iteration variable reads")
    # premise: a builder-side consumer exists
    consumers = [f for f in F.functions.values() if f.get("name") == "collectDependencies" and f.get("body") is not None and
                 any(c.get("name") == "collect_possible_reads" for c in calls(f["body"]))]
    if not consumers:
        raise AnalysisBroken("R-EARLYDEPENDS: no builder-side collectDependencies found")
    de = F.resolve_method("UTAP::StatementBuilder", "decl_func_end")
    if de is None or de.get("body") is None:
        raise AnalysisBroken("StatementBuilder::decl_func_end not found")
    de = G.normalized(de)
    ctor = [x for x in walk(de["body"]) if x.get("k") in ("construct", "decl") and "CollectDependenciesVisitor" in short(x) and
            "depends" in short(x)]
    accepted = any(c.get("name") == "accept" and "body" in short(c.get("recv")) for c in calls(de["body"]))
    erases = [c for c in calls(de["body"]) if c.get("name") == "erase" and "depends" in short(c.get("recv"))]
    own = all(("uid" in short(c["args"][0]) or "frame" in short(c["args"][0]) or "get_frame" in short(c["args"][0]))
              for c in erases if c.get("args"))
    # second form: the visitor fills a local set, and depends receives that set minus what the function declares itself
    # (std::set_difference into an inserter on depends, the subtrahend built from fun.variables and the body's frame)
    alt = False
    visitor_any = [x for x in walk(de["body"]) if x.get("k") in ("construct", "decl") and "CollectDependenciesVisitor" in short(x)]
    for c in calls(de["body"]):
        if c.get("name") == "set_difference" and len(c.get("args", [])) >= 5 and "depends" in short(c["args"][4]):
            sub = short(c["args"][2])
            src_ok = False
            for d_ in walk(de["body"]):
                if d_.get("k") == "decl":
                    for v_ in d_.get("vars", []):
                        if v_.get("name") and v_["name"] in sub and v_.get("init") is not None:
                            for c2 in calls(v_["init"]):
                                for t_ in F.fns(c2.get("fn") or ""):
                                    if t_.get("body") is not None and "variables" in short(t_["body"]) or \
                                            any(x_.get("k") == "member" and x_.get("name") == "variables" for x_ in walk(t_.get("body"))):
                                        if any(y_.get("name") == "get_frame" for y_ in calls(t_["body"])):
                                            src_ok = True
            alt = bool(visitor_any) and accepted and src_ok
    chk.ob(rid, "decl_func_end|depends", (bool(ctor) and accepted and len(erases) >= 2 and own) or alt,
           "StatementBuilder::decl_func_end does not compute function_t::depends: the builders' collectDependencies (%s) adds the "
           "depends of a called function while the model is parsed, when it is still empty - a free process parameter reaches an "
           "array size through a function unnoticed" % ", ".join(sorted({f["q"].replace("UTAP::", "") for f in consumers})),
           "%s:%s" % (de["file"], de["line"]), sample="depends is computed in decl_func_end, own variables and parameters removed")
    vis = [f for f in F.fns("UTAP::CollectDependenciesVisitor::visitIterationStatement") if f.get("body") is not None]
    ok = False
    for f in vis:
        f2 = expanded_fn(f, F, accept=lambda t: bool(t.get("static")) and not t.get("cls"), maxdepth=2)
        reads_type = any(c.get("name") == "get_type" and "symbol" in short(c.get("recv")) for c in calls(f2["body"]))
        ranges = any(c.get("name") == "get_range" for c in calls(f2["body"])) or any(
            any(x.get("name") == "get_range" for x in calls(t.get("body")))
            for c in calls(f["body"]) for t in F.fns(c.get("fn") or "") if t.get("body") is not None and not t.get("cls"))
        body_visited = any(c.get("name") == "accept" for c in calls(f["body"]))
        ok = reads_type and ranges and body_visited
    chk.ob(rid, "CollectDependenciesVisitor|iteration range", ok,
           "CollectDependenciesVisitor does not collect what the range of an iteration variable reads (`for (i : int[0,n])`): "
           "the range is held by the type of the variable, no expression of the statement mentions it, so a function that reads "
           "a variable only there does not depend on it", "src/statement.cpp",
           sample="visitIterationStatement collects the reads of the variable's range and visits the body")


# ---------------------------------------------------------------------------------------------- R-DYNPARAM
def run_dynparam(chk, F, rid="R-DYNPARAM"):
    """A `dynamic T(..);` declaration creates the template with *its* parameter frame; the later definition `process T(..)`
    is only compared with it, and the body is then type checked against the declared parameters.  A comparison by the
    outermost kind of the type alone lets the definition say `const` (behind a typedef name, both are LABEL) where the
    declaration did not: the body is written against a constant, checked against a variable (found by a defect-hunt
    sub-agent, E12-2: `dynamic T(mi k); process T(ci k) { .. k = 1 .. }` accepted)."""
    chk.rule(rid, "DocumentBuilder::proc_begin compares each parameter of the definition of a dynamic template with the "
                  "declared one by name, by constness (is_constant) and by reference-ness, with an error report when they "
                  "differ")
    fn = F.resolve_method("UTAP::DocumentBuilder", "proc_begin")
    if fn is None or fn.get("body") is None:
        raise AnalysisBroken("DocumentBuilder::proc_begin not found")
    fn = expanded_fn(fn, F, accept=lambda t: bool(t.get("static")) and not t.get("cls"), maxdepth=2)
    if not any(c.get("name") in ("handle_error", "handleError") for c in calls(fn["body"])):
        raise AnalysisBroken("proc_begin reports no error")
    # the text of every comparison in proc_begin and in the file-local helpers it calls (same_parameter(def, decl), ..)
    bodies, todo, seen = [fn["body"]], list(calls(fn["body"])), set()
    while todo:
        c = todo.pop()
        for t in F.fns(c.get("fn") or ""):
            if t.get("body") is None or t.get("cls") or t["q"] in seen or not (t.get("file") or "").endswith("DocumentBuilder.cpp"):
                continue
            seen.add(t["q"])
            bodies.append(t["body"])
            todo.extend(calls(t["body"]))
    txt = ""
    for bd in bodies:
        for x in walk(bd):
            if x.get("k") == "bin" and x.get("op") in ("!=", "=="):
                txt += " " + short(x)
            if x.get("k") == "call" and x.get("ck") == "op" and x.get("op") in ("!=", "=="):
                txt += " " + short(x)
    gates = [{"l": fn.get("line")}]
    for what, needle in (("constness", "is_constant"), ("reference", "REF")):
        chk.ob(rid, "proc_begin|%s" % what, txt.count(needle) >= 2,
               "DocumentBuilder::proc_begin does not compare the %s of the parameters of the definition of a dynamic template "
               "with the declaration: the template keeps the declared parameters, so `dynamic T(mi k); process T(ci k) { .. k = 1 "
               ".. }` (mi = int, ci = const int) type checks the write against a variable" % what,
               "%s:%s" % (fn["file"], gates[0].get("l")), sample="the %s of declared and defined parameter is compared" % what)
