"""C19 rules.

R-ARITY   every node the library constructs has as many children as get_size() reports for its kind
R-FIELDS  clone / clone_deeper copy every data member; equal compares kind, value, symbol, size and all
          children; subst writes only into a fresh clone
"""
from ..front import AnalysisBroken
from ..facts import walk, calls, short, inline_tail_delegate
from ..stackmachine import Interp, Lin, Unsupported
from .effects import switch_cases

ED = "UTAP::expression_t::expression_data"
CREATORS = {"create_unary": 1, "create_binary": 2, "create_ternary": 3, "create_nary": None}


def size_table(F):
    """kind -> int | 'value' from the switch of expression_t::get_size."""
    fn = F.fn("UTAP::expression_t::get_size")
    tab = {}
    for labels, stmts in switch_cases(fn, selector=None) if False else _cases(fn):
        ret = None
        for n in walk({"k": "block", "s": stmts}):
            if n.get("k") == "return":
                e = n.get("e") or {}
                if e.get("k") == "int":
                    ret = e["v"]
                elif e.get("k") == "construct" and e.get("args") and e["args"][0].get("k") == "int":
                    ret = e["args"][0]["v"]
                else:
                    ret = "value"
                break
        for lb in labels:
            if lb != "default":
                tab[lb] = ret
    if len(tab) < 100:
        raise AnalysisBroken("get_size table has only %d kinds" % len(tab))
    return tab, fn


def _cases(fn):
    sws = [n for n in walk(fn["body"]) if n.get("k") == "switch"]
    if not sws:
        raise AnalysisBroken("%s has no switch" % fn["q"])
    sw = max(sws, key=lambda s: sum(1 for _ in walk(s)))
    items = []
    for s in sw["body"].get("s", []):
        labels = []
        while isinstance(s, dict) and s.get("k") in ("case", "default"):
            if s["k"] == "case":
                v = s.get("v", {})
                labels.append(v.get("name") if v.get("k") == "ref" else str(s.get("cv")))
            else:
                labels.append("default")
            s = s.get("s")
        items.append((labels, s))
    out = []
    for i, (labels, s) in enumerate(items):
        if not labels:
            continue
        stmts = []
        for l2, s2 in items[i:]:
            if s2 is not None:
                stmts.append(s2)
            if isinstance(s2, dict) and s2.get("k") in ("break", "return"):
                break
        out.append((labels, stmts))
    return out


def nonterminal_kinds(G, nt):
    ks = {}
    for r in G.by_lhs.get(nt, []):
        if r.action is None:
            continue
        for n in walk(r.action):
            if n.get("k") == "bin" and n.get("op") == "=" and n["lhs"].get("k") == "member" and \
                    n["lhs"].get("base", {}).get("name") == "yyval" and n["lhs"].get("name") == "kind":
                for x in walk(n["rhs"]):
                    if x.get("k") == "ref" and x.get("dk") == "enumerator":
                        ks[x["name"]] = x["ev"]
    return ks


def vector_len(fn, arg, interp, st):
    """Statically known length of the vector passed to create_nary, as int, Lin or None."""
    a = arg
    while a.get("k") in ("call",) and a.get("name") == "move" and a.get("args"):
        a = a["args"][0]
    while a.get("k") == "construct" and len(a.get("args", [])) == 1 and a["args"][0].get("k") != "int":
        a = a["args"][0]
        while a.get("k") in ("call",) and a.get("name") == "move" and a.get("args"):
            a = a["args"][0]
    if a.get("k") in ("stdinitlist", "initlist"):
        inner = a.get("e")
        if isinstance(inner, dict) and inner.get("k") == "initlist":
            return len(inner.get("e", []))
        if isinstance(inner, list):
            return len(inner)
    if a.get("k") == "construct":
        for x in walk(a):
            if x.get("k") == "initlist":
                return len(x.get("e", []))
    if a.get("k") == "ref" and a.get("dk") == "local":
        # find the declaration
        for n in walk(fn["body"]):
            if n.get("k") == "decl":
                for v in n["vars"]:
                    if v.get("id") == a.get("id") and v.get("init") is not None:
                        init = v["init"]
                        for x in walk(init):
                            if x.get("k") == "initlist":
                                return len(x.get("e", []))
                        if init.get("k") == "construct" and len(init.get("args", [])) >= 1:
                            val = interp.val(init["args"][0], st)
                            if isinstance(val, Lin):
                                return val
    return None


def run_arity(chk, F, G, CG):
    rid = "R-ARITY"
    chk.rule(rid, "for every expression-node construction site and every kind that can reach it (kinds are constants "
                  "of the grammar's CALLs, propagated through the builder callbacks by abstract interpretation): the "
                  "number of children given equals expression_t::get_size()'s entry for that kind")
    tab, gs = size_table(F)
    # create_nary stores sub.size() as the value get_size returns for variable-arity kinds
    cn = F.fn("UTAP::expression_t::create_nary")
    cn = inline_tail_delegate(cn, F)
    vec = [p_["name"] for p_ in cn["params"] if "vector" in (p_.get("ct") or p_.get("t") or "")]
    inits = {v.get("id"): v.get("init") for d in walk(cn["body"]) if d.get("k") == "decl" for v in d.get("vars", [])
             if v.get("init") is not None}

    def is_param_size(e, depth=0):
        """sub.size() of the children parameter, possibly cast or held in a local"""
        for x in walk(e):
            if x.get("k") == "call" and x.get("name") == "size" and any(
                    y.get("k") == "ref" and y.get("name") in vec for y in walk(x.get("recv") or {})):
                return True
            if x.get("k") == "ref" and x.get("dk") == "local" and x.get("id") in inits and depth < 3 and \
                    is_param_size(inits[x["id"]], depth + 1):
                return True
        return False
    stores = False
    for n in walk(cn["body"]):
        lhs = rhs = None
        if n.get("k") == "bin" and n.get("op") == "=":
            lhs, rhs = n["lhs"], n["rhs"]
        elif n.get("k") == "call" and n.get("ck") == "op" and n.get("op") == "=":
            lhs, rhs = n.get("recv"), (n.get("args") or [None])[-1]
        if isinstance(lhs, dict) and lhs.get("k") == "member" and lhs.get("name") == "value" and rhs is not None and \
                is_param_size(rhs):
            stores = True
    chk.ob(rid, "create_nary|stores-size", stores, "create_nary does not store the number of children as the node's value",
           "%s:%s" % (cn["file"], cn["line"]))
    seen = {}

    events = []

    def rec(kind, *a):
        if kind != "ext":
            return
        c, st, fn, interp = a
        q = c.get("fn") or ""
        if not q.startswith("UTAP::expression_t::create_"):
            return
        name = q.split("::")[-1]
        if name not in CREATORS or not c.get("args"):
            return
        karg = c["args"][0]
        vals = []
        v = interp.val(karg, st)
        if isinstance(v, Lin) and v.is_const():
            vals = [v.c]
        elif karg.get("k") == "cond":
            for br in (karg["a"], karg["b"]):
                w = interp.val(br, st)
                if isinstance(w, Lin) and w.is_const():
                    vals.append(w.c)
                elif br.get("k") == "cond":
                    for b2 in (br["a"], br["b"]):
                        w2 = interp.val(b2, st)
                        if isinstance(w2, Lin) and w2.is_const():
                            vals.append(w2.c)
        n = CREATORS[name]
        if n is None:
            n = vector_len(fn, c["args"][1], interp, st) if len(c["args"]) > 1 else None
        events.append((fn["q"], c.get("l"), name, tuple(vals), n))

    kt = F.enum("UTAP::Constants::kind_t")
    val2name = {}
    for v in kt["values"]:
        val2name.setdefault(v["v"], v["name"])
    for cls in ("UTAP::DocumentBuilder", "UTAP::TigaPropertyBuilder"):
        I = Interp(F, CG, cls, record=rec)
        for r in G.rules:
            for c in r.calls:
                # enumerate symbolic kind arguments over the values their nonterminal can have
                variants = [[]]
                for a in c.args:
                    v = G.arg_value(r, a)
                    if v[0] == "default":
                        v = v[1:]
                    if v[0] in ("const",):
                        opts = [Lin(v[1])]
                    elif v[0] == "enum":
                        opts = [Lin(v[2])]
                    elif v[0] == "sym" and v[2] == "kind":
                        nt = G.symbol_at(r, v[1])
                        ks = nonterminal_kinds(G, nt)
                        if not ks:
                            raise AnalysisBroken("no kind values for nonterminal %s" % nt)
                        opts = [Lin(x) for x in sorted(set(ks.values()))]
                    elif v[0] == "sym" and v[2] in ("number", "flag"):
                        opts = [Lin.var("$%d" % v[1])]
                    elif v[0] in ("global", "expr"):
                        opts = [Lin.var("@g")]
                    else:
                        opts = [None]
                    variants = [x + [o] for x in variants for o in opts]
                for args in variants:
                    try:
                        I.run(c.name, args)
                    except Unsupported as e:
                        raise AnalysisBroken("callback %s cannot be interpreted: %s" % (c.name, e))
    nsites = 0
    for (q, line, creator, vals, n) in sorted(set(events), key=str):
        for kv in vals:
            kn = val2name.get(kv, str(kv))
            want = tab.get(kn)
            key = "%s|%s|%s" % (q.split("::")[-1], creator, kn)
            if key in seen:
                continue
            seen[key] = True
            nsites += 1
            if want is None:
                chk.ob(rid, key, False,
                       "%s constructs a node of kind %s but expression_t::get_size() has no entry for it: the number of "
                       "children reported differs from the number accessible (0 in release builds)" % (q, kn),
                       "%s:%s" % (F.fn(q)["file"] if F.fns(q) else "?", line))
            elif want == "value":
                chk.ob(rid, key, creator == "create_nary",
                       "%s constructs variable-arity kind %s with %s, which does not store the child count" %
                       (q, kn, creator), "?:%s" % line)
            else:
                if n is None:
                    ok = False
                    detail = "unknown number of children"
                elif isinstance(n, Lin):
                    ok = n.is_const() and n.c == want
                    detail = "%s children" % n
                else:
                    ok = n == want
                    detail = "%s children" % n
                chk.ob(rid, key, ok,
                       "%s constructs kind %s with %s but get_size() reports %s" % (q, kn, detail, want),
                       "%s:%s" % (F.fn(q)["file"] if F.fns(q) else "?", line),
                       sample="%s: %s(%s) has %s children" % (q, creator, kn, detail))
    # constant-kind construction sites elsewhere in the library
    for fn in F.functions.values():
        if fn.get("cls") in ("UTAP::ExpressionBuilder", "UTAP::StatementBuilder", "UTAP::DocumentBuilder"):
            continue
        for c in calls(fn.get("body")):
            q = c.get("fn") or ""
            name = q.split("::")[-1]
            if q.startswith("UTAP::expression_t::create_") and name in ("create_unary", "create_binary", "create_ternary") \
                    and c.get("args") and c["args"][0].get("k") == "ref" and c["args"][0].get("dk") == "enumerator":
                kn = c["args"][0]["name"]
                want = tab.get(kn)
                key = "%s|%s|%s" % (fn["q"].split("::")[-1], name, kn)
                if key in seen:
                    continue
                seen[key] = True
                nsites += 1
                chk.ob(rid, key, want == CREATORS[name],
                       "%s constructs kind %s with %d children but get_size() reports %s" % (fn["q"], kn, CREATORS[name], want),
                       "%s:%s" % (fn["file"], c.get("l")))
    chk.analysed[rid] = {"construction_events": len(set(events)), "site_kind_pairs": nsites, "get_size_kinds": len(tab)}


def _assigned_fields(fn, localname=None):
    """Fields of expression_data assigned through a local object in fn: field -> [assignment nodes]."""
    out = {}
    for n in walk(fn["body"]):
        lhs = None
        if n.get("k") == "bin" and n.get("op") == "=":
            lhs = n["lhs"]
        elif n.get("k") == "call" and n.get("ck") == "op" and n.get("op") == "=":
            lhs = n.get("recv")
        if lhs is not None and lhs.get("k") == "member" and lhs.get("of") == ED:
            root = lhs
            while isinstance(root, dict) and root.get("k") in ("member", "call"):
                root = root.get("base") if root.get("k") == "member" else root.get("recv")
            if isinstance(root, dict) and root.get("k") == "ref" and root.get("dk") == "local":
                out.setdefault(lhs["name"], []).append(n)
    return out


def run_fields(chk, F):
    rid = "R-FIELDS"
    chk.rule(rid, "clone and the three clone_deeper overloads give the copy every data member of expression_data "
                  "(kind and position through the constructor, value/type/symbol by assignment, children copied or "
                  "cloned recursively); equal compares kind, value, symbol, size and every child; subst writes only "
                  "into the result of clone()")
    rec = F.record(ED)
    fields = [f["name"] for f in rec["fields"]]
    if set(fields) < {"kind", "value", "symbol", "type", "sub", "position"}:
        raise AnalysisBroken("expression_data fields: %s" % fields)
    clones = F.fns("UTAP::expression_t::clone") + F.fns("UTAP::expression_t::clone_deeper")
    if len(clones) != 4:
        raise AnalysisBroken("expected clone + 3 clone_deeper, found %d" % len(clones))
    for fn in clones:
        tag = "%s/%d" % (fn["name"], len(fn["params"]))
        fn = inline_tail_delegate(fn, F)        # `return data->clone_with(map_symbol, clone_sub)`: judge the worker
        asg = _assigned_fields(fn)
        ctor = [n for n in walk(fn["body"]) if n.get("k") == "construct" and n.get("cls") == "UTAP::expression_t"
                and len(n.get("args", [])) == 2]
        ctor_fields = set()
        for c in ctor:
            for a in c["args"]:
                for x in walk(a):
                    if x.get("k") == "member" and x.get("of") == ED:
                        ctor_fields.add(x["name"])
        for f in fields:
            if f in ("kind", "position"):
                ok = f in ctor_fields
            elif f == "sub":
                ok = any(c.get("name") in ("assign", "push_back") and "sub" in short(c.get("recv")) for c in calls(fn["body"])) \
                    or "sub" in asg or \
                    any((c.get("name") in ("transform", "copy") or                  # std::transform(.., back_inserter(node.sub), f)
                         (c.get("ck") == "indirect" and any(w_ in short(c.get("callee")) for w_ in ("transform", "copy")))) and
                        any("inserter" in short(b) and "sub" in short(b) for b in c.get("args", []))
                        and "sub" in short(c["args"][0]) for c in walk(fn["body"]) if c.get("k") == "call" and c.get("args"))
                if fn["name"] == "clone_deeper":
                    ok = ok and any(c.get("name") == "clone_deeper" for c in calls(fn["body"]))
            else:
                ok = f in asg
                if ok:
                    # assigned on every path: at top level, or in both branches of a top-level if
                    top = fn["body"].get("s", [])
                    def at_top(n):
                        return any(n is s or (s.get("k") in ("bin", "call") and any(x is n for x in walk(s))) for s in top
                                   if isinstance(s, dict) and s.get("k") != "if")
                    def in_both(n):
                        for s in top:
                            if isinstance(s, dict) and s.get("k") == "if" and s.get("else") is not None:
                                t = any(x is n for x in walk(s["then"]))
                                if t:
                                    return any(y.get("k") in ("bin", "call") and (y.get("lhs") or y.get("recv") or {}).get("name") == f
                                               for y in walk(s["else"]))
                        return False
                    ok = any(at_top(n) or in_both(n) for n in asg[f])
            chk.ob(rid, "%s|%s" % (tag, f), ok,
                   "expression_t::%s does not copy the data member `%s` on every path" % (tag, f),
                   "%s:%s" % (fn["file"], fn["line"]), sample="%s copies %s" % (tag, f))
    eq = F.fn("UTAP::expression_t::equal")
    compared = set()
    for n in walk(eq["body"]):
        if n.get("k") == "member" and n.get("of") == ED:
            compared.add(n["name"])
    names = {c.get("name") for c in calls(eq["body"])}
    for f, why in (("kind", "kind"), ("value", "constant value"), ("symbol", "symbol")):
        chk.ob(rid, "equal|%s" % f, f in compared, "expression_t::equal does not compare the %s" % why,
               "%s:%s" % (eq["file"], eq["line"]))
    # the value comparison must reach every kind whose factory stores something in `value`
    stored = {}
    for fn in F.functions.values():
        if fn.get("cls") != "UTAP::expression_t" or not fn["name"].startswith("create"):
            continue
        sets = any(n.get("k") in ("bin", "call") and (n.get("op") == "=") and
                   any(m.get("k") == "member" and m.get("name") == "value" and m.get("of") == ED
                       for m in walk(n.get("lhs") or n.get("recv") or {}))
                   for n in walk(fn["body"]))
        if not sets:
            continue
        ks = set()
        for n in walk(fn["body"]):
            if n.get("k") == "construct" and (n.get("cls") or n.get("t") or "").endswith("expression_t") and n.get("args"):
                a = n["args"][0]
                if a.get("dk") == "enumerator":
                    ks.add(a["name"])
                elif a.get("dk") == "param":
                    ks.add("<kind parameter>")
        stored[fn["name"]] = ks
    val_kinds = {k for ks in stored.values() for k in ks if not k.startswith("<")}
    if len(val_kinds) < 3:
        raise AnalysisBroken("factories storing a node value: %s" % stored)

    def value_guard(n, guards):
        """yield the stack of enclosing kind-switch label sets for every comparison of `value`."""
        if isinstance(n, list):
            for x in n:
                yield from value_guard(x, guards)
            return
        if not isinstance(n, dict):
            return
        if n.get("k") == "member" and n.get("name") == "value" and n.get("of") == ED:
            yield list(guards)
            return
        if n.get("k") == "switch":
            labels, cur = [], []
            groups = []
            for st in (n.get("body") or {}).get("s", []):
                k = st.get("k")
                newl = []
                while k in ("case", "default"):
                    newl.append(st["v"].get("name") if k == "case" and isinstance(st.get("v"), dict) else "default")
                    st = st["s"]
                    k = st.get("k") if isinstance(st, dict) else None
                if newl:
                    cur = cur + newl if groups and not groups[-1][2] else newl
                    groups.append([cur, [], False])
                if groups and isinstance(st, dict):
                    groups[-1][1].append(st)
                    if k in ("break", "return"):
                        groups[-1][2] = True
                        cur = []
            for labs, stmts, _ in groups:
                yield from value_guard(stmts, guards + [("switch", tuple(labs))])
            return
        if n.get("k") == "if":
            yield from value_guard(n.get("c"), guards)
            yield from value_guard(n.get("then"), guards + [("if", short(n.get("c"))[:60])])
            yield from value_guard(n.get("else"), guards + [("if", "!" + short(n.get("c"))[:60])])
            return
        for v in n.values():
            if isinstance(v, (dict, list)):
                yield from value_guard(v, guards)
    uses = list(value_guard(eq["body"], []))
    if uses:
        covered, everything, opaque = set(), False, False
        for g in uses:
            if not g:
                everything = True
            elif all(x[0] == "switch" for x in g):
                labs = set(g[-1][1])
                if "default" in labs:
                    everything = True
                covered |= labs
            else:
                opaque = True
        missing = sorted(val_kinds - covered) if not everything else []
        if opaque and missing:
            raise AnalysisBroken("expression_t::equal compares the value under a condition this rule cannot read")
        chk.ob(rid, "equal|value|all-kinds", not missing,
               "expression_t::equal compares the node value only for %s; kinds %s also store a value (factories %s), so "
               "two such nodes that differ only in it compare equal although they print differently" %
               (sorted(covered), missing, sorted(k for k, v in stored.items() if v & set(missing))),
               "%s:%s" % (eq["file"], eq["line"]))
    chk.ob(rid, "equal|size", "get_size" in names, "expression_t::equal does not compare the number of children",
           "%s:%s" % (eq["file"], eq["line"]))
    loop = any(n.get("k") == "for" and any(c.get("name") == "equal" for c in calls(n["body"])) and
               any(x.get("k") == "return" and (x.get("e") or {}).get("v") is False for x in walk(n["body"]))
               for n in walk(eq["body"]))
    if not loop:
        # std::equal over the two child vectors with a predicate that calls equal()
        loc_init = {v.get("id"): v.get("init") for d in walk(eq["body"]) if d.get("k") == "decl"
                    for v in d.get("vars", []) if v.get("init") is not None}

        def over_children(a):
            t = short(a)
            for x in walk(a):
                if x.get("k") == "ref" and x.get("id") in loc_init:
                    t += " " + short(loc_init[x["id"]])
            return "begin" in t and "sub" in t
        for c in calls(eq["body"]):
            if c.get("name") == "equal" and c.get("ck") in ("free", None) and len(c.get("args", [])) >= 4:
                a = c["args"]
                lam = a[-1]
                while isinstance(lam, dict) and lam.get("k") in ("cast", "materialize"):
                    lam = lam["e"]
                if over_children(a[0]) and over_children(a[2]) and isinstance(lam, dict) and lam.get("k") == "lambda" and \
                        any(x.get("name") == "equal" and x.get("cls") == "UTAP::expression_t" for x in calls(lam.get("body"))):
                    loop = True
    chk.ob(rid, "equal|children", loop, "expression_t::equal does not compare every child recursively",
           "%s:%s" % (eq["file"], eq["line"]))
    # the unequal test returns false, the tail returns true, identical nodes are equal
    su = F.fn("UTAP::expression_t::subst")
    writes_this = []
    for n in walk(su["body"]):
        lhs = None
        if n.get("k") == "bin" and n.get("op") == "=":
            lhs = n["lhs"]
        elif n.get("k") == "call" and n.get("ck") == "op" and n.get("op") == "=":
            lhs = n.get("recv")
        if lhs is None:
            continue
        root = lhs
        while isinstance(root, dict) and root.get("k") in ("member", "call", "sub"):
            root = root.get("base") if root.get("k") in ("member", "sub") else root.get("recv")
        if not (isinstance(root, dict) and root.get("k") == "ref" and root.get("dk") == "local"):
            writes_this.append(short(lhs))
    # every local node object that subst writes through must be initialised by clone() of *this and nothing else: a
    # conditional initialiser (`unique ? *this : clone()`) makes the written node alias the original on some path
    written_locals = set()
    for n in walk(su["body"]):
        lhs = None
        if n.get("k") == "bin" and n.get("op") == "=":
            lhs = n["lhs"]
        elif n.get("k") == "call" and n.get("ck") == "op" and n.get("op") == "=":
            lhs = n.get("recv")
        root = lhs
        while isinstance(root, dict) and root.get("k") in ("member", "call", "sub"):
            root = root.get("base") if root.get("k") in ("member", "sub") else root.get("recv")
        if isinstance(root, dict) and root.get("k") == "ref" and root.get("dk") == "local" and root is not lhs:
            written_locals.add(root.get("id"))
    # a reference bound to a part of another local (`auto& operands = result.data->sub;`) is that local
    ref_alias = set()
    for _ in range(3):
        for n in walk(su["body"]):
            if n.get("k") != "decl":
                continue
            for v in n["vars"]:
                if v.get("id") in written_locals and v.get("id") not in ref_alias and "&" in (v.get("t") or "") and \
                        v.get("init") is not None:
                    root = v["init"]
                    while isinstance(root, dict) and root.get("k") in ("member", "call", "sub", "cast", "un", "paren"):
                        root = root.get("base") if root.get("k") in ("member", "sub") else \
                            (root.get("recv") if root.get("k") == "call" else root.get("e"))
                    if isinstance(root, dict) and root.get("k") == "ref" and root.get("dk") == "local":
                        written_locals.add(root.get("id"))
                        ref_alias.add(v.get("id"))
    cl, alias = False, []
    for n in walk(su["body"]):
        if n.get("k") != "decl":
            continue
        for v in n["vars"]:
            if v.get("id") not in written_locals or v.get("id") in ref_alias or "expression_t" not in (v.get("t") or ""):
                continue
            init = v.get("init") or {}
            while init.get("k") in ("cast", "defarg") or (init.get("k") == "construct" and len(init.get("args", [])) == 1):
                init = init["e"] if init.get("k") in ("cast", "defarg") else init["args"][0]
            if init.get("k") == "call" and init.get("name") == "clone" and (init.get("recv") is None or
                                                                          init["recv"].get("k") == "this"):
                cl = True
            else:
                alias.append("%s = %s" % (v["name"], short(init)[:60]))
    chk.ob(rid, "subst|fresh-clone", cl and not writes_this and not alias,
           "expression_t::subst writes through something other than a fresh clone() of *this (%s): the expression it is "
           "applied to is changed, or shares the rewritten node with the result" % (writes_this + alias),
           "%s:%s" % (su["file"], su["line"]))
    ident = False
    for n in walk(su["body"]):
        if n.get("k") == "if" and "IDENTIFIER" in short(n["c"]) and "get_symbol" in short(n["c"]):
            ident = any(x.get("k") == "return" and short(x.get("e")).endswith("expr") or
                        (x.get("k") == "return" and "expr" in short(x.get("e"))) for x in walk(n["then"]))
    chk.ob(rid, "subst|identifier", ident, "expression_t::subst does not replace IDENTIFIER nodes of the symbol",
           "%s:%s" % (su["file"], su["line"]))
    # `return *this` (nothing replaced) only for an empty node or a leaf: never depending on the replacement
    early_bad = []
    def chain(n):
        out = []
        while isinstance(n, dict) and n.get("k") == "if":
            out.append((n["c"], n["then"]))
            n = n.get("else")
        return out
    for st in su["body"].get("s", []):
        for cond, then in chain(st):
            returns_this = any(x.get("k") == "return" and (x.get("e") or {}).get("k") in ("un", "construct") and
                               "this" in short(x.get("e")) for x in walk(then))
            if not returns_this:
                continue
            for c in calls(cond):
                on_this = c.get("recv") is None or c["recv"].get("k") == "this"
                if not (on_this and c.get("name") in ("empty", "get_size")) and c.get("ck") != "op":
                    early_bad.append(short(cond)[:100])
            for x in walk(cond):
                if x.get("k") == "ref" and x.get("dk") == "param":
                    early_bad.append(short(cond)[:100])
    chk.ob(rid, "subst|unchanged-only-for-leaves", not early_bad,
           "expression_t::subst returns the node unchanged under a condition that depends on more than the node being "
           "empty or a leaf (%s): occurrences of the symbol below it are not replaced" % sorted(set(early_bad)),
           "%s:%s" % (su["file"], su["line"]))
    recs = any(c.get("name") == "subst" for n in walk(su["body"]) if n.get("k") == "for" for c in calls(n["body"]))
    chk.ob(rid, "subst|children", recs, "expression_t::subst does not recurse into every child",
           "%s:%s" % (su["file"], su["line"]))


# ---------------------------------------------------------------------------------------------- R-EMPTYOK
# The empty expression (no node) is a legal value of the API: subst, get_size, print, the collectors all start with an
# empty() test, and the library itself stores it as a child - the missing field of `rec_t r = {1};` is an empty child of
# the LIST that checkInitialiser keeps as the initialiser.  The cloning functions and equal() dereferenced `data` without
# the test (found by a defect-hunt sub-agent, E19-2: clone_deeper() and equal() crashed on that initialiser).
EMPTYOK_FAMILY = ("clone", "clone_deeper", "equal", "subst")


def run_emptyok(chk, F, rid="R-EMPTYOK"):
    from ..inline import sites_with_conditions, strip
    chk.rule(rid, "in expression_t::%s every access through `data` (of the node itself and of the other operand) is reached "
                  "only on paths on which an empty() test (or a null test of data) of that node has failed" %
             " / ".join(EMPTYOK_FAMILY))
    n = 0
    for name in EMPTYOK_FAMILY:
        fns = [f for f in F.fns("UTAP::expression_t::" + name) if f.get("body") is not None]
        if not fns:
            raise AnalysisBroken("expression_t::%s not found" % name)
        for fn in fns:
            def owner(x):
                """'this' / name of the expression whose data is dereferenced, for `data->m` and `e.data->m`"""
                if x.get("k") == "member" and x.get("arrow") and x.get("of", "").endswith("expression_data"):
                    b = x.get("base")
                elif x.get("k") == "call" and (x.get("cls") or "").endswith("expression_data") and x.get("recv") is not None:
                    b = x.get("recv")       # a member function of the node called through data: `data->clone_with(..)`
                else:
                    return None
                for y in walk(b):
                    if y.get("k") == "member" and y.get("name") == "data" and y.get("of") == "UTAP::expression_t":
                        bb = strip(y.get("base")) if y.get("base") is not None else None
                        if bb is None or bb.get("k") == "this" or y.get("arrow") and bb.get("k") == "this":
                            return "this"
                        if bb.get("k") == "ref" and bb.get("dk") == "param":
                            return short(bb)
                        return None       # a local built in the function (`expression_t{kind, pos}`): has a node
                return None
            for site, conds in sites_with_conditions(fn["body"], lambda x: owner(x) is not None):
                who = owner(site)
                n += 1

                def rules_out(c, t):
                    c = strip(c)
                    neg = False
                    while isinstance(c, dict) and c.get("k") == "un" and c.get("op") == "!":
                        c, neg = strip(c["e"]), not neg
                    if not isinstance(c, dict):
                        return False
                    if c.get("k") == "bin" and c.get("op") == "||" and (t != neg) is False:
                        # (A || B) false: both false
                        return rules_out(c["lhs"], neg) or rules_out(c["rhs"], neg)
                    if c.get("k") == "bin" and c.get("op") == "&&" and (t != neg) is True:
                        return rules_out(c["lhs"], not neg) or rules_out(c["rhs"], not neg)
                    if c.get("k") == "call" and c.get("name") == "empty" and c.get("cls") == "UTAP::expression_t":
                        r = strip(c.get("recv")) if c.get("recv") is not None else None
                        w = "this" if (r is None or r.get("k") == "this") else short(r)
                        return w == who and (t != neg) is False
                    return False
                ok = any(rules_out(c, t) for c, t in conds)
                chk.ob(rid, "%s/%d|%s|%s" % (name, len(fn.get("params", [])), who, site.get("name")), ok,
                       "%s reads %s->%s of %s without having ruled out the empty expression: an empty child (the missing "
                       "field of an incomplete initialiser is stored as one) makes it dereference a null pointer" %
                       (fn["q"], "data", site.get("name"), "the node" if who == "this" else "`%s`" % who),
                       "%s:%s" % (fn["file"], site.get("l")))
    if n < 8:
        raise AnalysisBroken("R-EMPTYOK: only %d accesses through data found" % n)


# ---------------------------------------------------------------------------------------------- R-EQTEXT
def run_eqtext(chk, F, rid="R-EQTEXT"):
    """`equal implies equal text`: equal() compares kind, value, symbol and children.  Where print() chooses the text of a
    node by the node's own type, two nodes that agree on all of those can still print differently - `1` and `true` are the
    CONSTANT 1 with type int / bool (E19-1), an initialiser list has braces that the list of a query has not."""
    from ..inline import KindSlicer, strip
    chk.rule(rid, "for every kind K whose clause in expression_t::print branches on the type of the node itself, "
                  "expression_t::equal has a test for kind K that compares a type-derived value of both operands and "
                  "answers false when they differ")
    pr = [f for f in F.fns("UTAP::expression_t::print") if f.get("body") is not None and len(f.get("params", [])) == 2]
    if not pr:
        raise AnalysisBroken("expression_t::print(os, old) not found")
    sl = KindSlicer(F, pr[0], subject="this")
    tab, _ = size_table(F)

    def own(e):
        e = strip(e) if e is not None else None
        return e is None or e.get("k") == "this" or (e.get("k") == "un" and e.get("op") == "*" and
                                                     strip(e["e"]).get("k") == "this")
    typed = {}
    for K in sorted(tab):
        try:
            body = sl.slice(K)
        except Exception:
            continue
        for n in walk(body):
            cs = []
            if n.get("k") in ("if", "cond"):
                cs.append(n["c"])
            elif n.get("k") == "decl":
                cs += [v["init"] for v in n.get("vars", []) if v.get("init") is not None and "bool" in (v.get("t") or "")]
            for c in cs:
                for x in calls(c):
                    if x.get("name") == "get_type" and x.get("cls") == "UTAP::expression_t" and own(x.get("recv")):
                        typed[K] = x.get("l")
    if "CONSTANT" not in typed:
        raise AnalysisBroken("R-EQTEXT: print's CONSTANT clause does not read the type of the node (reader out of date)")
    eq = F.fn("UTAP::expression_t::equal")
    from ..inline import expanded_fn
    eqx = expanded_fn(eq, F, accept=lambda t: bool(t.get("static")) and not t.get("cls"), maxdepth=2)
    # locals that stand for one of the two nodes: `const expression_data& lhs = *data; const auto& rhs = *e.data;`
    from ..inline import sites_with_conditions
    pname = eq["params"][0]["name"]
    side_of = {}
    for d in walk(eqx["body"]):
        if d.get("k") == "decl":
            for v in d.get("vars", []):
                if v.get("init") is not None and ("expression" in (v.get("ct") or v.get("t") or "")):
                    txt = short(v["init"])
                    side_of[v.get("id")] = "other" if any(y.get("k") == "ref" and y.get("dk") == "param" for y in walk(v["init"])) else "this"

    def side(x):
        """'this' / 'other' for a read of a node's type, else None"""
        if x.get("k") == "member" and x.get("name") == "type" and x.get("of", "").endswith("expression_data"):
            b_ = x.get("base")
            for y in walk(b_):
                if y.get("k") == "ref" and y.get("dk") == "param":
                    return "other"
                if y.get("k") == "ref" and y.get("dk") == "local" and y.get("id") in side_of:
                    return side_of[y["id"]]
            return "this"
        if x.get("k") == "call" and x.get("name") == "get_type" and x.get("cls") == "UTAP::expression_t":
            if own(x.get("recv")):
                return "this"
            for y in walk(x.get("recv")):
                if y.get("k") == "ref" and y.get("dk") == "local" and y.get("id") in side_of:
                    return side_of[y["id"]]
            return "other"
        return None

    def is_cmp_if(x):
        return x.get("k") == "if" and {side(y) for y in walk(x["c"])} >= {"this", "other"}
    cmp_sites = list(sites_with_conditions(eqx["body"], is_cmp_if))
    for K in sorted(typed):
        ok = False
        for n, conds in cmp_sites:
            c = n["c"]
            kind_test = any(x.get("dk") == "enumerator" and x.get("name") == K for x in walk(c)) or \
                any(isinstance(cc, dict) and cc.get("k") == "caseof" and t and
                    K in [(l_.get("name") if isinstance(l_, dict) else l_) for l_ in (cc.get("labels") or [])] for cc, t in conds)
            rets_false = any(r.get("k") == "return" and (strip(r.get("e")) or {}).get("v") is False for r in walk(n["then"]))
            if kind_test and rets_false:
                ok = True
        # ... and the type of the other node is asked only once the kinds are known to agree (a regression of my own
        # first repair, found by a round-7 agent: `constant.equal(list of a query)` asked the childless LIST type whether
        # it is an integer and crashed in type_t::is)
        for site, conds in sites_with_conditions(eqx["body"], lambda x: side(x) == "other"):
            def both_kinds(c, op):
                """a comparison `<this node's kind> op <the other node's kind>` somewhere in c"""
                for x in walk(c):
                    if x.get("k") == "bin" and x.get("op") == op and "kind" in short(x["lhs"]) and "kind" in short(x["rhs"]):
                        return True
                    if x.get("k") == "call" and x.get("ck") == "op" and x.get("op") == op and short(x).count("kind") >= 2:
                        return True
                return False
            agreed = any((not t) and isinstance(c, dict) and c.get("k") != "caseof" and both_kinds(c, "!=") for c, t in conds) or \
                any(t and isinstance(c, dict) and c.get("k") != "caseof" and both_kinds(c, "==") for c, t in conds)
            chk.ob(rid, "equal|type read after kinds agree", agreed,
                   "expression_t::equal reads the type of the other node (line %s) before it has established that the two "
                   "nodes have the same kind: the type of a node of another kind (the primitive LIST type of a query list) "
                   "is asked a question of a constant's type, and type_t::is descends into a child it does not have" %
                   site.get("l"), "%s:%s" % (eq["file"], site.get("l")), sample="the other node's type is read only after the kinds were compared")
        chk.ob(rid, "equal|%s" % K, ok,
               "expression_t::print chooses the text of a %s node by the type of the node (line %s), but expression_t::equal "
               "compares kind, value, symbol and children only: two %s nodes that differ in their type alone are equal and "
               "print differently (`1` and `true` are both the constant 1)" % (K, typed[K], K),
               "%s:%s" % (eq["file"], eq["line"]), sample="equal compares the type class of %s nodes" % K)


# ---------------------------------------------------------------------------------------------- R-EQORDER
def run_eqorder(chk, F, rid="R-EQORDER"):
    """`equal distinguishes trees that differ in operand order` and `implies equal text`: the children of the two nodes are
    compared position by position, and a positive answer is reached only through the identity shortcut or after all
    positions have been compared.  (Round 7: an `is_commutative(kind) && sub[0].equal(e[1]) && sub[1].equal(e[0])` shortcut
    made N + 1 equal to 1 + N.)"""
    from ..inline import expanded_fn, sites_with_conditions, strip
    chk.rule(rid, "in expression_t::equal every comparison of a child of the node with a child of the other operand pairs the "
                  "same position, and every `return true` is the identity shortcut (the two nodes are the same object) or "
                  "follows the loop over all positions")
    eq = F.fn("UTAP::expression_t::equal")
    fn = expanded_fn(eq, F, accept=lambda t: bool(t.get("static")) and not t.get("cls"), maxdepth=2)
    other = fn["params"][0]["name"]

    def child_index(e):
        """('this'|'other', index text) for data->sub[i] / get(i) / (*this)[i] / e[i] / e.get(i)"""
        e = strip(e)
        if not isinstance(e, dict) or e.get("k") != "call" or not e.get("args"):
            return None
        idx = short(strip(e["args"][-1]))
        if e.get("name") in ("get", "at"):
            r = strip(e.get("recv")) if e.get("recv") is not None else None
            who = "this" if (r is None or r.get("k") == "this" or "sub" in short(r) and other not in short(r)) else \
                ("other" if other in short(r) else None)
            return (who, idx) if who else None
        if e.get("ck") == "op" and e.get("op") == "[]":
            tgt = e.get("recv") if e.get("recv") is not None else e["args"][0]
            t = short(tgt)
            who = "other" if (other in t.replace("->", ".").split(".")[0] or t.startswith(other)) else \
                ("this" if ("sub" in t or "this" in t) else None)
            return (who, idx) if who else None
        return None
    n = 0
    for c in calls(fn["body"]):
        if c.get("name") == "equal" and len(c.get("args", [])) >= 3 and not (c.get("cls") or "").endswith("expression_t"):
            # std::equal(first, last, first2, pred): walks both operand vectors in step - the same position on both sides
            txt = short(c)
            srcs = {}
            for d_ in walk(fn["body"]):
                if d_.get("k") == "decl":
                    for v_ in d_.get("vars", []):
                        if v_.get("init") is not None:
                            srcs[v_.get("id")] = short(v_["init"])
            def origin(a_, depth=0):
                t_ = short(a_)
                for y_ in walk(a_):
                    if y_.get("k") == "ref" and y_.get("dk") == "local" and y_.get("id") in srcs and depth < 3:
                        t_ += " " + srcs[y_["id"]]
                        for d_ in walk(fn["body"]):
                            if d_.get("k") == "decl":
                                for v_ in d_.get("vars", []):
                                    if v_.get("id") == y_.get("id") and v_.get("init") is not None:
                                        t_ += " " + origin(v_["init"], depth + 1)
                return t_
            o1, o3 = origin(c["args"][0]), origin(c["args"][2])
            import re as _re
            has_other = lambda t_: bool(_re.search(r"(?<![A-Za-z0-9_])%s(?![A-Za-z0-9_])" % _re.escape(other), t_))
            both = "sub" in o1 and "sub" in o3 and has_other(o3) != has_other(o1)
            lam = [x for x in walk(c["args"][-1]) if x.get("k") == "lambda"]
            pred_ok = bool(lam) and any(y.get("name") == "equal" for y in calls(lam[0].get("body")))
            n += 1
            chk.ob(rid, "children|std::equal", both and pred_ok,
                   "expression_t::equal compares the operand vectors with std::equal, but not the two nodes' own operands "
                   "with expression_t::equal as the predicate (`%s`)" % txt[:80], "%s:%s" % (fn["file"], c.get("l")),
                   sample="std::equal over both operand vectors: position i against position i")
            continue
        if c.get("name") != "equal" or not c.get("args"):
            continue
        a = child_index(c.get("recv"))
        b = child_index(c["args"][0])
        if a is None or b is None:
            continue
        n += 1
        ok = {a[0], b[0]} == {"this", "other"} and a[1] == b[1]
        chk.ob(rid, "children|%s~%s" % (a[1], b[1]), ok,
               "expression_t::equal compares child %s of one node with child %s of the other (`%s`): trees that differ in "
               "the order of their operands become equal although they print differently" % (a[1], b[1], short(c)[:60]),
               "%s:%s" % (fn["file"], c.get("l")), sample="child %s compared with child %s" % (a[1], b[1]))
    if n < 1:
        raise AnalysisBroken("R-EQORDER: no comparison of children found in expression_t::equal")
    # positive exits
    top = fn["body"].get("s", [])
    last = top[-1] if top else {}
    if last.get("k") == "return" and any(c.get("name") == "equal" and len(c.get("args", [])) >= 3 for c in calls(last)):
        chk.ob(rid, "return true@end", True, "", "%s:%s" % (fn["file"], last.get("l")),
               sample="the final answer is the result of std::equal over the operands")
    for site, conds in sites_with_conditions(fn["body"], lambda x: x.get("k") == "return" and
                                             (strip(x.get("e")) or {}).get("k") == "bool" and strip(x["e"]).get("v") is True):
        if site is last or any(site is x for x in walk(last)) and last.get("k") == "return":
            loops = [s_ for s_ in top if s_.get("k") in ("for", "rangefor", "while")]
            ok = bool(loops)
            why = "the final return follows the loop over the children"
        else:
            # identity shortcut: the only condition that licenses it is `data == e.data` (true)
            lic = [short(c) for c, t in conds if t and "data" in short(c) and "==" in short(c) and "sub" not in short(c)
                   and "kind" not in short(c)]
            ok = bool(lic) and not any(x.get("name") == "equal" for c, t in conds if t for x in calls(c))
            why = "identity shortcut"
        chk.ob(rid, "return true@%s" % ("end" if site is last else "shortcut"), ok,
               "expression_t::equal answers true on a path that is neither the identity of the two nodes nor the end of the "
               "position-by-position comparison (conditions: %s)" % "; ".join(short(c)[:50] for c, t in conds if t),
               "%s:%s" % (fn["file"], site.get("l")), sample=why)


# ---------------------------------------------------------------------------------------------- R-CLONESYM
def run_clonesym(chk, F, rid="R-CLONESYM"):
    """clone_deeper(frame, select) rebinds every symbol to the symbol of the same name in the given frames.  A variable
    bound inside the expression - the binder of a forall and its uses - lives in a scope that was popped when the quantifier
    ended; it cannot be found there.  Storing the (default constructed) lookup result regardless made the clone differ from
    the original and unprintable (found by a defect-hunt sub-agent, E19-3; the assert(res) before it is compiled out)."""
    from ..inline import sites_with_conditions, strip
    chk.rule(rid, "in expression_t::clone_deeper(frame_t, frame_t) the symbol of the clone is the looked-up one only where the "
                  "lookup succeeded (a path condition or a conditional expression on the result of resolve); otherwise it is "
                  "the original symbol")
    fns = [f for f in F.fns("UTAP::expression_t::clone_deeper") if f.get("body") is not None and len(f.get("params", [])) == 2 and
           "frame_t" in (f["params"][0].get("ct") or f["params"][0].get("t") or "")]
    if not fns:
        raise AnalysisBroken("expression_t::clone_deeper(frame_t, frame_t) not found")
    fn = inline_tail_delegate(fns[0], F)
    res_locals, out_locals = set(), set()
    for x in walk(fn["body"]):
        for c in ([x] if x.get("k") == "call" else []):
            if c.get("name") == "resolve" and len(c.get("args", [])) == 2:
                a = strip(c["args"][1])
                if isinstance(a, dict) and a.get("k") == "ref":
                    out_locals.add(a.get("id"))
        if x.get("k") == "decl":
            for v in x.get("vars", []):
                if v.get("init") is not None and any(c.get("name") == "resolve" for c in calls(v["init"])):
                    res_locals.add(v.get("id"))

    def is_store(x):
        if x.get("k") == "bin" and x.get("op") == "=":
            l = strip(x["lhs"])
            return isinstance(l, dict) and l.get("k") == "member" and l.get("name") == "symbol"
        if x.get("k") == "call" and x.get("ck") == "op" and x.get("op") == "=" and x.get("recv") is not None:
            l = strip(x["recv"])
            return isinstance(l, dict) and l.get("k") == "member" and l.get("name") == "symbol"
        if x.get("k") == "return" and x.get("e") is not None and fn is not fns[0]:
            return False
        return False
    n = 0
    for site, conds in sites_with_conditions(fn["body"], is_store):
        rhs = site.get("rhs") if site.get("k") == "bin" else (site.get("args") or [None])[0]
        r = strip(rhs) if rhs is not None else {}
        uses_out = any(y.get("k") == "ref" and y.get("id") in out_locals for y in walk(rhs))
        if not uses_out:
            continue
        if any(y.get("k") == "lambda" for y in walk(rhs)):
            continue        # the lookup lives in a lambda handed to a shared worker: judged by its returns below
        n += 1
        guarded = any(t and any(y.get("k") == "ref" and y.get("id") in res_locals for y in walk(c)) and "!" not in short(c)[:2]
                      for c, t in conds if isinstance(c, dict) and c.get("k") != "caseof")
        conditional = isinstance(r, dict) and r.get("k") == "cond" and \
            any(y.get("k") == "ref" and y.get("id") in res_locals for y in walk(r["c"]))
        chk.ob(rid, "clone_deeper/2|symbol", guarded or conditional,
               "expression_t::clone_deeper(frame, select) stores the result of the lookup as the symbol of the clone whether "
               "the name was found or not (`%s`): the variables bound inside the expression come back with the null symbol, "
               "the clone is not equal to the original and cannot be printed" % short(site)[:70],
               "%s:%s" % (fn["file"], site.get("l")), sample="the looked-up symbol is stored only where resolve succeeded")
    if n < 1:
        # the lookup may live in a lambda handed to a shared worker (`rebound`): judge its returns
        for lam in [x for x in walk(fns[0]["body"]) if x.get("k") == "lambda"]:
            if not any(c.get("name") == "resolve" for c in calls(lam.get("body"))):
                continue
            rl = set()
            ol = set()
            for x in walk(lam["body"]):
                if x.get("k") == "decl":
                    for v in x.get("vars", []):
                        if v.get("init") is not None and any(c.get("name") == "resolve" for c in calls(v["init"])):
                            rl.add(v.get("id"))
                if x.get("k") == "call" and x.get("name") == "resolve" and len(x.get("args", [])) == 2:
                    a = strip(x["args"][1])
                    if isinstance(a, dict) and a.get("k") == "ref":
                        ol.add(a.get("id"))
            ok = True
            for site, conds in sites_with_conditions(lam["body"], lambda x: x.get("k") == "return" and x.get("e") is not None):
                e = strip(site["e"])
                while isinstance(e, dict) and e.get("k") == "construct" and len(e.get("args", [])) == 1:
                    e = strip(e["args"][0])
                if not any(y.get("k") == "ref" and y.get("id") in ol for y in walk(e)):
                    continue
                # before the lookup the out variable is still the empty symbol it was declared as (`if (s == uid) return uid;`)
                before = not any((c.get("l") or 0) < (site.get("l") or 0) for c in calls(lam["body"]) if c.get("name") == "resolve")
                cond_ok = isinstance(e, dict) and e.get("k") == "cond" and any(y.get("k") == "ref" and y.get("id") in rl for y in walk(e["c"]))
                path_ok = any(t and any(y.get("k") == "ref" and y.get("id") in rl for y in walk(c)) for c, t in conds
                              if isinstance(c, dict) and c.get("k") != "caseof")
                ok = ok and (before or cond_ok or path_ok)
            n += 1
            chk.ob(rid, "clone_deeper/2|symbol", ok, "the symbol mapping of clone_deeper(frame, select) returns the lookup "
                   "result regardless of whether the name was found", "%s:%s" % (fns[0]["file"], lam.get("l")),
                   sample="symbol mapping lambda decides on the result of resolve")
    if n < 1:
        raise AnalysisBroken("R-CLONESYM: the store of the looked-up symbol was not found")


# ---------------------------------------------------------------------------------------------- R-DEEPCLONE
def run_deepclone(chk, F, rid="R-DEEPCLONE"):
    """`a deep clone shares no node with e`: every overload of clone_deeper builds each operand of the copy by a recursive
    clone_deeper; the shallow clone() - which shares the operands with the original - is no shortcut for it (round 8: an
    `if (from == to) return clone();` in clone_deeper(from, to) made later changes to the clone change the original)."""
    from ..inline import strip
    chk.rule(rid, "no overload of expression_t::clone_deeper returns (or builds its result from) the shallow clone() of the "
                  "node, and each one recurses into clone_deeper for the operands")
    fns = [f for f in F.fns("UTAP::expression_t::clone_deeper") if f.get("body") is not None]
    if len(fns) < 3:
        raise AnalysisBroken("clone_deeper overloads: %d found" % len(fns))
    for fn0 in fns:
        tag = "clone_deeper/%d" % len(fn0.get("params", []))
        fn = inline_tail_delegate(fn0, F)
        shallow = [c for c in calls(fn0["body"]) if c.get("name") == "clone" and c.get("cls") == "UTAP::expression_t" and
                   (c.get("recv") is None or strip(c["recv"]).get("k") == "this")]
        rec = any(c.get("name") == "clone_deeper" for c in calls(fn["body"]))
        chk.ob(rid, tag, not shallow and rec,
               "expression_t::%s %s: the operands of the result are the operands of the original, so a later change to either "
               "is seen through the other" % (tag, "takes the shallow clone() of the node (line %s)" % shallow[0].get("l")
                                              if shallow else "does not clone the operands recursively"),
               "%s:%s" % (fn0["file"], (shallow[0].get("l") if shallow else fn0["line"])),
               sample="%s copies every operand with clone_deeper" % tag)
