"""C17 R-COVER: the feature detectors are complete over what the type checker admits.

What can occur inside an accepted guard / invariant comes from C10's decision table: relational atoms
LT LE GE GT EQ over clocks and numbers, joined by AND, OR (with a clock-free side) and FORALL.  For each
such kind the detector must test the atom (for floating point) or reach the children.
"""
from ..front import AnalysisBroken
from ..facts import walk, calls, short
from .effects import switch_cases, write_kinds
from ..inline import KindSlicer

ATOMS = ["LT", "LE", "GE", "GT", "EQ"]
CONNECTIVES = ["AND", "OR", "FORALL"]
FC = "UTAP::FeatureChecker"


def case_labels_with(fn, pred):
    """Labels of the switch cases of fn whose statements satisfy pred(block)."""
    out = set()
    try:
        groups = switch_cases(fn)
    except AnalysisBroken:
        return out, []
    for labels, stmts in groups:
        if pred({"k": "block", "s": stmts}):
            out.update(labels)
    return out, groups


def reaches_children(fn, body):
    """Does the code recurse into sub-expressions (a call to itself / a visit method on get(i) / a recursive
    predicate such as uses_fp applied to the whole expression does not count here)?"""
    for c in calls(body):
        if c.get("name") in (fn["name"],) and c.get("args") and ("get(" in short(c["args"][0]) or "[" in short(c["args"][0])):
            return True
    return False


def run(chk, F, G_):
    rid = "R-COVER"
    chk.rule(rid, "FeatureChecker: every relational atom kind admitted in guards/invariants is tested for floating "
                  "point in both operands; every admitted connective is descended; invariants are inspected like "
                  "guards; every write kind and every element of an update list is inspected; channel declarations "
                  "of every scope are visited; dynamic templates, priorities and is_instantiated are honoured")
    F.record(FC)
    vg = F.fn(FC + "::visitGuard")

    def child_idx(e):
        while isinstance(e, dict) and (e.get("k") == "cast" or (e.get("k") == "construct" and len(e.get("args", [])) == 1)):
            e = e["e"] if e.get("k") == "cast" else e["args"][0]
        if isinstance(e, dict) and e.get("k") == "call" and e.get("name") == "get" and e.get("args"):
            a = e["args"][0]
            if a.get("k") == "int":
                return a["v"]
            return "loop"
        return None

    def fp_tested_children(body, depth=0):
        """Child indices of the guard whose floating-point use is tested, directly or through a helper."""
        out = set()
        for c in calls(body):
            if c.get("name") == "uses_fp" and c.get("recv") is not None:
                i = child_idx(c["recv"])
                if i == "loop":
                    out |= {0, 1}
                elif i is not None:
                    out.add(i)
            elif depth < 3 and c.get("fn") and (c.get("cls") == FC or c.get("ck") == "free"):
                tgt = F.fns(c["fn"])
                tgt = [t for t in tgt if len(t["params"]) == len(c.get("args", []))]
                if not tgt:
                    continue
                for k, a in enumerate(c.get("args", [])):
                    i = child_idx(a)
                    if i is None:
                        continue
                    pname = tgt[0]["params"][k]["name"]
                    for cc in calls(tgt[0]["body"], "uses_fp"):
                        r = cc.get("recv") or {}
                        if r.get("k") == "ref" and r.get("name") == pname:
                            out |= ({0, 1} if i == "loop" else {i})
        return out

    # what visitGuard does *for each kind*: switch cases, if-chains, kind predicates, early returns and helpers
    # (file-local functions, lambdas) are followed by the slicer
    stop = ("visitGuard", "visitAssignment", "visitLocation", "visitEdge", "isRateDisallowedInSymbolic")
    vgs = KindSlicer(F, vg, stop=stop)
    tested = set()
    both = True
    for k in ATOMS:
        t = fp_tested_children(vgs.slice(k))
        if t:
            tested.add(k)
            if t != {0, 1}:
                both = False
    for k in ATOMS:
        chk.ob(rid, "guard-atom|%s" % k, k in tested,
               "FeatureChecker::visitGuard does not test %s comparisons for floating-point operands: a guard like "
               "`x %s 1.5` leaves symbolic analysis reported as supported" %
               (k, {"LT": "<", "LE": "<=", "GE": ">=", "GT": ">", "EQ": "=="}[k]),
               "%s:%s" % (vg["file"], vg["line"]))
    chk.ob(rid, "guard-atom|both-operands", both and bool(tested),
           "visitGuard tests only one operand of a comparison for floating point: `1.5 < x` (bound on the left) leaves "
           "symbolic analysis reported as supported", "%s:%s" % (vg["file"], vg["line"]))
    descended = {k for k in CONNECTIVES if reaches_children(vg, vgs.slice(k))}
    for k in CONNECTIVES:
        chk.ob(rid, "guard-connective|%s" % k, k in descended,
               "FeatureChecker::visitGuard does not descend into %s: a floating-point comparison in one conjunct "
               "(`x < 1.5 && i == 0`) is not seen" % k, "%s:%s" % (vg["file"], vg["line"]))
    # invariants
    vl = F.fn(FC + "::visitLocation")
    inv_fp = any(c.get("name") in ("visitGuard", "uses_fp") for c in calls(vl["body"]))
    chk.ob(rid, "invariant|fp-comparison", inv_fp,
           "FeatureChecker::visitLocation inspects invariants only for clock rates: `x <= 1.5` as an invariant "
           "leaves symbolic analysis reported as supported", "%s:%s" % (vl["file"], vl["line"]))
    rate = any(c.get("name") == "isRateDisallowedInSymbolic" for c in calls(vl["body"]))
    chk.ob(rid, "invariant|rates", rate, "visitLocation does not inspect clock rates", "%s:%s" % (vl["file"], vl["line"]))
    # the rate check must be reached for every non-empty invariant: an exemption (hybrid clocks) belongs to the
    # single rate atom, not to the invariant as a whole (`h' == 3 && x' == 2`)
    early = []
    body = vl["body"].get("s", []) if vl["body"].get("k") == "block" else []
    for st in body:
        if any(c.get("name") == "isRateDisallowedInSymbolic" for c in calls(st)):
            break
        if st.get("k") == "if" and any(x.get("k") == "return" for x in walk(st.get("then"))):
            cond = st["c"]
            atoms = []

            def split(e):
                if e.get("k") == "bin" and e.get("op") == "||":
                    split(e["lhs"])
                    split(e["rhs"])
                else:
                    atoms.append(e)
            split(cond)
            for a in atoms:
                if not (a.get("k") == "call" and a.get("name") == "empty"):
                    early.append(short(a)[:60])
    chk.ob(rid, "invariant|rates|no-early-exit", rate and not early,
           "FeatureChecker::visitLocation returns before the rate check when `%s` holds for the invariant as a whole: "
           "a rate of an ordinary clock in the same invariant (`h' == 3 && x' == 2`) is never looked at and symbolic "
           "analysis stays reported as supported" % "`, `".join(early), "%s:%s" % (vl["file"], vl["line"]))
    rd = F.fn(FC + "::isRateDisallowedInSymbolic")
    rec_and = reaches_children(rd, KindSlicer(F, rd, stop=stop).slice("AND"))
    chk.ob(rid, "invariant|rates-under-AND", rec_and, "isRateDisallowedInSymbolic does not descend into conjunctions",
           "%s:%s" % (rd["file"], rd["line"]))
    # assignments
    va = F.fn(FC + "::visitAssignment")
    akinds, incdec = write_kinds(F, G_)
    vas = KindSlicer(F, va, stop=stop)
    handled = {k for k in sorted(akinds | {"ASSIGN"}) if any(c.get("name") == "uses_fp" for c in calls(vas.slice(k)))}
    # only plain assignment can carry a floating-point value: the type checker demands integral operands for every
    # compound assignment and for ++/-- (checked by C12's R-WRITEKINDS table), so those kinds are not armed here
    chk.ob(rid, "update|ASSIGN", "ASSIGN" in handled,
           "FeatureChecker::visitAssignment does not test assignments for floating-point values",
           "%s:%s" % (va["file"], va["line"]))
    ignored = sorted(k for k in akinds if k not in handled and k != "ASSIGN")
    if ignored:
        chk.note("visitAssignment ignores the compound assignments %s: `i += (d < 1.5)` keeps symbolic=true while "
                 "`i = i + (d < 1.5)` does not; not armed - the assigned value itself is integral" % ignored)
    cb = vas.slice("COMMA")
    comma = any(n.get("k") in ("for", "rangefor", "while") and reaches_children(va, n.get("body") or {}) for n in walk(cb))
    chk.ob(rid, "update|COMMA-all-elements", comma,
           "visitAssignment does not inspect every element of an update list", "%s:%s" % (va["file"], va["line"]))
    ve = F.fn(FC + "::visitEdge")
    names = {c.get("name") for c in calls(ve["body"])}
    chk.ob(rid, "edge|guard-and-update", {"visitGuard", "visitAssignment"} <= names,
           "visitEdge does not inspect both guard and update", "%s:%s" % (ve["file"], ve["line"]))
    # scope coverage of the declaration tests (clock initialisers, channels).  The tests may live in any method; what
    # matters is *for which scopes* the method runs: DocumentVisitor overrides that Document::accept dispatches for the
    # global declarations and for the locals of every (instantiated) template, or an explicit call with a scope
    ctor = F.fn(FC + "::FeatureChecker")
    DISPATCHED = ("visitVariable", "visitFunction", "visitLocation", "visitEdge", "visitInstance", "visitProcess",
                  "visitTemplateBefore", "visitTemplateAfter")

    def scopes_of(fn, seen=()):
        """{'global', 'template'}: scopes whose declarations method fn is applied to."""
        if fn["name"] in DISPATCHED:
            return {"global", "template"}       # Document::accept calls these for every scope it visits
        out = set()
        for g in F.functions.values():
            if g.get("cls") != FC or g["q"] in seen:
                continue
            for c in calls(g["body"], fn["name"]):
                a = short(c["args"][0]) if c.get("args") else ""
                if "get_globals" in a:
                    out.add("global")
                elif g["name"] in ("visitTemplateBefore", "visitTemplateAfter") or "templ" in a:
                    out.add("template")
                else:
                    out |= scopes_of(g, seen + (fn["q"],))
        return out

    def methods_with(pred):
        """methods with a test whose path condition (own condition and the enclosing ones) satisfies pred"""
        out = []

        def visit(n, conds):
            if isinstance(n, list):
                return any(visit(x, conds) for x in n)
            if not isinstance(n, dict):
                return False
            if n.get("k") == "if":
                c = conds + [short(n["c"])]
                if pred(" && ".join(c)):
                    return True
                return visit(n.get("then"), c) or visit(n.get("else"), conds + ["!(" + short(n["c"]) + ")"])
            return any(visit(v, conds) for v in n.values() if isinstance(v, (dict, list)))
        for fn in F.functions.values():
            if fn.get("cls") == FC and visit(fn["body"], []):
                out.append(fn)
        return out
    chan = methods_with(lambda c: "is_channel" in c and "BROADCAST" in c)
    chk.ob(rid, "channels|non-broadcast", bool(chan), "FeatureChecker never tests channels for the broadcast prefix",
           "%s:%s" % (ctor["file"], ctor["line"]))
    cs = set()
    for fn in chan:
        cs |= scopes_of(fn)
    chk.ob(rid, "channels|global-scope", "global" in cs, "the channel test is not applied to the global declarations",
           "%s:%s" % (ctor["file"], ctor["line"]))
    chk.ob(rid, "channels|template-scope", "template" in cs,
           "FeatureChecker visits channel declarations of the global scope only: a non-broadcast channel declared "
           "locally in an instantiated template leaves stochastic analysis reported as supported",
           "%s:%s" % (ctor["file"], ctor["line"]))
    clk = methods_with(lambda c: "is_clock" in c and "uses_fp" in c)
    chk.ob(rid, "variables|clock-initialiser", bool(clk), "FeatureChecker never tests clock initialisers for floating point",
           "%s:%s" % (ctor["file"], ctor["line"]))
    ks = set()
    for fn in clk:
        ks |= scopes_of(fn)
    chk.ob(rid, "variables|clock-initialiser|global-scope", "global" in ks,
           "the clock-initialiser test is not applied to the global declarations", "%s:%s" % (ctor["file"], ctor["line"]))
    chk.ob(rid, "variables|clock-initialiser|template-scope", "template" in ks,
           "the clock-initialiser test runs for the global declarations only: `clock c = 2.5;` declared locally in an "
           "instantiated template leaves symbolic analysis reported as supported",
           "%s:%s" % (clk[0]["file"] if clk else ctor["file"], clk[0]["line"] if clk else ctor["line"]))
    # Document::accept really dispatches visitVariable for template locals
    vt_ = [f for f in F.functions.values() if f["q"].endswith("visitTemplate") and (f.get("file") or "").endswith("document.cpp")]
    def reaches_visit_variable(f, depth=0, seen=None):
        """visitTemplate calls visitVariable for the template's frame - itself, or through file-local helpers that it calls
        or hands over as function pointers (`visitSymbols(visitor, t.frame, &visitDeclaration)`)"""
        seen = seen if seen is not None else set()
        if f["q"] in seen or depth > 3:
            return False
        seen.add(f["q"])
        if any(c.get("name") == "visitVariable" for c in calls(f["body"])):
            return True
        nxt = set()
        for c in calls(f["body"]):
            if c.get("fn"):
                nxt.add(c["fn"])
            for a in c.get("args", []):
                for x in walk(a):
                    if x.get("k") == "ref" and x.get("dk") == "func":
                        nxt.add(x.get("q") or x.get("name"))
        for q in nxt:
            for t in F.fns(q):
                if t.get("body") is not None and (t.get("file") or "").endswith("document.cpp") and \
                        reaches_visit_variable(t, depth + 1, seen):
                    return True
        return False
    disp = any(reaches_visit_variable(f) for f in vt_)
    chk.ob(rid, "variables|dispatch", disp, "Document::accept does not visit the variables of templates",
           "src/document.cpp")
    # document flags
    flags = {}
    for n in walk(ctor["body"]):
        if n.get("k") == "if":
            c = short(n["c"])
            assigned = []
            for x in walk(n["then"]):
                if x.get("k") == "bin" and x.get("op") == "=" and x["lhs"].get("k") == "member" and \
                        (x["rhs"].get("v") is False):
                    assigned.append(x["lhs"]["name"])
            flags[c] = assigned
    dyn = [v for c, v in flags.items() if "has_dynamic_templates" in c]
    pri = [v for c, v in flags.items() if "has_priority_declaration" in c]
    chk.ob(rid, "flags|dynamic-templates", bool(dyn) and "symbolic" in dyn[0],
           "dynamic templates do not disable symbolic analysis", "%s:%s" % (ctor["file"], ctor["line"]))
    chk.ob(rid, "flags|priorities", bool(pri) and {"stochastic", "concrete"} <= set(pri[0]),
           "priorities do not disable stochastic analysis and concrete simulation", "%s:%s" % (ctor["file"], ctor["line"]))
    vt = F.fn(FC + "::visitTemplateBefore")
    rets = [n for n in walk(vt["body"]) if n.get("k") == "return"]
    ok = len(rets) == 1 and (rets[0].get("e") or {}).get("k") == "member" and rets[0]["e"].get("name") == "is_instantiated"
    chk.ob(rid, "templates|is_instantiated", ok, "visitTemplateBefore is not `return templ.is_instantiated`",
           "%s:%s" % (vt["file"], vt["line"]))
    # is_instantiated is what makes a template visible to the detectors: whoever puts a process on the system line must
    # mark its template, on every path that adds the process (fully bound or a process set with free parameters)
    from ..inline import expanded_fn, path_states
    adders = [f for f in F.functions.values() if f.get("body") is not None and not (f.get("file") or "").startswith("/usr")
              and any(c.get("name") == "add_process" and (c.get("fn") or "").endswith("Document::add_process")
                      for c in calls(f["body"]))]
    ap = F.fns("UTAP::Document::add_process")
    if not adders or not ap:
        raise AnalysisBroken("no caller of Document::add_process found")

    def into_add_process(c):
        if c.get("name") == "add_process" and (c.get("fn") or "").endswith("Document::add_process"):
            return ap[0]
        return False if c.get("fn") and not (c.get("fn") or "").startswith("UTAP::Document") else None
    for f in adders:
        x = expanded_fn(f, F, resolve=into_add_process, maxdepth=2)

        def mark(e):
            bits = []
            for n in walk(e):
                if n.get("k") == "call" and n.get("name") in ("emplace_back", "push_back") and \
                        "processes" in short(n.get("recv")):
                    bits.append("ADDED")
                if n.get("k") == "bin" and n.get("op") == "=" and n["lhs"].get("k") == "member" and \
                        n["lhs"].get("name") == "is_instantiated" and n["rhs"].get("v") is True:
                    bits.append("MARKED")
            return bits
        ft, ex = path_states(x["body"], mark)
        ends = list(ft) + [st for _, st in ex]
        if not any("ADDED" in st for st in ends):
            raise AnalysisBroken("%s: no path appends to Document::processes" % f["q"])
        chk.ob(rid, "templates|marked-when-instantiated|%s" % f["name"], all("MARKED" in st for st in ends if "ADDED" in st),
               "%s (with Document::add_process) adds a process to the system on a path that does not set its template's "
               "is_instantiated flag: FeatureChecker::visitTemplateBefore then skips the template, and whatever it "
               "contains (floating-point guards, clock rates, local non-broadcast channels) is not seen" % f["q"],
               "%s:%s" % (f["file"], f["line"]))
    # the flags only ever go from true to false (order independence)
    sets_true = []
    for fn in F.functions.values():
        if fn.get("cls") == FC:
            for x in walk(fn["body"]):
                if x.get("k") == "bin" and x.get("op") == "=" and x["lhs"].get("k") == "member" and \
                        x["lhs"].get("name") in ("symbolic", "stochastic", "concrete") and x["rhs"].get("v") is not False:
                    sets_true.append(fn["name"])
    chk.ob(rid, "monotone", not sets_true,
           "a supported-method flag is assigned something other than false in %s: the verdict depends on visiting "
           "order" % sets_true, "src/featurechecker.cpp")


# get_value() sites whose guard is not a test on the path, confirmed by reading: (function, receiver) -> reason
VALUEKIND_EXEMPT = {
    ("checkExpression", "expr[0]"): "reached only with ok == true after `ok &= checkNrOfRuns(expr[0])`, and checkNrOfRuns "
                                    "requires is_const_integer (re-checked: R-VALUEKIND:exempt|checkNrOfRuns)",
    ("checkUntilCond", "untilCond"): "under `untilCond.get_kind() == BOOL`, which compares an expression kind with a type "
                                     "kind and is never true (dead code)",
}


def run_valuekind(chk, F, rid="R-VALUEKIND", classes=(FC,)):
    """expression_t::get_value() is std::get<int32_t> on the node's value: it throws for a constant that holds a double
    (`x' == 1.5`) and is meaningless for a node that is no constant.  In the feature checker every get_value() must be
    reached only for an integer constant."""
    from ..inline import sites_with_conditions, strip, flatten_conds
    chk.rule(rid, "every expression_t::get_value() in %s is reached only on a path that has established, for the same "
                  "expression, kind == CONSTANT and an integral (non-double) type (directly, or with is_const_integer)" %
             ", ".join(c.split("::")[-1] for c in classes))
    n = 0
    used = set()
    for fn in F.functions.values():
        if fn.get("cls") not in classes or fn.get("body") is None:
            continue
        for site, conds in sites_with_conditions(fn["body"], lambda x: x.get("k") == "call" and x.get("name") == "get_value"
                                                 and x.get("cls") == "UTAP::expression_t" and x.get("recv") is not None):
            r = short(site["recv"])
            is_const = is_int = False
            for z, t in flatten_conds(conds):
                txt = short(z)
                if z.get("k") == "bin" and z.get("op") in ("==", "!=") and r + ".get_kind()" in txt and "CONSTANT" in txt:
                    if (z["op"] == "==") == t:
                        is_const = True
                if z.get("k") == "call" and z.get("name") == "is_const_integer" and z.get("args") and \
                        r in short(z["args"][0]) and t:
                    is_const = is_int = True
                if z.get("k") == "call" and z.get("name") in ("is_double", "is_integral", "is_integer") and \
                        r + ".get_type()" in short(z.get("recv")):
                    if (z["name"] == "is_double") != t:
                        is_int = True
            n += 1
            if not (is_const and is_int) and (fn["name"], r) in VALUEKIND_EXEMPT:
                used.add((fn["name"], r))
                chk.ob(rid, "%s|%s|listed" % (fn["name"], r), True, "", "%s:%s" % (fn["file"], site.get("l")),
                       sample="%s: %s.get_value() - listed: %s" % (fn["name"], r, VALUEKIND_EXEMPT[(fn["name"], r)][:60]))
                continue
            chk.ob(rid, "%s|%s" % (fn["name"], r), is_const and is_int,
                   "%s calls %s.get_value() %s: for a constant that holds a double (`x' == 1.5`, an update label `1.5`) "
                   "std::get<int32_t> throws std::bad_variant_access - no verdict, no diagnostic, and the rest of the "
                   "document is not checked" %
                   (fn["q"], r, "without having established that it is an integer constant" if is_const else
                    "without having established that it is a constant"), "%s:%s" % (fn["file"], site.get("l")))
    if n < 1:
        raise AnalysisBroken("no get_value() call found in %s" % (classes,))
    if ("checkExpression", "expr[0]") in used:
        cn = [f for f in F.functions.values() if f.get("name") == "checkNrOfRuns" and f.get("body") is not None]
        ok = bool(cn) and any(c.get("name") == "is_const_integer" for c in calls(cn[0]["body"]))
        chk.ob(rid, "exempt|checkNrOfRuns", ok, "checkNrOfRuns no longer requires a constant integer, but "
               "checkExpression reads expr[0].get_value() after it", "src/typechecker.cpp")


# ---------------------------------------------------------------------------------------------- R-STICKYERR
def run_stickyerr(chk, F, rid="R-STICKYERR"):
    """The type checker visits the blocks of a document one after the other with one object.  A diagnostic whose
    innermost guard reads nothing but members of that object (`if (syncUsed == -1) handleError(edge.sync, ..)`) does
    not depend on the block being visited: once the member has the value, every later block gets the diagnostic - a
    fault in one label is reported at all labels that follow it.  A guard that involves the visited element (a
    parameter, or a local computed from one) decides per block."""
    from ..inline import sites_with_conditions, strip
    chk.rule(rid, "in every visit function of TypeChecker, the innermost condition guarding a handleError / handleWarning "
                  "call mentions the visited element (a parameter or a local derived from one), not only members of the "
                  "checker: state carried from earlier blocks must not decide alone that this block gets a diagnostic")
    n = 0
    # members that are state: assigned somewhere outside the constructors (a flag set once at construction, such as
    # refinementWarnings, is configuration - it says the same thing about every block)
    state = set()
    for q, fns in F.by_q.items():
        if not q.startswith("UTAP::TypeChecker::") or q.split("::")[-1] in ("TypeChecker", "~TypeChecker"):
            continue
        for fn in fns:
            for d in walk(fn.get("body") or {}):
                tgt = None
                if d.get("k") == "bin" and d.get("op") in ("=", "+=", "-=", "|=", "&="):
                    tgt = d["lhs"]
                elif d.get("k") == "un" and d.get("op") in ("++", "--"):
                    tgt = d.get("e")
                elif d.get("k") == "call" and d.get("ck") == "op" and d.get("op") == "=" and d.get("recv") is not None:
                    tgt = d["recv"]
                t0 = strip(tgt) if isinstance(tgt, dict) else None
                if isinstance(t0, dict) and ((t0.get("k") == "member" and strip(t0.get("base") or {"k": "this"}).get("k") == "this")
                                             or (t0.get("k") == "ref" and t0.get("dk") in ("member", "field"))):
                    state.add(t0.get("name"))
    for q, fns in sorted(F.by_q.items()):
        if not q.startswith("UTAP::TypeChecker::visit"):
            continue
        for fn in fns:
            if fn.get("body") is None or not fn.get("params"):
                continue
            tainted = {p_["name"] for p_ in fn["params"]}
            for _ in range(4):
                for d in walk(fn["body"]):
                    if d.get("k") == "decl":
                        for v in d.get("vars", []):
                            if v.get("init") is not None and any(x.get("k") == "ref" and x.get("name") in tainted
                                                                 for x in walk(v["init"])):
                                tainted.add(v.get("name"))
                    if d.get("k") == "rangefor" and isinstance(d.get("var"), dict) and \
                            any(x.get("k") == "ref" and x.get("name") in tainted for x in walk(d.get("range") or {})):
                        tainted.add(d["var"].get("name"))
                    if d.get("k") == "bin" and d.get("op") == "=" and strip(d["lhs"]).get("k") == "ref" and \
                            strip(d["lhs"]).get("dk") == "local" and \
                            any(x.get("k") == "ref" and x.get("name") in tainted for x in walk(d["rhs"])):
                        tainted.add(strip(d["lhs"]).get("name"))
                    if d.get("k") == "call" and isinstance(d.get("recv"), dict) and strip(d["recv"]).get("k") == "ref" and \
                            strip(d["recv"]).get("dk") == "local" and \
                            any(x.get("k") == "ref" and x.get("name") in tainted for a in d.get("args", []) for x in walk(a)):
                        tainted.add(strip(d["recv"]).get("name"))       # decomposer.decompose(inv)

            def is_report(x):
                return x.get("k") == "call" and x.get("name") in ("handleError", "handleWarning")
            seen = {}
            for site, conds in sites_with_conditions(fn["body"], is_report):
                if not conds:
                    continue
                n += 1
                c, t = conds[-1]
                refs = [x for x in walk(c) if x.get("k") in ("ref", "member")]
                about_block = any(x.get("k") == "ref" and x.get("name") in tainted for x in refs)
                members = sorted({x.get("name") for x in refs if x.get("k") == "member" and
                                  strip(x.get("base") or {"k": "this"}).get("k") == "this"} |
                                 {x.get("name") for x in refs if x.get("k") == "ref" and x.get("dk") in ("member", "field")})
                msg = next((y.get("v") for a in site.get("args", []) for y in walk(a) if y.get("k") == "str"), "?")
                key = "%s|%s" % (fn["name"], msg)
                seen[key] = seen.get(key, 0) + 1
                members = [m_ for m_ in members if m_ in state]
                ok = about_block or not members
                chk.ob(rid, key if seen[key] == 1 else "%s#%d" % (key, seen[key]), ok,
                       "%s reports `%s` under `%s`, which reads only the checker's own %s - nothing of the element being "
                       "visited: once that state is reached, every later element gets the diagnostic (a fault in one label "
                       "is reported at the labels that follow it)" % (fn["q"], msg, short(c)[:60], "/".join(members)),
                       "%s:%s" % (fn["file"], site.get("l")))
    if n < 20:
        raise AnalysisBroken("%s: only %d guarded diagnostics found in TypeChecker's visit functions" % (rid, n))
    chk.analysed[rid] = {"guarded_diagnostics": n}
