"""C05 R-FRONT: the XML reader and the whole-file XTA grammar drive the builder the same way.

(a) every builder callback that both front ends call receives arguments of the same provenance: a parameter that one
    front end passes explicitly and the other leaves to its default is a place where the input format shows
(b) XTA state declarations pass proc_location the flags their production shape implies
(c) `->` creates a controllable edge, `-u->` an uncontrollable one
(d) per edge field, both front ends attach the label through the same callback
(e) R-LEXSCOPE (rules/scopes.py): text that follows a scope-closing construct in a whole file is scanned in the same
    scope as when it starts a block of its own
"""
from ..front import AnalysisBroken
from ..facts import walk, calls, short
from .routing import attach_fields, reachable_calls, label_map, SPEC_ROUTE, _strip
from . import driver

DB = "UTAP::DocumentBuilder"


def _xml_sites(F):
    out = {}
    for q, fns in F.by_q.items():
        if not q.startswith("UTAP::XMLReader::"):
            continue
        for fn in fns:
            for c in calls(fn["body"]):
                if (c.get("recv") or {}).get("name") == "parser":
                    out.setdefault(c["name"], []).append((fn, c))
    return out


def run(chk, F, G, rid="R-FRONT"):
    chk.rule(rid, "every builder callback called by both the XML reader and the XTA grammar gets arguments of the same "
                  "provenance (no parameter explicit on one side and defaulted on the other unless the explicit value is "
                  "the default); XTA state declarations, arrows and label keywords issue the same callbacks with the "
                  "same flags as the corresponding XML elements")
    xml = _xml_sites(F)
    gram = {}
    for r in G.rules:
        for c in r.calls:
            gram.setdefault(c.name, []).append((r, c))
    both = sorted(set(xml) & set(gram))
    if len(both) < 6:
        raise AnalysisBroken("only %d callbacks are called by both front ends: %s" % (len(both), both))
    n = 0
    for cb in both:
        nargs = {len(xc.get("args", [])) for _, xc in xml[cb]}
        for na_ in sorted(nargs):
            g_sites = [(r, c) for r, c in gram[cb] if len(c.args) == na_]
            x_sites = [(fn, xc) for fn, xc in xml[cb] if len(xc.get("args", [])) == na_]
            if not g_sites:
                continue
            for i in range(na_):
                g_defaults = {c.args[i].get("k") == "defarg" for r, c in g_sites}
                n += 1
                # an XML site whose provenance matches the grammar's is the common construct; XML sites that pass
                # more (LSC templates give proc_begin a type and a mode) are constructs XTA cannot express
                matching = [(fn, xc) for fn, xc in x_sites if {xc["args"][i].get("k") == "defarg"} == g_defaults]
                if matching:
                    chk.ob(rid, "%s|arg%d" % (cb, i), True,
                           "%s argument %d: same provenance in %s and the grammar" % (cb, i, matching[0][0]["name"]),
                           "%s:%s" % (matching[0][0]["file"], matching[0][1].get("l")))
                    continue
                fn, xc = x_sites[0]
                a_ = xc["args"][i]
                x_default = a_.get("k") == "defarg"
                dflt = None
                for r, c in g_sites:
                    if c.args[i].get("k") == "defarg":
                        dflt = short(c.args[i]["e"])
                if x_default:
                    dflt = short(a_["e"])
                expl = short(a_) if not x_default else ", ".join(sorted({short(c.args[i]) for r, c in g_sites
                                                                          if c.args[i].get("k") != "defarg"}))
                same = (not x_default) and _strip(a_).get("k") in ("str", "int", "bool") and \
                    short(_strip(a_)) in (dflt or "")
                chk.ob(rid, "%s|arg%d" % (cb, i), same,
                       "%s: the XML reader (%s) passes `%s` for parameter %d where the XTA grammar %s (`%s`): the same "
                       "model gives documents that differ in what this parameter sets, depending on the input format" %
                       (cb, fn["name"], expl[:60] if not x_default else "the default", i,
                        "uses the default" if not x_default else "passes it explicitly", (dflt or "")[:40]),
                       "%s:%s" % (fn["file"], xc.get("l")))
    if n < 10:
        raise AnalysisBroken("only %d shared callback arguments compared" % n)

    # (b) state declarations
    for r, c in gram.get("proc_location", []):
        rhs = G.host_rule(r).rhs
        inner = []
        if "'{'" in rhs and "'}'" in rhs:
            inner = rhs[rhs.index("'{'") + 1:rhs.index("'}'")]
        has_er = any("ExpRate" == s for s in inner)
        has_inv = bool(inner) and inner[0] not in ("';'", "error") and not inner[0].startswith("$@")
        vals = [G.arg_value(r, a) for a in c.args]
        got = tuple(v[1] if v[0] == "const" else None for v in vals[1:3])
        chk.ob(rid, "xta-state|%s" % r.sig, got == (int(has_inv), int(has_er)),
               "`%s` calls proc_location(.., %s, %s) although its shape has %s invariant and %s rate" %
               (r.sig, got[0], got[1], "an" if has_inv else "no", "a" if has_er else "no"), "src/parser.y:%s" % c.line)
    # (c) arrows: a literal arrow token with a literal flag, or an arrow nonterminal (`EdgeArrow: T_ARROW {$$=true} |
    #     T_UNCONTROL_ARROW {$$=false}`) whose semantic value is passed on
    def arrow_nonterminal(nt):
        """token -> flag value for a nonterminal whose alternatives are single arrow tokens with `$$ = const`."""
        m = {}
        for r2 in G.by_lhs.get(nt, []):
            if len(r2.rhs) != 1 or r2.rhs[0] not in ("T_ARROW", "T_UNCONTROL_ARROW") or r2.action is None:
                return None
            val = None
            for x in walk(r2.action):
                if x.get("k") == "bin" and x.get("op") == "=" and x["lhs"].get("k") == "member" and \
                        (x["lhs"].get("base") or {}).get("name") == "yyval":
                    y = x["rhs"]
                    while y.get("k") == "cast":
                        y = y["e"]
                    val = (1 if y.get("v") else 0) if y.get("k") in ("bool", "int") else y.get("cv")
            if val is None:
                return None
            m[r2.rhs[0]] = val
        return m or None
    na = 0
    for r, c in gram.get("proc_edge_begin", []):
        h = G.host_rule(r)
        rhs = h.rhs
        v = G.arg_value(r, c.args[2])
        na += 1
        lit = [s_ for s_ in rhs if s_ in ("T_ARROW", "T_UNCONTROL_ARROW")]
        nts = [(i + 1, s_, arrow_nonterminal(s_)) for i, s_ in enumerate(rhs) if not G.is_terminal(s_)]
        nts = [(i, s_, m_) for i, s_, m_ in nts if m_]
        if len(lit) == 1 and not nts:
            ok = v[0] == "const" and v[1] == (1 if lit[0] == "T_ARROW" else 0)
            why = "creates the edge with control=%s for the arrow %s" % (v[1:] if len(v) > 1 else v, lit[0])
        elif len(nts) == 1 and not lit:
            i, nt, m_ = nts[0]
            ok = v[0] == "sym" and v[1] == i and m_ == {"T_ARROW": 1, "T_UNCONTROL_ARROW": 0}
            why = "takes its arrow from `%s` (%s) but passes control=%s instead of that symbol's value" % (
                nt, m_, "$%s.%s" % (v[1], v[2]) if v[0] == "sym" else v[1:] if len(v) > 1 else v)
        else:
            raise AnalysisBroken("edge production without exactly one arrow: %s" % h.sig)
        chk.ob(rid, "xta-arrow|%s" % h.sig, ok, "`%s` %s: `-u->` and `->` are not told apart" % (h.sig, why),
               "src/parser.y:%s" % c.line)
    if na < 3:
        raise AnalysisBroken("only %d XTA edge productions" % na)
    # (d) per field, same attaching callback on both sides
    att = attach_fields(F, DB, "currentEdge")
    field_cb = {}
    for cbn, fs in att.items():
        if cbn == "proc_edge_begin":
            continue
        for f in fs:
            field_cb.setdefault(f, set()).add(cbn)
    lm = label_map(F)
    parts = driver.start_tokens(F)
    xml_cb = {}
    for kind, field in SPEC_ROUTE.items():
        for tok in parts.get(lm.get(kind), ()):  # start productions of the XML label
            for r in G.rules:
                if r.lhs == "Uppaal" and r.rhs and r.rhs[0] == tok:
                    names = set(reachable_calls(G, r))
                    xml_cb.setdefault(field, set()).update(nm for nm in names if nm in att and nm != "proc_edge_begin")
                    if kind == "select" and "proc_select" in names:
                        xml_cb.setdefault(field, set()).add("proc_select")
    for r in G.rules:
        if r.lhs not in ("Transition", "TransitionOpt", "OldTransition", "OldTransitionOpt"):
            continue
        if not any(c.name == "proc_edge_end" for c in r.calls):
            continue
        xta = {}
        for s in r.rhs:
            if G.is_terminal(s) or s.startswith("$@"):
                continue
            for r2 in G.by_lhs.get(s, []):
                for nm in reachable_calls(G, r2):
                    if nm == "proc_select":
                        xta.setdefault("select", set()).add(nm)
                    for f in att.get(nm, ()):  # label callbacks
                        if nm != "proc_edge_begin":
                            xta.setdefault(f, set()).add(nm)
        for f, cbs in sorted(xta.items()):
            chk.ob(rid, "xta-label|%s|%s" % (r.lhs, f), cbs == xml_cb.get(f, set()),
                   "in `%s` the %s of an edge is attached through %s, in XML through %s" %
                   (r.sig[:60], f, sorted(cbs), sorted(xml_cb.get(f, set()))), "src/parser.y:%s" % r.line)
    chk.analysed[rid] = {"callbacks_called_by_both_front_ends": both}


# ---------------------------------------------------------------------------------------------- R-IDCHARS
def run_idchars(chk, F, L, rid="R-IDCHARS"):
    """Names in XML (<name> of templates, locations, instances) are validated by the reader's own `symbol()` helper,
    names in XTA text by the scanner's identifier rule.  The reader must be able to accept every character the scanner
    accepts in an identifier: the characters that occur anywhere in the validator (character and string literals,
    ranges, isalpha/isalnum/isdigit) must cover the scanner's {alpha} and {idchr} classes.  (Over-approximation of
    the validator: a character that appears nowhere in it cannot be accepted by it.)"""
    from ..lexer import PatParser
    chk.rule(rid, "every character of the scanner's identifier classes ({alpha}, {idchr}) occurs in the character "
                  "material of the XML reader's name validator (symbol() and the helpers / constants it uses)")
    classes = {}
    for nm in ("alpha", "idchr"):
        if nm not in L.defs:
            raise AnalysisBroken("lexer.l defines no {%s}" % nm)
        p = PatParser(L.defs[nm], L.defs).parse()
        if p[0] != "class" or p[2]:
            raise AnalysisBroken("{%s} is not a positive character class" % nm)
        classes[nm] = set(p[1])
    roots = [fn for fn in F.functions.values() if (fn.get("file") or "").endswith("xmlreader.cpp") and fn["name"] == "symbol"]
    if not roots:
        raise AnalysisBroken("the XML reader's symbol() validator was not found")
    seen, todo, material = set(), list(roots), set()
    lows, highs = [], []
    import string
    while todo:
        fn = todo.pop()
        if fn["q"] + str(fn.get("sig")) in seen:
            continue
        seen.add(fn["q"] + str(fn.get("sig")))
        for n in walk(fn.get("body")):
            if n.get("k") == "char":
                material.add(chr(n["v"]) if isinstance(n["v"], int) else str(n["v"]))
            elif n.get("k") == "str":
                material.update(n.get("v") or "")
            elif n.get("k") == "call":
                nm = n.get("name") or ""
                if nm in ("isalpha",):
                    material.update(string.ascii_letters)
                elif nm in ("isalnum",):
                    material.update(string.ascii_letters + string.digits)
                elif nm == "isdigit":
                    material.update(string.digits)
                elif nm in ("isupper",):
                    material.update(string.ascii_uppercase)
                elif nm in ("islower",):
                    material.update(string.ascii_lowercase)
                for t in F.fns(n.get("fn") or ""):
                    if (t.get("file") or "").endswith("xmlreader.cpp") and t.get("body") is not None:
                        todo.append(t)
            elif n.get("k") == "ref" and n.get("dk") == "global":
                for g in F.globals.get(n.get("q") or n.get("name"), []):
                    if g.get("init") is not None:
                        for x in walk(g["init"]):
                            if x.get("k") == "str":
                                material.update(x.get("v") or "")
                            if x.get("k") == "char":
                                material.add(chr(x["v"]) if isinstance(x["v"], int) else str(x["v"]))
            elif n.get("k") == "bin" and n.get("op") in (">=", "<=", ">", "<"):
                for side, other in ((n["lhs"], n["rhs"]), (n["rhs"], n["lhs"])):
                    c = side
                    while c.get("k") == "cast":
                        c = c["e"]
                    if c.get("k") == "char":
                        (lows if n["op"] in (">=", ">") and side is n["rhs"] or n["op"] in ("<=", "<") and side is n["lhs"]
                         else highs).append(c["v"] if isinstance(c["v"], int) else ord(str(c["v"])[0]))
    for lo in lows:
        for hi in highs:
            if 0 < hi - lo < 64:
                material.update(chr(x) for x in range(lo, hi + 1))
    for nm, cs in classes.items():
        missing = sorted(cs - material)
        chk.ob(rid, nm, not missing,
               "the scanner accepts %s in identifiers ({%s}) but the XML reader's name validator cannot: a name containing "
               "it is fine in an XTA file and `Invalid identifier` in the XML rendering of the same model" %
               (missing, nm), "%s:%s" % (roots[0]["file"], roots[0]["line"]))


# ---------------------------------------------------------------------------------------------- R-DIAGPAIR
# `$`-messages the XML reader raises on its own account that are about the XML carrier, not about the model: an XTA
# text has no such element / attribute to be wrong about.  message -> why there is no XTA counterpart
XML_ONLY_DIAGNOSTICS = {
    "$Message_label_is_required": "LSC templates exist in XML only",
    "$Update_label_is_required": "LSC templates exist in XML only",
    "$Condition_label_is_required": "LSC templates exist in XML only",
    "$Instance_name_is_required": "LSC instance lines exist in XML only",
    "$Existential_charts_must_not_have_prechart": "LSC templates exist in XML only",
    "$Missing_system_tag": "the <system> element; an XTA text without a system line is a syntax error of the grammar",
    "$Missing_nta_or_project_tag": "the root element",
    "$syntax_error: $unexpected $end": "an empty <system> element: the reader spells out the grammar's own message, "
                                      "because bison has no position to attach to an empty block",
}


def run_diagpair(chk, F, G, rid="R-DIAGPAIR"):
    """A diagnostic about the *model* that only one front end can raise makes the input format observable.  The XML
    reader raises some messages itself, ahead of or instead of the builder (no <init>: $Missing_initial_location; a
    name that is a keyword of the query language).  Each of them is either about the XML carrier (listed, with the
    reason) or has to be raised on the XTA side as well: by a grammar action, or by builder code the grammar reaches."""
    chk.rule(rid, "every `$` message that XMLReader raises on its own account is about the XML carrier (listed) or is also "
                  "raised for XTA input: by an action of parser.y or by a builder callback")
    own = {}
    for fn in F.functions.values():
        if not (fn.get("file") or "").endswith("src/xmlreader.cpp") or fn.get("body") is None:
            continue
        for x in walk(fn["body"]):
            if x.get("k") == "construct" and (x.get("cls") or x.get("t") or "").endswith("TypeException"):
                for y in walk(x):
                    if y.get("k") == "str" and str(y.get("v", "")).startswith("$"):
                        own.setdefault(y["v"], (fn["name"], x.get("l")))
    if len(own) < 5:
        raise AnalysisBroken("%s: only %d messages raised by the XML reader found" % (rid, len(own)))
    # the XTA side: literals in grammar actions, and in the builder classes (any callback can be reached from XTA text)
    xta = set()
    for r in G.rules:
        if r.action is not None:
            for y in walk(r.action):
                if y.get("k") == "str":
                    xta.add(y.get("v"))
    for fn in F.functions.values():
        q = fn.get("q", "")
        if fn.get("body") is not None and any(q.startswith("UTAP::%s::" % c) for c in
                                              ("DocumentBuilder", "StatementBuilder", "ExpressionBuilder", "AbstractBuilder")):
            for y in walk(fn["body"]):
                if y.get("k") == "str":
                    xta.add(y.get("v"))
    for msg, (fname, line) in sorted(own.items()):
        if msg in XML_ONLY_DIAGNOSTICS:
            chk.ob(rid, "%s|xml-only" % msg, True, "", "/repo/src/xmlreader.cpp:%s" % line,
                   sample="%s: listed - %s" % (msg, XML_ONLY_DIAGNOSTICS[msg][:60]))
            continue
        chk.ob(rid, msg, msg in xta,
               "XMLReader::%s raises `%s` itself; nothing on the XTA side (grammar actions, builder callbacks) can raise "
               "it: the same faulty model is rejected as XML and accepted, or rejected with another message, as XTA" %
               (fname, msg), "/repo/src/xmlreader.cpp:%s" % line)
    chk.analysed[rid] = {"reader_messages": len(own), "listed_xml_only": len([m for m in own if m in XML_ONLY_DIAGNOSTICS])}
