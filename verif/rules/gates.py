"""R-GATE: must-check-before-accept, decided by structured-control-flow dominance over the facts tree.

A *gate* on a context expression X inside a checker function f is an `if` whose condition C is a
boolean formula over predicate calls P_i(X_i) such that whenever the violating valuation holds
(e.g. is_guard(X) false, or X.changes_any_variable() true) C is true, and whose then-branch
reports an error.  The gate guards acceptance iff
  * every enclosing condition on the way from f's body to the gate is an allowed guard (a
    non-emptiness test of X, a successful checkExpression(X)/checkType, or the passing side of an
    earlier error-reporting test), and
  * no statement before the gate on that path leaves the function / loop iteration silently.
"""
import itertools

from ..facts import walk, short


def path_of(e, aliases=None):
    """Member path of an expression as a tuple of names, e.g. edge.guard -> ('edge','guard');
    expr[1] -> ('expr','[1]').  Local references are resolved through `aliases`."""
    if e is None:
        return None
    k = e.get("k")
    if k == "ref":
        if aliases and e.get("id") in aliases:
            return aliases[e["id"]]
        return (e.get("name"),)
    if k == "member":
        b = e.get("base")
        if b is None or b.get("k") == "this":
            return (e.get("name"),)
        p = path_of(b, aliases)
        return p + (e.get("name"),) if p else None
    if k == "call" and e.get("ck") == "op" and e.get("op") == "[]":
        p = path_of(e.get("recv"), aliases)
        a = e.get("args", [{}])[0]
        i = a.get("v") if a.get("k") == "int" else short(a)
        return p + ("[%s]" % i,) if p else None
    if k == "call" and e.get("ck") == "op" and e.get("op") in ("->", "*") and e.get("recv") is not None:
        return path_of(e["recv"], aliases)
    if k == "call" and e.get("ck") == "member" and e.get("name") in ("get",) and e.get("args"):
        p = path_of(e.get("recv"), aliases)
        a = e["args"][0]
        i = a.get("v") if a.get("k") == "int" else short(a)
        return p + ("[%s]" % i,) if p else None
    if k in ("cast", "defarg"):
        return path_of(e.get("e"), aliases)
    if k == "call" and e.get("ck") == "member" and "pair<" in (e.get("t") or "") and not e.get("args"):
        return ("<%s>" % e.get("name"),)
    if k == "construct" and len(e.get("args", [])) == 1:
        return path_of(e["args"][0], aliases)
    if k == "un" and e.get("op") == "*":
        return path_of(e.get("e"), aliases)
    return None


def collect_aliases(fn):
    """local id -> member path, for `auto& inv = loc.invariant;` style declarations (and structured bindings
    are left alone).  Read on the normalised function, so that aliases declared in a part that was split off into a
    lambda or a single-use member (`auto& inv = loc.invariant;` in checkInvariant(loc)) are known too."""
    fn = normalized(fn)
    al = {}

    def pair_source(e):
        """`X.get_range()` -> ('<X.get_range>',): the name under which the two components are known"""
        while isinstance(e, dict) and e.get("k") in ("cast", "materialize"):
            e = e["e"]
        if isinstance(e, dict) and e.get("k") == "construct" and len(e.get("args", [])) == 1:
            return pair_source(e["args"][0])
        if isinstance(e, dict) and e.get("k") == "call" and e.get("ck") == "member" and \
                "pair<" in (e.get("t") or "") and not e.get("args"):
            return ("<%s>" % e.get("name"),)
        return None
    for n in walk(fn["body"]):
        if n.get("k") == "decl":
            for v in n["vars"]:
                if v.get("init") is not None and "&" in v.get("t", "") and "&&" not in v.get("t", ""):
                    p = path_of(v["init"], al)
                    if p:
                        al[v["id"]] = p
                elif v.get("init") is not None and (v.get("t") or "").replace("UTAP::", "") in ("const expression_t",):
                    # expression_t is a handle: a const copy (`const expression_t body = expr[2];`) names the same node
                    p = path_of(v["init"], al)
                    if p and len(p) >= 2:
                        al[v["id"]] = p
                # auto [lower, upper] = type.get_range();   auto r = type.get_range();
                src = pair_source(v.get("init")) if v.get("init") is not None else None
                if src:
                    bs = v.get("bindings") or []
                    if len(bs) == 2:
                        al[bs[0]["id"]] = src + ("first",)
                        al[bs[1]["id"]] = src + ("second",)
                    elif not bs:
                        al[v["id"]] = src
        # std::tie(l, u) = type.get_range();
        if n.get("k") == "call" and n.get("ck") == "op" and n.get("op") == "=" and \
                (n.get("recv") or {}).get("name") == "tie" and len((n.get("recv") or {}).get("args", [])) == 2 and n.get("args"):
            src = pair_source(n["args"][0])
            if src:
                a, b = n["recv"]["args"]
                if a.get("k") == "ref" and b.get("k") == "ref":
                    al[a["id"]] = src + ("first",)
                    al[b["id"]] = src + ("second",)
    return al


def bool_locals(fn):
    """local id -> initialiser, for `bool computable = isCompileTimeComputable(argument);`"""
    out = {}
    for n in walk(fn["body"]):
        if n.get("k") == "decl":
            for v in n["vars"]:
                if v.get("init") is not None and v.get("ct", "").replace("const ", "") == "bool":
                    out[v["id"]] = v["init"]
    return out


def call_subject(c, aliases):
    """The expression a predicate call is about: receiver for member predicates (X.changes_any_variable()),
    first argument otherwise (is_guard(X))."""
    if c.get("ck") == "member" and c.get("recv") is not None and c["recv"].get("k") != "this":
        return path_of(c["recv"], aliases)
    if c.get("args"):
        return path_of(c["args"][0], aliases)
    return None


def has_error_report(n):
    return any(c.get("k") == "call" and c.get("name") in ("handleError", "handle_error") for c in walk(n))


def has_exit(n):
    """Does the statement contain a return / continue / break / throw (outside nested lambdas)?"""
    return any(x.get("k") in ("return", "continue", "break", "throw", "goto") for x in walk(n))


# ---------------------------------------------------------------------- boolean formulas over predicate atoms
def formula(e, aliases, blocals, depth=0):
    """-> (function(assign)->bool, set(atom keys)).  Atom key = (predicate name, subject path)."""
    k = e.get("k")
    if k == "bool":
        v = bool(e["v"])
        return (lambda a: v), set()
    if k == "un" and e.get("op") == "!":
        f, s = formula(e["e"], aliases, blocals, depth)
        return (lambda a: not f(a)), s
    if k == "bin" and e.get("op") in ("&&", "||"):
        f1, s1 = formula(e["lhs"], aliases, blocals, depth)
        f2, s2 = formula(e["rhs"], aliases, blocals, depth)
        if e["op"] == "&&":
            return (lambda a: f1(a) and f2(a)), s1 | s2
        return (lambda a: f1(a) or f2(a)), s1 | s2
    if k in ("cast", "paren"):
        return formula(e["e"], aliases, blocals, depth)
    if k == "cond":         # c ? a : b
        fc, sc = formula(e["c"], aliases, blocals, depth)
        fa, sa = formula(e["a"], aliases, blocals, depth)
        fb, sb = formula(e["b"], aliases, blocals, depth)
        return (lambda a: fa(a) if fc(a) else fb(a)), sc | sa | sb
    if k == "construct" and len(e.get("args", [])) == 1:
        return formula(e["args"][0], aliases, blocals, depth)
    if k == "ref" and e.get("id") in blocals and depth < 6:
        return formula(blocals[e["id"]], aliases, blocals, depth + 1)
    if k == "call":
        key = (e.get("name") or e.get("op"), call_subject(e, aliases))
        return (lambda a: a[key]), {key}
    key = ("?", short(e)[:80])
    return (lambda a: a[key]), {key}


class Gate:
    def __init__(self, fn, ifnode, f, atoms, guards, reports, silent_exit):
        self.fn, self.ifnode, self.f, self.atoms, self.guards, self.reports, self.silent_exit = \
            fn, ifnode, f, atoms, guards, reports, silent_exit

    @property
    def where(self):
        return "%s:%s" % (self.fn["file"], self.ifnode.get("l"))

    def implied_by(self, violation, fixed=None):
        """Is the condition true for every valuation of its atoms that agrees with `violation`
        (dict atom->bool) and with the benign defaults?"""
        fixed = dict(fixed or {})
        for a in self.atoms:
            if a in violation:
                continue
            if a[0] in ("checkExpression", "checkType") and a not in fixed:
                fixed[a] = True            # the expression type-checks (otherwise an error was reported)
            if a[0] == "empty" and a not in fixed:
                fixed[a] = False
        free = [a for a in self.atoms if a not in violation and a not in fixed]
        if len(free) > 12:
            return False
        for vals in itertools.product((True, False), repeat=len(free)):
            asg = dict(fixed)
            asg.update(violation)
            asg.update(zip(free, vals))
            try:
                if not self.f(asg):
                    return False
            except KeyError:
                return False
        return True


_NORM = {}


def normalized(fn):
    """fn with statement-level calls of local lambdas / file-local helpers inlined (facts.inline_stmt_calls)."""
    from .. import facts as _facts
    key = id(fn)
    if key not in _NORM:
        F = _facts.CURRENT
        _NORM[key] = (fn, _facts.inline_stmt_calls(fn, F) if (F is not None and fn.get("q") and fn.get("file")) else fn)
    return _NORM[key][1]


def find_gates(fn, aliases=None, blocals=None):
    """All error-reporting `if` nodes of fn with their condition formula and the chain of enclosing conditions."""
    fn = normalized(fn)
    aliases = aliases if aliases is not None else collect_aliases(fn)
    blocals = blocals if blocals is not None else bool_locals(fn)
    out = []

    def rec(n, guards, silent):
        if isinstance(n, list):
            s = silent
            for x in n:
                if isinstance(x, dict) and x.get("k") in ("case", "default"):
                    s = silent          # reached by the switch jump, not by falling past an earlier break
                rec(x, guards, s)
                # a statement that can leave silently poisons everything after it in this block
                if isinstance(x, dict) and x.get("k") == "if" and has_exit(x) and not _exit_allowed(x, aliases):
                    s = s or x
                elif isinstance(x, dict) and x.get("k") in ("return", "continue", "break"):
                    s = s or x
            return
        if not isinstance(n, dict):
            return
        k = n.get("k")
        if k == "if":
            f, atoms = formula(n["c"], aliases, blocals)
            out.append(Gate(fn, n, f, atoms, list(guards), has_error_report(n["then"]), silent))
            rec(n.get("init"), guards, silent)
            rec(n["then"], guards + [(n, "then")], silent)
            rec(n.get("else"), guards + [(n, "else")], silent)
            return
        if k == "lambda":
            return
        if k == "block":
            rec(n.get("s", []), guards, silent)
            return
        for key, v in n.items():
            if isinstance(v, (dict, list)):
                rec(v, guards, silent)
    rec(fn["body"], [], None)
    return out


def _exits_all_report(n):
    """every exit inside the if-chain `n` sits in a branch that reports an error before leaving:
    `if (A) t = ..; else if (B) t = ..; else { handleError(..); return false; }`"""
    def branch(b):
        if b is None:
            return True
        stmts = b.get("s", []) if b.get("k") == "block" else [b]
        ok = True
        direct_exit = any(isinstance(x, dict) and x.get("k") in ("return", "continue", "break", "throw", "goto") for x in stmts)
        if direct_exit and not any(has_error_report(x) for x in stmts if isinstance(x, dict)):
            return False
        for x in stmts:
            if isinstance(x, dict) and x.get("k") == "if":
                ok = ok and branch(x["then"]) and branch(x.get("else"))
            elif isinstance(x, dict) and x.get("k") not in ("return", "continue", "break", "throw", "goto") and has_exit(x):
                return False        # an exit inside a loop / switch / nested block: not read
        return ok
    return branch(n["then"]) and branch(n.get("else"))


def _exit_allowed(ifnode, aliases):
    """An early exit is harmless if its branch reports an error or is taken because type checking failed."""
    if has_error_report(ifnode["then"]) and (ifnode.get("else") is None or not has_exit(ifnode["else"])):
        return True
    if "then" in ifnode and ifnode.get("k") == "if" and _exits_all_report(ifnode):
        return True
    c = ifnode["c"]
    while c.get("k") in ("paren",):
        c = c["e"]
    if c.get("k") == "bin" and c.get("op") == "||":
        # `if (inv.empty() || !checkExpression(inv)) return;`: harmless if each reason alone is
        return all(_exit_allowed({"c": part, "then": ifnode["then"], "else": ifnode.get("else")}, aliases)
                   for part in (c["lhs"], c["rhs"]))
    neg = False
    while c.get("k") == "un" and c.get("op") == "!":
        c = c["e"]
        neg = not neg
    if c.get("k") == "call" and c.get("name") in ("checkExpression", "checkType") and neg:
        return True
    if c.get("k") == "call" and c.get("name") == "empty" and not neg:
        return True          # nothing to check
    # `if (it == map.end()) continue;` - the lookup found no object, there is nothing to check
    eq = None
    if c.get("k") == "bin" and c.get("op") == "==":
        eq = (c["lhs"], c["rhs"])
    elif c.get("k") == "call" and c.get("ck") == "op" and c.get("op") == "==":
        a = ([c["recv"]] if c.get("recv") is not None else []) + list(c.get("args", []))
        eq = tuple(a[:2]) if len(a) >= 2 else None
    if eq and not neg and any(x.get("k") == "call" and x.get("name") in ("end", "cend") for y in eq for x in walk(y)):
        return True
    return False


def guard_allowed(ifnode, side, subject, aliases, extra_ok=()):
    """Is an enclosing condition an allowed guard for accepting `subject`?"""
    cond = ifnode["c"]
    if side == "else":
        return has_error_report(ifnode["then"]) or _cond_benign(cond, subject, aliases, negate=True, extra_ok=extra_ok)
    return _cond_benign(cond, subject, aliases, negate=False, extra_ok=extra_ok)


def _cond_benign(cond, subject, aliases, negate, extra_ok):
    conj = []

    def flat(c):
        if c.get("k") == "bin" and c.get("op") == ("||" if negate else "&&"):
            flat(c["lhs"])
            flat(c["rhs"])
        else:
            conj.append(c)
    flat(cond)
    for c in conj:
        core = c
        neg = negate
        while core.get("k") == "un" and core.get("op") == "!":
            core = core["e"]
            neg = not neg
        if core.get("k") == "call":
            subj = call_subject(core, aliases)
            name = core.get("name")
            if subj is not None and subject is not None and subj[:len(subject)] == subject[:len(subj)]:
                if name == "empty" and neg:
                    continue
                if name in ("checkExpression", "checkType") + tuple(extra_ok) and not neg:
                    continue
        if core.get("k") == "ref" and core.get("t", "").endswith("*") and not neg:
            continue        # the object the context expression belongs to exists (`if (auto* d = ...; d)`)
        return False
    return True


def gated(fn, subject, pred, must_hold, aliases=None, extra_ok=(), extra_violation=None, gates=None):
    """Find a gate of `fn` that rejects `subject` when pred(subject) is `not must_hold`.
    Returns (gate or None, candidates examined)."""
    aliases = aliases if aliases is not None else collect_aliases(fn)
    gs = gates if gates is not None else find_gates(fn, aliases)
    key = (pred, subject)
    cands = [g for g in gs if key in g.atoms]
    for g in cands:
        if not g.reports or g.silent_exit is not None:
            continue
        viol = {key: (not must_hold)}
        if extra_violation:
            viol.update(extra_violation)
        if not g.implied_by(viol):
            continue
        if all(guard_allowed(i, s, subject, aliases, extra_ok) for i, s in g.guards):
            return g, cands
    return None, cands
