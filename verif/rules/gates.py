"""R-GATE: must-check-before-accept, decided by structured-control-flow dominance over the facts tree.

A *gate* on a context expression X inside a checker function f is an `if` whose condition
tests P(X) and whose failing branch reports an error (reaches handleError / handle_error).
The gate guards acceptance iff every enclosing condition on the way from f's body to the
gate is itself an allowed guard: a non-emptiness test of X, a successful checkExpression(X) /
checkType, or the passing side of an earlier gate on the same X (else-if chain).
"""
from ..facts import walk, short


def path_of(e, aliases=None):
    """Member path of an expression as a tuple of names, e.g. edge.guard -> ('edge','guard');
    expr[1] -> ('expr','[1]').  Local references are resolved through `aliases`."""
    if e is None:
        return None
    k = e.get("k")
    if k == "ref":
        if aliases and e.get("id") in aliases:
            return aliases[e["id"]]
        return (e.get("name"),)
    if k == "member":
        b = e.get("base")
        if b is None or b.get("k") == "this":
            return (e.get("name"),)
        p = path_of(b, aliases)
        return p + (e.get("name"),) if p else None
    if k == "call" and e.get("ck") == "op" and e.get("op") == "[]":
        p = path_of(e.get("recv"), aliases)
        a = e.get("args", [{}])[0]
        i = a.get("v") if a.get("k") == "int" else short(a)
        return p + ("[%s]" % i,) if p else None
    if k == "call" and e.get("ck") == "member" and e.get("name") in ("get",) and e.get("args"):
        p = path_of(e.get("recv"), aliases)
        a = e["args"][0]
        i = a.get("v") if a.get("k") == "int" else short(a)
        return p + ("[%s]" % i,) if p else None
    if k in ("cast", "defarg"):
        return path_of(e.get("e"), aliases)
    if k == "construct" and len(e.get("args", [])) == 1:
        return path_of(e["args"][0], aliases)
    if k == "un" and e.get("op") == "*":
        return path_of(e.get("e"), aliases)
    return None


def collect_aliases(fn):
    """local id -> member path, for `auto& inv = loc.invariant;` style declarations."""
    al = {}
    for n in walk(fn["body"]):
        if n.get("k") == "decl":
            for v in n["vars"]:
                if v.get("init") is not None:
                    p = path_of(v["init"], al)
                    if p and len(p) >= 1 and ("&" in v.get("t", "") or True):
                        al[v["id"]] = p
    return al


def call_subject(c, aliases):
    """The expression a predicate call is about: receiver for member predicates (X.changes_any_variable()),
    first argument otherwise (is_guard(X))."""
    if c.get("ck") == "member" and c.get("recv") is not None and c["recv"].get("k") != "this":
        return path_of(c["recv"], aliases)
    if c.get("args"):
        return path_of(c["args"][0], aliases)
    return None


def has_error_report(n):
    return any(c.get("k") == "call" and c.get("name") in ("handleError", "handle_error") for c in walk(n))


def polarity(cond, target):
    """+1 if the then-branch runs when `target` (a call node inside cond) is TRUE, -1 if when FALSE,
    0 if not decidable from the shape."""
    if cond is target:
        return 1
    k = cond.get("k")
    if k == "un" and cond.get("op") == "!":
        return -polarity(cond["e"], target)
    if k in ("cast", "construct"):
        for x in ([cond.get("e")] if k == "cast" else cond.get("args", [])):
            if x is not None and any(y is target for y in walk(x)):
                return polarity(x, target)
    if k == "bin" and cond.get("op") in ("||", "&&"):
        for side in ("lhs", "rhs"):
            if any(y is target for y in walk(cond[side])):
                p = polarity(cond[side], target)
                # a || b runs then when either is true; a && b only when both: the gate still decides
                # the error branch for `||`; for `&&` the other conjunct can mask it
                return p if cond["op"] == "||" else 0
    return 0


class Gate:
    def __init__(self, fn, ifnode, call, subject, pol, guards, reports):
        self.fn, self.ifnode, self.call, self.subject, self.pol, self.guards, self.reports = \
            fn, ifnode, call, subject, pol, guards, reports

    @property
    def where(self):
        return "%s:%s" % (self.fn["file"], self.call.get("l"))


def find_gates(fn, pred_names, aliases=None):
    """All `if` nodes of fn whose condition calls one of pred_names; with the chain of enclosing conditions."""
    aliases = aliases if aliases is not None else collect_aliases(fn)
    out = []

    def rec(n, guards):
        if isinstance(n, list):
            for x in n:
                rec(x, guards)
            return
        if not isinstance(n, dict):
            return
        if n.get("k") == "if":
            cond = n["c"]
            for c in walk(cond):
                if c.get("k") == "call" and c.get("name") in pred_names:
                    subj = call_subject(c, aliases)
                    pol = polarity(cond, c)
                    # failing side: predicate is a "must hold" (pol -1 -> then is the failing branch) or a
                    # "must not hold" (pol +1 -> then is the failing branch); either way the then-branch
                    # is where the condition's truth leads, so it must report.
                    out.append(Gate(fn, n, c, subj, pol, list(guards), has_error_report(n["then"])))
            rec(n.get("init"), guards)
            rec(n["then"], guards + [(n, "then")])
            rec(n.get("else"), guards + [(n, "else")])
            return
        if n.get("k") == "lambda":
            return
        for key, v in n.items():
            if isinstance(v, (dict, list)):
                rec(v, guards)
    rec(fn["body"], [])
    return out


def guard_allowed(ifnode, side, subject, aliases, extra_ok=()):
    """Is an enclosing condition an allowed guard for accepting `subject`?"""
    cond = ifnode["c"]
    if side == "else":
        # passing side of an earlier error-reporting test (else-if chain)
        return has_error_report(ifnode["then"])
    # then-side: every conjunct must be about the subject: !X.empty(), checkExpression(X), or a listed predicate
    conj = []

    def flat(c):
        if c.get("k") == "bin" and c.get("op") == "&&":
            flat(c["lhs"])
            flat(c["rhs"])
        else:
            conj.append(c)
    flat(cond)
    for c in conj:
        core = c
        neg = False
        while core.get("k") == "un" and core.get("op") == "!":
            core = core["e"]
            neg = not neg
        if core.get("k") == "call":
            subj = call_subject(core, aliases)
            name = core.get("name")
            if subj is not None and subject is not None and subj[:len(subject)] == subject[:len(subj)]:
                if name == "empty" and neg:
                    continue
                if name in ("checkExpression", "checkType") + tuple(extra_ok) and not neg:
                    continue
        return False
    return True
