"""C15 / C16 rules about process-global state of the lexer and the parser.

R-GLOBALS    inventory of every mutable object with static storage duration (namespace scope, static members,
             static locals) in all translation units of the library and in the generated scanner/parser, each
             classified by an argument that a parse cannot see what an earlier parse left in it:
               reinit   written on every path of every function that calls utap_parse(), before that call
               grammar  written before read by grammar order: every action that reads it is preceded, in every
                        derivation, by a reduced action that writes it (must-write analysis on the productions)
               gen      owned by the flex/bison skeletons (file = generated code); protocol obligations
                        R-BUFFER and R-STARTCOND below
             anything else is *carried* state -> finding (key = object[.field]).
R-STARTCOND  the scanner's start condition cannot leak into the next parse: either every function that calls
             utap_parse() re-establishes INITIAL first, or every way out of the scanner (return, call that may
             throw) in an action of another start condition is preceded by BEGIN(INITIAL).
R-BUFFER     every public function that reaches utap_parse() installs a fresh scan buffer before the parse and
             deletes the current buffer after it.
"""
from ..front import AnalysisBroken
from ..facts import walk, short, calls

GEN_FILES = ("lexer.cc", "parser.cpp")
USER_FILES = ("parser.y", "lexer.l")
# trusted flex behaviour: YY_DO_BEFORE_ACTION sets yytext and yyleng before every rule action
SKELETON_SETS_BEFORE_ACTION = ("utap_text", "utap_leng")


# ---------------------------------------------------------------------------------------------- helpers
def _root(lhs):
    """(global name, field or None) written by an lvalue expression, following member/subscript chains."""
    field = None
    n = lhs
    while isinstance(n, dict):
        k = n.get("k")
        if k == "ref":
            if n.get("dk") in ("global", "staticlocal"):
                return n.get("q") or n.get("name"), field
            return None, None
        if k == "member":
            field = n.get("name")
            n = n.get("base")
        elif k == "sub":
            n = n.get("base")
        elif k == "cast":
            n = n.get("e")
        elif k == "un" and n.get("op") == "*":
            n = n.get("e")
        else:
            return None, None
    return None, None


def _plain_writes(n):
    """(global, field) pairs that expression/statement n assigns with a plain `=` (a re-initialisation),
    nested assignment chains `a = b = c` included.  Read-modify-write (+=, ++) does not count."""
    out = set()
    for x in walk(n):
        if x.get("k") == "bin" and x.get("op") == "=":
            g, f = _root(x["lhs"])
            if g:
                out.add((g, f))
        elif x.get("k") == "call" and x.get("ck") == "op" and x.get("op") == "=":
            g, f = _root(x.get("recv") or {})
            if g:
                out.add((g, f))
        elif x.get("k") == "call" and x.get("name") in ("strcpy", "strncpy", "memcpy", "memset") and x.get("args"):
            g, f = _root(x["args"][0])
            if g:
                out.add((g, f))
    return out


class MustWrite:
    """Which (global, field) pairs does a statement write on every normally completing path?  Structured,
    interprocedural through resolved free functions and methods with a body (depth-bounded)."""

    def __init__(self, F, CG):
        self.F, self.CG = F, CG
        self.memo = {}

    def fn(self, fn, depth=0):
        key = (fn["q"], fn.get("sig"))
        if key in self.memo:
            return self.memo[key]
        self.memo[key] = set()
        r = self.stmt(fn.get("body"), depth, fn)
        self.memo[key] = r
        return r

    def _recv_writes(self, call, callee, depth):
        """member function on a global object: writes of `this->f` become writes of (object, f)."""
        out = set()
        g, _ = _root(call.get("recv") or {})
        if not g:
            return out
        for x in self._this_writes(callee.get("body"), depth, callee):
            out.add((g, x))
        return out

    def _this_writes(self, n, depth, fn):
        if n is None:
            return set()
        k = n.get("k")
        if k == "block":
            out = set()
            for s in n.get("s", []):
                out |= self._this_writes(s, depth, fn)
                if s.get("k") in ("return", "throw"):
                    break
            return out
        if k == "if":
            a = self._this_writes(n.get("then"), depth, fn)
            b = self._this_writes(n.get("else"), depth, fn) if n.get("else") is not None else set()
            return a & b
        if k in ("for", "while", "do", "rangefor", "switch", "try"):
            return set()
        out = set()
        for x in walk(n):
            lhs = None
            if x.get("k") == "bin" and x.get("op") == "=":
                lhs = x["lhs"]
            elif x.get("k") == "call" and x.get("ck") == "op" and x.get("op") == "=":
                lhs = x.get("recv")
            if lhs is not None and lhs.get("k") == "member" and (lhs.get("base") is None or
                                                                 lhs["base"].get("k") == "this"):
                out.add(lhs["name"])
            # delegation to another method of the same object (an overload forwarding to its sibling)
            if x.get("k") == "call" and x.get("ck") == "member" and depth < 4 and \
                    (x.get("recv") is None or x["recv"].get("k") == "this"):
                for t in self.CG.targets(x):
                    if t.get("body") is not None and t is not fn:
                        out |= self._this_writes(t.get("body"), depth + 1, t)
        return out

    def stmt(self, n, depth, fn):
        if n is None or not isinstance(n, dict):
            return set()
        k = n.get("k")
        if k == "block":
            out = set()
            for s in n.get("s", []):
                out |= self.stmt(s, depth, fn)
                if isinstance(s, dict) and s.get("k") in ("return", "throw"):
                    break
            return out
        if k == "if":
            c = self.stmt_expr(n.get("c"), depth)
            a = self.stmt(n.get("then"), depth, fn)
            b = self.stmt(n.get("else"), depth, fn) if n.get("else") is not None else set()
            return c | (a & b)
        if k == "switch":
            return self.stmt_expr(n.get("c"), depth) | self._switch(n, depth, fn)
        if k == "rangefor":
            return self._table_search(n, depth, fn)
        if k in ("for", "while", "do", "try"):
            return set()
        return self.stmt_expr(n, depth)

    def _table_search(self, n, depth, fn):
        """`for (row : TABLE) if (row.key == param) { writes; return|break; }` over a constant array whose key column
        holds every enumerator of the parameter's enum type: the writes of the matching branch happen for every value."""
        rng = n.get("range") or {}
        body = n.get("body") or {}
        stmts = body.get("s", []) if body.get("k") == "block" else [body]
        if rng.get("k") != "ref" or rng.get("dk") not in ("global", "staticlocal", "local") or len(stmts) != 1 or \
                stmts[0].get("k") != "if":
            return set()
        iff = stmts[0]
        c = iff.get("c") or {}
        if c.get("k") != "bin" or c.get("op") != "==" or iff.get("else") is not None:
            return set()
        key, par = None, None
        for a, b in ((c["lhs"], c["rhs"]), (c["rhs"], c["lhs"])):
            if a.get("k") == "member" and b.get("k") == "ref" and b.get("dk") == "param":
                key, par = a, b
        if key is None:
            return set()
        et = (par.get("t") or "").replace("const ", "")
        enum = self.F.enums.get(et)
        if enum is None:
            return set()
        then = iff.get("then") or {}
        tl = then.get("s", []) if then.get("k") == "block" else [then]
        if not tl or tl[-1].get("k") not in ("return", "break"):
            return set()
        keys = set()
        tables = [g for g in self.F.globals.get(rng.get("q") or rng.get("name"), []) if g.get("const")]
        if rng.get("dk") != "global":        # a function-local (static) constant table
            for d in walk(fn.get("body")):
                if d.get("k") == "decl":
                    tables += [v for v in d.get("vars", []) if v.get("id") == rng.get("id") and
                               (v.get("const") or "const" in (v.get("t") or ""))]
        for g in tables:
            if g.get("init") is None:
                continue
            for row in walk(g["init"]):
                if row.get("k") == "initlist":
                    for e in row.get("e") or []:
                        if isinstance(e, dict) and e.get("k") == "ref" and e.get("dk") == "enumerator" and e.get("enum") == et:
                            keys.add(e["name"])
        if not all(v["name"] in keys for v in enum["values"]):
            return set()
        return self.stmt({"k": "block", "s": tl[:-1]}, depth, fn)

    def _switch(self, n, depth, fn):
        """A switch over an enum whose cases cover every enumerator and each end in break/return:
        intersection of the case bodies."""
        c = n.get("c") or {}
        t = (c.get("ct") or c.get("t") or "").replace("const ", "")
        enum = None
        for q in self.F.enums:
            if q and t and (q == t or q.endswith("::" + t)):
                enum = self.F.enums[q]
        groups, cur, labels, seen = [], None, [], set()
        for st in (n.get("body") or {}).get("s", []):
            k = st.get("k")
            while k in ("case", "default"):
                if cur is not None and cur["open"]:
                    pass            # fall-through into the next label: keep accumulating
                else:
                    cur = {"labels": [], "s": [], "open": True}
                    groups.append(cur)
                cur["labels"].append(st["v"].get("name") if k == "case" and isinstance(st.get("v"), dict) else
                                     ("default" if k == "default" else st.get("cv")))
                st = st["s"]
                k = st.get("k") if isinstance(st, dict) else None
            if cur is None or not isinstance(st, dict):
                continue
            if k in ("break", "return"):
                cur["open"] = False
                if k == "return":
                    cur["s"].append(st)
                continue
            cur["s"].append(st)
        if not groups:
            return set()
        for g in groups:
            seen.update(g["labels"])
        if "default" not in seen:
            if enum is None:
                return set()
            if not all(v["name"] in seen for v in enum["values"]):
                return set()
        res = None
        for g in groups:
            w = self.stmt({"k": "block", "s": g["s"]}, depth, fn)
            res = w if res is None else (res & w)
        return res or set()

    def stmt_expr(self, n, depth):
        if n is None:
            return set()
        out = set(_plain_writes(n))
        if depth > 4:
            return out
        for c in calls(n):
            for t in self.CG.targets(c):
                if t.get("body") is None:
                    continue
                out |= self.fn(t, depth + 1)
                out |= self._recv_writes(c, t, depth + 1)
        return out


def inventory(F):
    """q -> {type, file, line, record fields or None}: every mutable object with static storage duration."""
    inv = {}
    for q, gs in F.globals.items():
        d = [g for g in gs if g.get("definition")] or gs
        g = d[0]
        if g.get("const") or (g.get("t") or "").startswith("const "):
            continue
        f = g.get("file") or ""
        inv[q] = {"t": g.get("t"), "file": f, "line": g.get("line"),
                  "gen": f.endswith(GEN_FILES) and "/gen/" in f}
    for fn in F.functions.values():
        for d in walk(fn.get("body")):
            if d.get("k") != "decl":
                continue
            for x in d.get("vars", []):
                if x.get("static") and not x.get("const") and not (x.get("t") or "").startswith("const "):
                    q = "%s::%s" % (fn["q"], x.get("name"))
                    inv[q] = {"t": x.get("t"), "file": fn["file"], "line": d.get("l"), "gen": False,
                              "staticlocal": True}
    return inv


def user_reads(F, q, fld, CG=None):
    """Hand-written places (file parser.y / lexer.l by #line) that read global q (field fld) without having written
    it earlier in the same straight-line statement list.  Not reads: the target of an assignment or of a
    strcpy-like call; arguments handed to a function of the generated skeleton (that is the scanner's own buffer
    protocol, checked by R-BUFFER)."""
    out = []
    COPY = ("strcpy", "strncpy", "memcpy", "memset", "snprintf", "sprintf")

    def is_target(n):
        g, f = _root(n)
        return g == q and (fld is None or f == fld or f is None)

    def rec(n, cur, fnq, written):
        if isinstance(n, list):
            for x in n:
                rec(x, cur, fnq, written)
            return
        if not isinstance(n, dict):
            return
        cur = n.get("f") or cur
        k = n.get("k")
        if k == "block":
            w = dict(written)
            for st in n.get("s", []):
                if isinstance(st, dict) and st.get("k") in ("case", "default", "break"):
                    w = dict(written)           # a new switch arm starts from what was known before the switch
                rec(st, cur, fnq, w)
                if isinstance(st, dict) and st.get("k") not in ("if", "for", "while", "do", "switch", "try", "case",
                                                                 "default", "block", "rangefor"):
                    for x in walk(st):
                        if x.get("k") == "bin" and x.get("op") == "=" and is_target(x["lhs"]):
                            w["w"] = True
                        if x.get("k") == "call" and x.get("name") in COPY and x.get("args") and is_target(x["args"][0]):
                            w["w"] = True
            return
        if k in ("case", "default"):
            rec(n.get("s"), cur, fnq, written)
            return
        if k == "bin" and n.get("op") == "=":
            if not is_target(n["lhs"]):
                rec(n["lhs"], cur, fnq, written)
            else:
                for part in ("idx",):
                    if n["lhs"].get(part) is not None:
                        rec(n["lhs"][part], cur, fnq, written)
            rec(n["rhs"], cur, fnq, written)
            return
        if k == "call":
            args = n.get("args", [])
            if n.get("name") in COPY and args and is_target(args[0]):
                args = args[1:]
            elif CG is not None:
                ts = CG.targets(n)
                if ts and all((t.get("file") or "").endswith(GEN_FILES) for t in ts):
                    args = []               # handed to the skeleton's own API
            rec(n.get("recv"), cur, fnq, written)
            rec(args, cur, fnq, written)
            return
        hit = False
        if k == "member" and fld is not None:
            b = n.get("base") or {}
            if b.get("k") == "ref" and (b.get("q") or b.get("name")) == q and n.get("name") == fld:
                hit = True
        if k == "ref" and fld is None and (n.get("q") or n.get("name")) == q and n.get("dk") == "global":
            hit = True
        if hit:
            if (cur or "").endswith(USER_FILES) and not written.get("w"):
                out.append("%s (%s:%s)" % (fnq, (cur or "").split("/")[-1], n.get("l")))
            return
        for v in n.values():
            if isinstance(v, (dict, list)):
                rec(v, cur, fnq, written)

    for fn in F.functions.values():
        if (fn.get("file") or "").endswith(USER_FILES + GEN_FILES):     # #line'd user code lives in these only
            rec(fn.get("body"), fn.get("file"), fn["q"], {})
    return sorted(set(out))


def funnels(F):
    """Functions whose body calls utap_parse()."""
    out = []
    for fn in F.functions.values():
        if any(c.get("name") == "utap_parse" for c in calls(fn.get("body"))) and fn["q"] != "utap_parse":
            out.append(fn)
    if len(out) < 1:
        raise AnalysisBroken("no function calls utap_parse()")
    if len(out) < 2:
        # one shared body behind both entry points (`parse_buffer`): fine as long as both still reach it
        reach = {g["name"] for g in F.functions.values() if g.get("body") is not None and
                 any(c.get("fn") == out[0]["q"] or c.get("name") == out[0]["name"] for c in calls(g["body"]))}
        if not {"parse_XTA", "parseProperty"} <= reach:
            raise AnalysisBroken("utap_parse() is called by %s only, which parse_XTA / parseProperty do not both reach" %
                                 out[0]["q"])
    return sorted(out, key=lambda f: (f["q"], len(f["params"])))


def written_before_parse(MW, fn):
    """(global, field) pairs written on every path of fn before its first call of utap_parse()."""
    body = fn["body"]
    if body.get("k") != "block":
        return set()
    out = set()
    stmts = list(body["s"])
    i = 0
    while i < len(stmts):
        s = stmts[i]
        if s.get("k") == "try" and any(c.get("name") == "utap_parse" for c in calls(s.get("body") or {})):
            # `try { <set-up>; utap_parse(); } catch (...) { <settle>; throw; }`: the set-up runs as if it stood outside
            inner = (s.get("body") or {}).get("s", [])
            stmts = stmts[:i] + list(inner) + stmts[i + 1:]
            continue
        if any(c.get("name") == "utap_parse" for c in calls(s)):
            # writes in the same statement before the call are not counted (conservative)
            return out
        out |= MW.stmt(s, 0, fn)
        i += 1
    return out


# ---------------------------------------------------------------------------------------------- grammar order
def grammar_written_before_read(G, name):
    """For a global used only inside grammar actions: is every reading action preceded, in every derivation,
    by an action that (re)writes it?  Returns (ok, detail, n_readers, n_writers)."""
    writes, reads = {}, {}
    for r in G.rules:
        if r.action is None:
            continue
        w = False
        for x in walk(r.action):
            if x.get("k") == "bin" and x.get("op") == "=" and _root(x["lhs"])[0] == name:
                restore = any(y.get("k") == "ref" and y.get("name") == "yyvsp" for y in walk(x["rhs"]))
                if not restore:
                    w = True
            if x.get("k") == "call" and x.get("name") in ("strcpy", "strncpy") and x.get("args") and \
                    _root(x["args"][0])[0] == name:
                w = True
        rd = False
        wnodes = set()
        for x in walk(r.action):
            if x.get("k") == "bin" and x.get("op") == "=" and _root(x["lhs"])[0] == name:
                wnodes.add(id(x["lhs"]))
            if x.get("k") == "call" and x.get("name") in ("strcpy", "strncpy") and x.get("args") and \
                    _root(x["args"][0])[0] == name:
                wnodes.add(id(x["args"][0]))
                for y in walk(x["args"][0]):
                    wnodes.add(id(y))
        for x in walk(r.action):
            # `$$ = g;` saves the value for `g = $k;` later in the same production: the pair is transparent to
            # everything in between (which starts from its own write), so neither is a use or a (re)initialisation
            if x.get("k") == "bin" and x.get("op") == "=" and x["lhs"].get("k") == "member" and \
                    (x["lhs"].get("base") or {}).get("name") == "yyval" and x["rhs"].get("k") == "ref" and \
                    (x["rhs"].get("q") or x["rhs"].get("name")) == name:
                wnodes.add(id(x["rhs"]))
        for x in walk(r.action):
            if x.get("k") == "ref" and (x.get("q") or x.get("name")) == name and x.get("dk") == "global" and \
                    id(x) not in wnodes:
                rd = True
        # `types = $<number>1` style restores and `$$ = types; types = 0` : the read of the old value is a
        # save for a later restore of the *same* parse, still a read
        if w:
            writes[r.num] = True
        if rd:
            reads[r.num] = True
    # a rule that reads and writes: order inside the action decides; treat `x = ..` first statement as write-first
    first_write = set()
    for num in list(reads):
        r = G.rules[num]
        if num in writes:
            ss = r.action.get("s", [])
            flat = []
            for s in ss:
                flat.extend(s.get("s", []) if s.get("k") == "block" else [s])
            if flat and any(g == name for g, _ in _plain_writes(flat[0])) and \
                    not any(x.get("k") == "ref" and (x.get("q") or x.get("name")) == name
                            for x in walk(flat[0].get("rhs") or {})):
                first_write.add(num)
    must = must_write_nonterminals(G, set(writes))

    def preceded(rule, pos, seen):
        """Is position pos (index into rhs; len(rhs) = the end action) of rule preceded by a must-write symbol,
        in every context?"""
        for s in rule.rhs[:pos]:
            if s in must:
                return True
        if rule.lhs == "$accept" or rule.lhs == "Uppaal":
            return False
        key = rule.lhs
        if key in seen:
            return True          # a cycle adds no new context (coinductive: contexts already being checked)
        seen = seen | {key}
        occ = [(r2, i) for r2 in G.rules for i, s in enumerate(r2.rhs) if s == rule.lhs]
        if not occ:
            return False
        return all(preceded(r2, i, seen) for r2, i in occ)

    bad = []
    for num in reads:
        if num in first_write:
            continue
        r = G.rules[num]
        if not preceded(r, len(r.rhs), frozenset()):
            bad.append(r.sig)
    return (not bad, bad, len(reads), len(writes))


def must_write_nonterminals(G, writing_rules):
    """Nonterminals N such that every finite derivation of N executes a writing action (complement of the least
    fixpoint of `may avoid writing`)."""
    avoid = set()
    changed = True
    while changed:
        changed = False
        for n, rules in G.by_lhs.items():
            if n in avoid:
                continue
            for r in rules:
                if r.num in writing_rules:
                    continue
                if all(G.is_terminal(s) or s in avoid for s in r.rhs):
                    avoid.add(n)
                    changed = True
                    break
    return {n for n in G.by_lhs if n not in avoid}


# ---------------------------------------------------------------------------------------------- rules
def run_globals(chk, F, G, CG, rid="R-GLOBALS"):
    chk.rule(rid, "every mutable object with static storage duration is re-initialised before each parse, written "
                  "before read by grammar order, or owned by the generated scanner/parser; anything else carries "
                  "state from one parse into the next")
    MW = MustWrite(F, CG)
    inv = inventory(F)
    if len(inv) < 8:
        raise AnalysisBroken("inventory of static-storage objects has only %d entries" % len(inv))
    fs = funnels(F)
    pre = {f["q"] + "/" + str(len(f["params"])): written_before_parse(MW, f) for f in fs}
    table = {}
    for q, g in sorted(inv.items()):
        name = q.split("::")[-1]
        rec = F.records.get((g["t"] or "").replace("struct ", ""), None) or F.records.get("UTAP::" + (g["t"] or ""))
        fields = [f["name"] for f in rec["fields"]] if rec and rec.get("fields") else [None]
        where = "%s:%s" % (g["file"], g["line"])
        for fld in fields:
            key = q if fld is None else "%s.%s" % (q, fld)
            # (1) reinit at every funnel
            missing = [fq for fq, ws in pre.items()
                       if not ((q, fld) in ws or (q, None) in ws or (name, fld) in ws or (name, None) in ws)]
            if not missing:
                table[key] = "reinit"
                chk.ob(rid, key, True, "%s is written before utap_parse() in %s" % (key, ", ".join(pre)), where)
                continue
            # (2) grammar order
            used_outside = False
            for fn in F.functions.values():
                if fn["q"] == "utap_parse":
                    continue
                for x in walk(fn.get("body")):
                    if x.get("k") == "ref" and (x.get("q") or x.get("name")) == q and x.get("dk") in ("global",):
                        used_outside = True
            if not used_outside and not g["gen"]:
                ok, bad, nr, nw = grammar_written_before_read(G, q)
                if nr or nw:
                    table[key] = "grammar" if ok else "carried"
                    chk.ob(rid, key, ok,
                           "%s is read by the action of %s without a preceding write in the same parse: the value "
                           "left by the previous parse is used" % (key, ", ".join("`%s`" % b for b in bad[:3]))
                           if not ok else "%s: %d reading and %d writing actions, every reader preceded by a writer in "
                                          "every derivation" % (key, nr, nw), where)
                    continue
            # (3) generator-owned: the skeletons look after their own variables, but one that hand-written code
            #     (parser.y / lexer.l sections) *reads* is only as fresh as the last hand-written or skeleton write:
            #     yytext/yyleng are set by the scanner skeleton before every action; anything else read by user
            #     code must be re-initialised at entry (class 1 above)
            if g["gen"]:
                readers = user_reads(F, q, fld, CG)
                if readers and name not in SKELETON_SETS_BEFORE_ACTION:
                    table[key] = "carried"
                    chk.ob(rid, key, False,
                           "%s belongs to the generated parser but is read by hand-written code (%s) and is not "
                           "re-initialised before utap_parse() in %s: until the scanner has produced a token of the "
                           "current input it still holds what the previous parse left" %
                           (key, ", ".join(readers[:3]), ", ".join(missing)), where)
                    continue
                table[key] = "gen"
                chk.ob(rid, key, True, "%s belongs to the generated scanner/parser (protocol: R-BUFFER, R-STARTCOND)"
                       % key, where)
                continue
            table[key] = "carried"
            chk.ob(rid, key, False,
                   "%s is never re-initialised (not written before utap_parse() in %s): what a parse observes in it "
                   "depends on the parses the process made before" % (key, ", ".join(missing)), where)
    chk.analysed[rid] = {"objects": len(inv), "classification": table, "entry_functions": sorted(pre)}
    return table, pre


def run_startcond(chk, F, CG, L, rid="R-STARTCOND"):
    chk.rule(rid, "the scanner's start condition cannot leak into the next parse: every function that calls "
                  "utap_parse() sets it to INITIAL first, or every exit from the scanner in another start condition "
                  "(return, or a call that may throw) is preceded by BEGIN(INITIAL)")
    MW = MustWrite(F, CG)
    fs = funnels(F)
    reset_everywhere = True
    for f in fs:
        ws = written_before_parse(MW, f)
        sets = ("yy_start", None) in ws
        # and the value must be INITIAL (1 + 2*0)
        val_ok = False
        bodies, seen_q = [f], {f["q"]}
        for c in calls(f["body"]):
            for t in CG.targets(c):
                if t.get("body") is not None and t["q"] not in seen_q and (t.get("file") or "").endswith(USER_FILES):
                    seen_q.add(t["q"])
                    bodies.append(t)
        for b in bodies:
            for x in walk(b["body"]):
                if x.get("k") == "bin" and x.get("op") == "=" and _root(x["lhs"])[0] == "yy_start":
                    val_ok = x["rhs"].get("cv") == 1
        if not (sets and val_ok):
            reset_everywhere = False
    exits = []
    for r in L.rules:
        scs = [s for s in r.sc.split(",") if s != "INITIAL"]
        if not scs or r.action is None:
            continue
        state = {"initial": False}

        def scan(n):
            """in-order walk: returns list of (kind, node) exits taken while not in INITIAL."""
            if isinstance(n, list):
                for x in n:
                    scan(x)
                return
            if not isinstance(n, dict):
                return
            k = n.get("k")
            if k == "bin" and n.get("op") == "=" and _root(n["lhs"])[0] == "yy_start":
                state["initial"] = n["rhs"].get("cv") == 1
                return
            if k == "return":
                scan(n.get("e"))
                if not state["initial"]:
                    exits.append((r, "return", n))
                return
            if k == "call":
                for a in n.get("args", []):
                    scan(a)
                th = CG.may_throw(n)
                if th and not state["initial"]:
                    exits.append((r, "call %s may throw %s" % (n.get("name"), sorted(t[0] for t in th)[:2]), n))
                return
            for v in n.values():
                if isinstance(v, (dict, list)):
                    scan(v)
        scan(r.action)
        if r.eof and not any(e[0] is r for e in exits) and not state["initial"]:
            exits.append((r, "end of input without BEGIN(INITIAL)", r.action))
    # an exclusive start condition without its own <<EOF>> rule ends the scan in that condition
    for sc in L.exclusive:
        if not any(r.eof and sc in r.sc.split(",") for r in L.rules):
            exits.append((None, "start condition <%s> has no <<EOF>> rule: input ending there leaves it set" % sc, {}))
    for f in fs:
        chk.ob(rid, "entry|%s/%d" % (f["name"], len(f["params"])), reset_everywhere or not exits,
               "%s does not reset the start condition and the scanner can be left in another one" % f["q"]
               if not (reset_everywhere or not exits) else
               ("%s sets the start condition to INITIAL before utap_parse()" % f["q"] if reset_everywhere else
                "%s relies on the scanner always returning in INITIAL (checked per rule)" % f["q"]),
               "%s:%s" % (f["file"], f["line"]))
    for r, why, n in exits:
        key = "exit|<%s>%s|%s" % (r.sc if r else "?", r.text if r else "", why.split(" [")[0][:60])
        chk.ob(rid, key, reset_everywhere,
               "lexer rule %s leaves the scanner outside INITIAL (%s) and no entry point resets it: the next parse "
               "in the process is read in that start condition" % (r, why),
               "src/lexer.l:%s" % (r.line if r else "?"))
    if not reset_everywhere and not exits:
        chk.note("no scanner exit outside INITIAL found; entry points do not reset the start condition")
    chk.analysed[rid] = {"entry_resets_start_condition": reset_everywhere, "exits_outside_INITIAL":
                         ["%s: %s" % (r, why) for r, why, _ in exits]}


def run_buffer(chk, F, CG, rid="R-BUFFER"):
    chk.rule(rid, "every function that reaches utap_parse() from outside installs a fresh scan buffer "
                  "(utap__scan_string / utap__switch_to_buffer(utap__create_buffer)) before and deletes the current "
                  "buffer after the parse - itself or through the helpers it calls")
    fs = funnels(F)

    def closure(fn, seen=None):
        """names of everything called from fn, through user-code helpers (lambda bodies are part of the body)"""
        seen = seen if seen is not None else set()
        out = set()
        for c in calls(fn.get("body")):
            out.add(c.get("name"))
            for t in CG.targets(c):
                if t.get("body") is not None and t["q"] + str(t.get("sig")) not in seen and \
                        (t.get("file") or "").endswith(USER_FILES):
                    seen.add(t["q"] + str(t.get("sig")))
                    out |= closure(t, seen)
                    if t in fs:
                        out.add("<funnel>")
        return out
    n = 0
    for fn in F.functions.values():
        if not (fn.get("file") or "").endswith(USER_FILES) or fn in fs or fn.get("static") or fn.get("templated"):
            continue
        cl = closure(fn)
        if "<funnel>" not in cl:
            continue
        n += 1
        ok_b = "utap__scan_string" in cl or ("utap__switch_to_buffer" in cl and "utap__create_buffer" in cl)
        ok_a = "utap__delete_buffer" in cl
        # the install must come first: the first top-level statement that reaches the funnel is preceded by it
        body = fn["body"].get("s", [])
        first_funnel = first_install = None
        for i, st in enumerate(body):
            names = set()
            for c in calls(st):
                names.add(c.get("name"))
                for t in CG.targets(c):
                    if t in fs:
                        names.add("<funnel>")
                    elif t.get("body") is not None and (t.get("file") or "").endswith(USER_FILES):
                        names |= closure(t)
            if first_install is None and ("utap__scan_string" in names or "utap__switch_to_buffer" in names):
                first_install = i
            if first_funnel is None and "<funnel>" in names and not (names & {"utap__scan_string"}) :
                first_funnel = i
        order_ok = first_install is not None and (first_funnel is None or first_install <= first_funnel)
        chk.ob(rid, "%s/%d" % (fn["name"], len(fn["params"])), ok_b and ok_a and order_ok,
               "%s parses without %s" % (fn["q"], "installing a fresh buffer first" if not (ok_b and order_ok)
                                         else "deleting its buffer")
               if not (ok_b and ok_a and order_ok) else "%s: buffer installed before and deleted after the parse" % fn["q"],
               "%s:%s" % (fn["file"], fn["line"]))
    if n < 3:
        raise AnalysisBroken("only %d buffer-managing entry points found" % n)


def fkey_params(c):
    return len(c.get("args", []))


# ---------------------------------------------------------------------------------------------- errno
def run_errno(chk, F, rid="R-ERRNO"):
    """errno is process-global and is left behind by unrelated earlier calls (strtod/atof range errors, a failed
    open).  It may be *reported* (copied into an exception), but it must not decide anything - which exception
    class is thrown, which branch is taken - unless the same function cleared it before the call it reports on."""
    chk.rule(rid, "errno never decides control flow (condition of if / ?: / switch / loop) unless the function assigns "
                  "errno = 0 beforehand; copying it into an exception object is allowed")
    n = 0
    for fn in F.functions.values():
        if not (fn.get("file") or "").startswith(("/repo", front_repo())) and "/src/" not in (fn.get("file") or ""):
            continue
        body = fn.get("body")
        uses = [x for x in walk(body) if x.get("k") == "call" and x.get("name") == "__errno_location"]
        if not uses:
            continue
        cleared_lines = [x.get("l") for x in walk(body)
                         if x.get("k") == "bin" and x.get("op") == "=" and
                         any(y.get("k") == "call" and y.get("name") == "__errno_location" for y in walk(x["lhs"])) and
                         x["rhs"].get("k") == "int" and x["rhs"].get("v") == 0]

        # locals that hold a copy of errno (`const auto err = errno;`, also as an if-init)
        tainted = set()
        for d in walk(body):
            if d.get("k") == "decl":
                for v in d.get("vars", []):
                    if v.get("init") is not None and any(y.get("k") == "call" and y.get("name") == "__errno_location"
                                                         for y in walk(v["init"])):
                        tainted.add(v.get("id"))
        for x in walk(body):
            if x.get("k") == "bin" and x.get("op") == "=" and x["lhs"].get("k") == "ref" and \
                    any(y.get("k") == "call" and y.get("name") == "__errno_location" for y in walk(x["rhs"])):
                tainted.add(x["lhs"].get("id"))

        def conds(node, out):
            if isinstance(node, list):
                for y in node:
                    conds(y, out)
                return
            if not isinstance(node, dict):
                return
            k = node.get("k")
            if k in ("if", "while", "for", "do", "switch", "cond") and node.get("c") is not None:
                for y in walk(node["c"]):
                    if y.get("k") == "call" and y.get("name") == "__errno_location":
                        out.append(y)
                    if y.get("k") == "ref" and y.get("id") in tainted and y.get("id") is not None:
                        out.append(y)
            for v in node.values():
                if isinstance(v, (dict, list)):
                    conds(v, out)
        deciding = []
        conds(body, deciding)
        n += 1
        bad = [d for d in deciding if not any(cl is not None and cl < (d.get("l") or 0) for cl in cleared_lines)]
        chk.ob(rid, fn["q"].split("::")[-1] + "|errno", not bad,
               "%s branches on errno (line %s) without having cleared it: what it does depends on whether an earlier, "
               "unrelated call of the process left errno set (e.g. the exception class for a truncated document)" %
               (fn["q"], ", ".join(str(d.get("l")) for d in bad)) if bad else
               "%s only reports errno (%d use(s)), it does not branch on it" % (fn["q"], len(uses)),
               "%s:%s" % (fn["file"], uses[0].get("l")))
    if n == 0:
        chk.note("no use of errno in the library")
        chk.ob(rid, "none", True, "the library does not use errno")


def front_repo():
    from ..front import REPO
    return REPO
