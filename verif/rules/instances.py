"""R-INST (C08, C04): how a (partial) instantiation is recorded.

    P(params) = T(args);      T is the *source* instance (a template or an earlier partial instance)

Document::add_instance / add_LSC_instance / instance_line_t::add_parameters must produce
    NEW.unbound    = |params|
    NEW.parameters = params ++ SRC.parameters          (unbound parameters first)
    NEW.mapping    = SRC.mapping  +  { SRC.parameters[i] -> args[i] }      for every i < |args|
    NEW.arguments  = |args|,   NEW.templ = SRC.templ
The key of a binding is the i-th parameter of the source instance - the same frame whose size the builder compared
the number of arguments with - not of the new instance (whose frame starts with its own parameters) and not of the
underlying template (which a chain of partial instantiations has already partly bound).

The rule reads the three functions through one level of helper calls (a shared `bind`/`add_parameters` helper is a
likely refactoring), resolving helper parameters and `this` back to the roles SRC / NEW / PARAMS / ARGS.
"""
from ..front import AnalysisBroken
from ..facts import walk, short, calls
from ..inline import expanded_fn

TARGETS = [("UTAP::Document::add_instance", 5), ("UTAP::Document::add_LSC_instance", 5),
           ("UTAP::instance_line_t::add_parameters", 3)]


class Flat:
    def __init__(self, F):
        self.F = F
        self.assigns = []      # (lhs path, rhs path, line, in_loop)
        self.adds = []         # (receiver path, argument path, line)
        self.order = []        # event log for ordering checks

    def path(self, e, env):
        if e is None:
            return env.get("this", "?")
        k = e.get("k")
        if k in ("cast", "defarg"):
            return self.path(e["e"], env)
        if k == "construct" and len(e.get("args", [])) == 1:
            return self.path(e["args"][0], env)
        if k == "this":
            return env.get("this", "?")
        if k == "un" and e.get("op") in ("*", "&"):
            return self.path(e["e"], env)
        if k == "ref":
            return env.get(("v", e.get("id")), env.get(("n", e.get("name")), e.get("name")))
        if k == "member":
            b = e.get("base")
            base = env.get("this", "?") if (b is None or b.get("k") == "this") else self.path(b, env)
            return "%s.%s" % (base, e.get("name"))
        if k == "sub":
            return "%s[%s]" % (self.path(e["base"], env), self.path(e["idx"], env))
        if k == "call":
            if e.get("ck") == "op" and e.get("op") == "[]":
                r = e.get("recv") or (e.get("args") or [None])[0]
                a = e["args"][-1] if e.get("args") else None
                return "%s[%s]" % (self.path(r, env), self.path(a, env) if a is not None else "?")
            if e.get("name") in ("get_size", "size") and e.get("recv") is not None:
                return "%s.%s()" % (self.path(e["recv"], env), e["name"])
            return short(e)[:50]
        if k == "int":
            return str(e.get("v"))
        return short(e)[:50]

    def run(self, fn, env, depth=0, in_loop=False):
        self._stmt(fn["body"], env, depth, in_loop, fn)

    def _stmt(self, n, env, depth, in_loop, fn):
        if isinstance(n, list):
            for x in n:
                self._stmt(x, env, depth, in_loop, fn)
            return
        if not isinstance(n, dict):
            return
        k = n.get("k")
        if k in ("for", "while", "rangefor", "do"):
            for key, v in n.items():
                if isinstance(v, (dict, list)):
                    self._stmt(v, env, depth, True, fn)
            return
        if k == "decl":
            for v in n.get("vars", []):
                init = v.get("init")
                if init is not None:
                    t = (v.get("t") or "")
                    if "instance_t" in t and "&" in t and any(c.get("name") == "emplace_back" for c in walk(init)):
                        env[("v", v.get("id"))] = "NEW"
                    elif "&" in t or "*" in t:
                        env[("v", v.get("id"))] = self.path(init, env)
                    self._stmt(init, env, depth, in_loop, fn)
            return
        if k == "bin" and n.get("op") == "=":
            self.assigns.append((self.path(n["lhs"], env), self.path(n["rhs"], env), n.get("l"), in_loop))
            self._stmt(n["rhs"], env, depth, in_loop, fn)
            return
        if k == "call":
            if n.get("ck") == "op" and n.get("op") == "=":
                lhs = n.get("recv") or (n.get("args") or [None])[0]
                rhs = n["args"][-1] if n.get("args") else None
                self.assigns.append((self.path(lhs, env), self.path(rhs, env), n.get("l"), in_loop))
                return
            if n.get("name") == "add" and n.get("recv") is not None and n.get("args"):
                self.adds.append((self.path(n["recv"], env), self.path(n["args"][0], env), n.get("l")))
                return
            # helper with a body in the library that is handed one of the roles
            if depth < 2 and n.get("fn"):
                argp = [self.path(a, env) for a in n.get("args", [])]
                recvp = self.path(n["recv"], env) if n.get("recv") is not None else env.get("this")
                roles = ("SRC", "NEW", "ARGS", "PARAMS")
                if any(p.split(".")[0].split("[")[0] in roles for p in argp + [recvp or ""]):
                    for t in self.F.fns(n["fn"]):
                        if t.get("body") is None or len(t["params"]) != len(n.get("args", [])):
                            continue
                        if not (t.get("file") or "").endswith(("document.cpp", "document.h")):
                            continue
                        env2 = {"this": recvp or "?"}
                        for p, ap in zip(t["params"], argp):
                            env2[("n", p["name"])] = ap
                        self.run(t, env2, depth + 1, in_loop)
                        return
        for key, v in n.items():
            if isinstance(v, (dict, list)) and key not in ("pt", "cpt"):
                self._stmt(v, env, depth, in_loop, fn)


def run(chk, F, rid="R-INST"):
    chk.rule(rid, "add_instance / add_LSC_instance / add_parameters bind args[i] to the i-th parameter of the SOURCE "
                  "instance, put the new instance's own (unbound) parameters first, inherit the source's bindings and "
                  "record the counts; checked through one level of helper functions")
    for q, npar in TARGETS:
        if q.endswith("::add_parameters"):
            # the method instance lines are set up with; it may live in the base class after a refactoring
            fn = F.resolve_method("UTAP::instance_line_t", "add_parameters", npar)
            if fn is None:
                raise AnalysisBroken("instance_line_t has no add_parameters/%d" % npar)
        else:
            fn = F.fn(q, npar)
        env = {"this": "NEW" if q.endswith("::add_parameters") else "DOC"}
        for p in fn["params"]:
            t = p.get("t") or ""
            if "instance_t" in t and "&" in t:
                env[("n", p["name"])] = "SRC"
            elif "frame_t" in t:
                env[("n", p["name"])] = "PARAMS"
            elif "vector" in t and "expression_t" in t:
                env[("n", p["name"])] = "ARGS"
        if "SRC" not in env.values() or "ARGS" not in env.values() or "PARAMS" not in env.values():
            raise AnalysisBroken("%s: cannot identify source instance / parameter frame / arguments among %s" %
                                 (q, [p["name"] for p in fn["params"]]))
        fl = Flat(F)
        fl.run(fn, env)
        where = "%s:%s" % (fn["file"], fn["line"])
        name = q.split("::")[-1]
        A = {lhs: (rhs, l, lp) for lhs, rhs, l, lp in fl.assigns}
        binds = [(lhs, rhs, l, lp) for lhs, rhs, l, lp in fl.assigns if lhs.startswith("NEW.mapping[")]
        ok = len(binds) == 1
        why = "expected exactly one binding statement, found %d" % len(binds)
        if ok:
            lhs, rhs, l, lp = binds[0]
            key = lhs[len("NEW.mapping["):-1]
            idx = key[key.rfind("[") + 1:-1] if key.endswith("]") else None
            ok = lp and idx is not None and key == "SRC.parameters[%s]" % idx and rhs == "ARGS[%s]" % idx
            why = "binds `%s` to `%s`: the key must be the i-th parameter of the source instance (SRC.parameters[i]) " \
                  "and the value ARGS[i]; with the new instance's own frame or the template's frame, a partial " \
                  "instantiation that declares parameters of its own, or an instantiation of a partial instance, " \
                  "binds the wrong parameters" % (key, rhs)
        chk.ob(rid, "%s|binding" % name, ok, "%s %s" % (q, why), where)
        chk.ob(rid, "%s|unbound" % name, A.get("NEW.unbound", ("",))[0] == "PARAMS.get_size()",
               "%s sets unbound to `%s` instead of the number of the new instance's own parameters" %
               (q, A.get("NEW.unbound", ("nothing",))[0]), where)
        pa = A.get("NEW.parameters", ("", 0))
        added = [a for a in fl.adds if a[0] == "NEW.parameters"]
        ok = pa[0] == "PARAMS" and len(added) == 1 and added[0][1] == "SRC.parameters" and (added[0][2] or 0) >= (pa[1] or 0)
        chk.ob(rid, "%s|unbound-first" % name, ok,
               "%s does not build the parameter frame as own parameters followed by the source's (parameters = %s, "
               "added %s): instances must list their unbound parameters first" % (q, pa[0], [a[1] for a in added]), where)
        chk.ob(rid, "%s|inherit-mapping" % name, A.get("NEW.mapping", ("",))[0] == "SRC.mapping",
               "%s does not start from the source instance's bindings" % q, where)
        chk.ob(rid, "%s|templ" % name, A.get("NEW.templ", ("",))[0] == "SRC.templ",
               "%s does not take the template from the source instance" % q, where)
        chk.ob(rid, "%s|arguments" % name, A.get("NEW.arguments", ("",))[0] == "ARGS.size()",
               "%s does not record the number of arguments" % q, where)
    # the caller compares the number of arguments with the size of the same frame
    ie = F.fn("UTAP::DocumentBuilder::instantiation_end")
    guarded = False
    for n in walk(ie["body"]):
        if n.get("k") == "if" and "arguments" in short(n["c"]) and "expected" in short(n["c"]):
            guarded = True
    adds = [c for c in walk(ie["body"]) if c.get("k") == "call" and c.get("name") in ("add_instance", "add_LSC_instance")]
    chk.ob(rid, "instantiation_end|arity", guarded and len(adds) == 2,
           "instantiation_end does not compare the number of arguments with the number of parameters before binding",
           "%s:%s" % (ie["file"], ie["line"]))


def run_arity_sync(chk, F, rid="R-ARITYSYNC"):
    """`every instance has a type whose arity equals its number of unbound parameters`: the type is created from the
    parameter frame in the same function that stores that frame and its size.  Any function that assigns
    instance_t::unbound or instance_t::parameters must therefore also give the symbol a type built from the same
    frame (create_instance / create_LSC_instance / create_process* + add_symbol or set_type) - otherwise the three
    drift apart."""
    chk.rule(rid, "every function that assigns instance_t::unbound or ::parameters also creates the instance's symbol "
                  "type from that parameter frame in the same function (or is the instance-line helper, whose objects "
                  "carry no instance type)")
    n = 0
    for fn in F.functions.values():
        if not (fn.get("file") or "").endswith((".cpp", ".h", ".hpp")):
            continue
        hits = set()
        for x in walk(fn.get("body")):
            lhs = None
            if x.get("k") == "bin" and x.get("op") == "=":
                lhs = x["lhs"]
            elif x.get("k") == "call" and x.get("ck") == "op" and x.get("op") == "=":
                lhs = x.get("recv") or (x.get("args") or [None])[0]
            if isinstance(lhs, dict) and lhs.get("k") == "member" and lhs.get("name") in ("unbound", "parameters") and \
                    lhs.get("of") == "UTAP::instance_t":
                hits.add(lhs["name"])
        if not hits:
            continue
        # a file-local worker (`static instance_t& append_instance(list&, frame&, name, type, ...)`) is judged through
        # the functions that call it, with the worker expanded into them
        units = [fn]
        if fn.get("static") and not fn.get("cls"):
            callers = [g for g in F.functions.values() if g.get("file") == fn.get("file") and g["q"] != fn["q"] and
                       any(c.get("fn") == fn["q"] for c in calls(g.get("body")))]
            if callers:
                units = [expanded_fn(g, F) for g in callers]
        for u in units:
            n += 1
            names = {c.get("name") for c in walk(u["body"]) if c.get("k") == "call"}
            typed = bool(names & {"create_instance", "create_LSC_instance", "create_process", "create_process_set"}) and \
                bool(names & {"add_symbol", "set_type"})
            exempt = u["q"].endswith("::add_parameters")   # instance lines: registered by instance_name with a primitive type
            chk.ob(rid, u["q"].split("::")[-1], typed or exempt,
                   "%s assigns instance_t::%s but does not (re)create the symbol's instance type from the same parameter "
                   "frame: the arity of the type and the number of unbound parameters can differ afterwards" %
                   (u["q"], "/".join(sorted(hits))), "%s:%s" % (u["file"], u["line"]))
    if n < 2:
        raise AnalysisBroken("only %d functions assign instance_t::unbound/parameters" % n)
