"""R-LALR: the resolved LALR(1) action of every (state, operator look-ahead) agrees with
the operator table of the UPPAAL language reference.

The oracle SPEC_OPS is keyed by *lexeme* and independent of parser.y's %left/%right
lines: those are what is being checked (through the automaton bison builds from them).
"""
from ..front import AnalysisBroken
from ..lexer import pat_literal

# Operator table, tightest first.  (lexemes, role, associativity).  Transcribed from the UPPAAL
# language reference, "Expressions": () [] .  >  ! not ++ -- unary-  >  * / %  >  - +  >  << >>  >
# <? >?  >  < <= >= >  >  == !=  >  &  >  ^  >  |  >  && and  >  || or imply  >  ?:  >  = := += ...
# >  forall exists sum.  Extensions the reference table omits are marked ext.
SPEC_OPS = [
    # level, role, assoc, lexemes, ext
    (1, "postfix", "left", ["(", "[", ".", "'", "++", "--"], False),   # ' (rate) is postfix like ++ (ext)
    (2, "prefix", "right", ["!", "not", "++", "--", "-", "+"], False),
    (3, "infix", "left", ["**"], True),
    (4, "infix", "left", ["*", "/", "%"], False),
    (5, "infix", "left", ["-", "+"], False),
    (6, "infix", "left", ["<<", ">>"], False),
    (7, "infix", "left", ["<?", ">?"], False),
    (8, "infix", "left", ["<", "<=", ">=", ">"], False),
    (9, "infix", "left", ["==", "!="], False),
    (10, "infix", "left", ["&"], False),
    (11, "infix", "left", ["^"], False),
    (12, "infix", "left", ["|"], False),
    (13, "infix", "left", ["&&", "and"], False),
    (14, "infix", "left", ["||", "or", "imply", "xor"], False),       # xor: ext, on the `or` level
    (15, "ternary", "right", ["?"], False),
    (16, "assign", "right", ["=", ":=", "+=", "-=", "*=", "/=", "%=", "|=", "&=", "^=", "<<=", ">>="], False),
    (17, "quantifier", "right", ["forall", "exists", "sum", "foreach"], False),
]
# As a *completed rule* the conditional operator sits on the assignment level (a ? b : c = d is
# a ? b : (c = d), as in C++; parser.y says so with %prec T_ASSIGNMENT); as a look-ahead `?` binds
# tighter than assignment (a = b ? c : d is a = (b ? c : d)).  See DESIGN.md C02.
TERNARY_RULE_LEVEL = 16

EXPR_FAMILY = ("Expression", "Assignment", "DynamicExpression")


def lexeme_tokens(L, K):
    """lexeme -> token name, from the literal lexer rules and the keyword table."""
    lt = L.literal_tokens()
    out = {}
    for lx, toks in lt.items():
        toks = {t for t in toks if t != "T_ERROR"}
        if len(toks) == 1:
            out[lx] = next(iter(toks))
    for kw, (tok, _) in K.map.items():
        out.setdefault(kw, tok)
    return out


def build_spec(L, K, G, chk, rid):
    """token -> {role -> (level, assoc)}; every lexeme of the table must be lexed to a token the
    grammar knows, and lexemes sharing a token must share level and role."""
    lx2tok = lexeme_tokens(L, K)
    spec = {}
    for level, role, assoc, lexemes, ext in SPEC_OPS:
        for lx in lexemes:
            tok = lx2tok.get(lx)
            ok = tok is not None and tok in G.terminals
            chk.ob(rid, "lexeme:%s:%s" % (role, lx), ok,
                   "operator lexeme %r (%s, level %d) is lexed to a grammar token" % (lx, role, level),
                   "src/lexer.l", sample="%r -> %s (%s level %d %s)" % (lx, tok, role, level, assoc))
            if not ok:
                continue
            prev = spec.setdefault(tok, {}).get(role)
            if prev is not None and prev != (level, assoc):
                chk.ob(rid, "alias-level:%s" % tok, False,
                       "token %s is produced by lexemes of different precedence levels (%s vs %s)" %
                       (tok, prev, (level, assoc)), "src/lexer.l")
            spec[tok][role] = (level, assoc)
    return spec, lx2tok


def strip_mid(G, rhs):
    return [s for s in rhs if not (s.startswith("$@") or s.startswith("@"))]


def single_token_alternatives(G, nt):
    """If every alternative of nt is a single terminal, the set of those terminals."""
    out = set()
    for r in G.by_lhs.get(nt, []):
        if len(r.rhs) != 1 or not G.is_terminal(r.rhs[0]):
            return None
        out.add(r.rhs[0])
    return out or None


def classify(G, r, spec):
    """(role, operator tokens) of an expression-family rule, or None if it is not an operator rule.
    Purely structural: decided by where Expression operands and terminals sit in the RHS."""
    if r.lhs not in EXPR_FAMILY:
        return None
    rhs = strip_mid(G, r.rhs)
    E = "Expression"
    n = len(rhs)
    if n == 3 and rhs[0] == E and rhs[2] == E:
        op = rhs[1]
        if G.is_terminal(op):
            return ("infix", {op})
        alts = single_token_alternatives(G, op)
        if alts:
            return ("assign" if all("assign" in spec.get(t, {}) for t in alts) else "infix", alts)
    if n == 2 and rhs[1] == E and rhs[0] != E:
        op = rhs[0]
        if G.is_terminal(op):
            return ("prefix", {op})
        alts = single_token_alternatives(G, op)
        if alts:
            return ("prefix", alts)
    if n == 2 and rhs[0] == E and G.is_terminal(rhs[1]):
        return ("postfix", {rhs[1]})
    if n == 5 and rhs[0] == E and rhs[2] == E and rhs[4] == E and G.is_terminal(rhs[1]) and G.is_terminal(rhs[3]):
        return ("ternary", {rhs[1]})
    if n >= 3 and rhs[-1] == E and G.is_terminal(rhs[0]) and "quantifier" in spec.get(rhs[0], {}):
        if "Type" not in rhs:
            # quantification over the instances of a dynamic template (`sum (p : Tmpl) e`): an SMC
            # extension with no documented precedence level; not part of the oracle (see DESIGN C02)
            return None
        return ("quantifier", {rhs[0]})
    if n >= 3 and rhs[0] == E and G.is_terminal(rhs[1]) and "postfix" in spec.get(rhs[1], {}):
        return ("postfix", {rhs[1]})      # call, subscript, dot
    return None


def run(chk, F, G, L, K):
    rid = "R-LALR"
    chk.rule(rid, "for every automaton state holding a completed right-open operator item and every "
                  "operator look-ahead: action == reduce iff the rule binds tighter than the look-ahead "
                  "(or equal level and left-associative), else shift; oracle = SPEC_OPS keyed by lexeme")
    spec, lx2tok = build_spec(L, K, G, chk, rid)
    if len(spec) < 30:
        raise AnalysisBroken("operator table resolves to only %d tokens" % len(spec))

    # rule levels
    rule_info = {}
    for r in G.rules:
        c = classify(G, r, spec)
        if c is None:
            continue
        role, toks = c
        levels = set()
        for t in toks:
            s = spec.get(t, {}).get(role)
            if s is None:
                levels.add(None)
            else:
                levels.add(s)
        if None in levels:
            # an operator-shaped production whose token the table does not know: a new operator.
            missing = sorted(t for t in toks if role not in spec.get(t, {}))
            if role in ("infix", "prefix", "assign", "ternary"):
                chk.ob(rid, "unknown-op:%s:%s" % (role, ",".join(missing)), False,
                       "production %s is a %s operator production but the language operator table has no %s "
                       "operator spelled by token(s) %s" % (r.sig, role, role, missing), "src/parser.y:%s" % r.line)
            continue
        if len(levels) != 1:
            chk.ob(rid, "mixed-levels:%s" % r.sig, False,
                   "production %s covers operators of different levels %s" % (r.sig, sorted(levels)),
                   "src/parser.y:%s" % r.line)
            continue
        level, assoc = levels.pop()
        if role == "ternary":
            level = TERNARY_RULE_LEVEL
        rule_info[r.num] = (role, level, assoc, toks)

    # continuation look-aheads: token -> (level, assoc, role) as look-ahead
    la_spec = {}
    for tok, roles in spec.items():
        for role in ("postfix", "infix", "ternary", "assign"):
            if role in roles:
                la_spec[tok] = (roles[role][0], roles[role][1], role)
                break

    right_open = {n for n, (role, *_rest) in rule_info.items()
                  if strip_mid(G, G.rules[n].rhs)[-1] == "Expression"}
    nstates = 0
    for st in G.states:
        comp = [rn for (rn, dot) in st.items if dot == len(G.rules[rn].rhs) and rn in right_open]
        if not comp:
            continue
        nstates += 1
        for rn in comp:
            role, level, assoc, toks = rule_info[rn]
            r = G.rules[rn]
            for la, (la_level, la_assoc, la_role) in sorted(la_spec.items()):
                if la in st.shifts:
                    act = "shift"
                elif la in st.reductions:
                    act = "reduce" if rn in st.reductions[la] else "reduce-other:%s" % st.reductions[la]
                elif st.default is not None:
                    act = "reduce" if st.default == rn else "reduce-other:%s" % st.default
                else:
                    act = "error"
                # can `la` follow here at all?  If neither an item shifts it nor LALR look-ahead sets
                # contain it, the combination is unreachable in any valid text: nothing to decide.
                if la in st.errors:
                    act = "nonassoc-error"
                elif act == "error":
                    continue
                if level < la_level:
                    want = "reduce"
                elif level > la_level:
                    want = "shift"
                else:
                    want = "reduce" if assoc == "left" else "shift"
                key = "state:%s|%s" % (r.sig, la)
                chk.ob(rid, key, act == want,
                       "after `%s` with look-ahead %s (%s, level %d) the parser must %s (rule level %d, %s) but it "
                       "does %s" % (r.sig, la, la_role, la_level, want, level, assoc, act),
                       "src/parser.y:%s state %d" % (r.line, st.num),
                       sample="state %d: %s . %s -> %s" % (st.num, r.sig, la, act))
    chk.analysed["R-LALR"] = {"states_with_completed_operator_item": nstates,
                              "operator_rules": len(rule_info), "lookahead_tokens": len(la_spec),
                              "automaton_states": len(G.states), "grammar_rules": len(G.rules)}
    return spec, lx2tok, rule_info


