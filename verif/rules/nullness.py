"""R-NULL: nullable C-string flows from XML attributes / node values to sinks that require non-null.

Sources   XMLReader::getAttribute (absent attribute), xmlTextReaderGetAttribute, xmlTextReaderValue /
          xmlTextReaderConstValue (no value on the current node)
Sinks     construction / assignment of std::string or std::string_view from the pointer, strlen/strcmp/...,
          dereference, and - interprocedurally - passing it to a parameter that reaches such a sink before any
          null test (parameter summaries computed to a fixpoint over the resolved call graph; virtual callbacks
          through class-hierarchy analysis).
Guards    if (p), if (!p) return/throw, p ? .. : .., p == nullptr ? .. : .., p != nullptr && ..
"""
from ..facts import walk, short
from ..front import AnalysisBroken
from ..callgraph import fkey_of_fn

SOURCES = {"getAttribute", "xmlTextReaderGetAttribute", "xmlTextReaderValue", "xmlTextReaderConstValue"}
# the node value is non-null when the current node was tested to be a text node
VALUE_SOURCES = {"xmlTextReaderValue", "xmlTextReaderConstValue"}
NULL_TOLERANT = {"xmlFree", "free", "operator delete", "operator delete[]"}
CSINKS = {"strlen", "strcmp", "strcasecmp", "strncmp", "atoi", "atof", "strtol", "strdup", "strcpy", "strncpy",
          "puts", "strchr", "strstr"}
MAYBE, NONNULL = "maybe", "nonnull"


def is_cstr(t):
    t = (t or "").replace("const ", "").replace(" ", "")
    return t in ("char*", "xmlChar*", "unsignedchar*")


class Finding:
    def __init__(self, fn, node, what, var, origin, chain=()):
        self.fn, self.node, self.what, self.var, self.origin, self.chain = fn, node, what, var, origin, chain


class NullAnalysis:
    def __init__(self, F, CG):
        self.F, self.CG = F, CG
        self.unsafe = {}          # fkey -> {param index: description of the sink}
        self.findings = []

    # ---------------------------------------------------------------- driver
    def solve(self, scope_pred):
        fns = [fn for fn in self.F.functions.values() if scope_pred(fn)]
        for _ in range(5):
            changed = False
            for fn in fns:
                ptr_params = [i for i, p in enumerate(fn["params"]) if is_cstr(p["ct"])]
                if not ptr_params:
                    continue
                st = {("p", fn["params"][i]["name"]): (MAYBE, ("param", i)) for i in ptr_params}
                fs = self.analyse(fn, st)
                un = {}
                for f in fs:
                    if f.origin and f.origin[0] == "param":
                        un.setdefault(f.origin[1], f.what + " in " + fn["q"])
                key = fkey_of_fn(fn)
                if un != self.unsafe.get(key, {}):
                    self.unsafe[key] = un
                    changed = True
            if not changed:
                break
        out = []
        for fn in fns:
            for f in self.analyse(fn, {}):
                if f.origin and f.origin[0] == "source":
                    out.append(f)
        return out

    # ---------------------------------------------------------------- one function
    def analyse(self, fn, init):
        self.cur = fn
        self.out = []
        st = dict(init)
        self.stmt(fn.get("body"), st)
        return self.out

    def key(self, ref):
        if ref.get("dk") == "param":
            return ("p", ref["name"])
        return ("l", ref.get("id"))

    def val(self, e, st):
        """(MAYBE|NONNULL, origin)"""
        if e is None:
            return (NONNULL, None)
        k = e.get("k")
        if k == "null":
            return (MAYBE, ("literal",))
        if k == "ref" and e.get("dk") in ("param", "local"):
            return st.get(self.key(e), (NONNULL, None))
        if k in ("cast", "defarg"):
            return self.val(e.get("e"), st)
        if k == "call":
            if e.get("name") in VALUE_SOURCES and st.get("$text"):
                return (NONNULL, None)
            if e.get("name") in SOURCES:
                attr = ""
                for a in e.get("args", []):
                    for x in walk(a):
                        if x.get("k") == "str":
                            attr = x.get("v")
                return (MAYBE, ("source", e.get("name"), attr, e.get("l")))
            return (NONNULL, None)
        if k == "cond":
            s1, s2 = dict(st), dict(st)
            self.refine(e["c"], s1, True)
            self.refine(e["c"], s2, False)
            a, b = self.val(e["a"], s1), self.val(e["b"], s2)
            return a if a[0] == MAYBE else b
        if k == "construct" and len(e.get("args", [])) == 1 and is_cstr(e.get("ct")):
            return self.val(e["args"][0], st)
        return (NONNULL, None)

    def refine(self, c, st, truth):
        """Update st with what condition c being `truth` tells about pointers."""
        k = c.get("k")
        if k == "un" and c.get("op") == "!":
            return self.refine(c["e"], st, not truth)
        if k in ("cast",):
            return self.refine(c["e"], st, truth)
        if k == "ref" and c.get("dk") in ("param", "local"):
            if truth and self.key(c) in st:
                st[self.key(c)] = (NONNULL, None)
            return
        if k == "bin" and c.get("op") == "==" and truth:
            for side in (c["lhs"], c["rhs"]):
                if side.get("k") == "ref" and side.get("dk") == "enumerator" and side.get("name") == "XML_READER_TYPE_TEXT":
                    st["$text"] = True
        if k == "bin" and c.get("op") in ("==", "!="):
            for a, b in ((c["lhs"], c["rhs"]), (c["rhs"], c["lhs"])):
                a2 = a
                while a2.get("k") == "cast":
                    a2 = a2["e"]
                b2 = b
                while b2.get("k") == "cast":
                    b2 = b2["e"]
                if a2.get("k") == "ref" and (b2.get("k") == "null" or (b2.get("k") == "int" and b2.get("v") == 0)):
                    nonnull_when = (c["op"] == "!=")
                    if truth == nonnull_when and self.key(a2) in st:
                        st[self.key(a2)] = (NONNULL, None)
            return
        if k == "bin" and c.get("op") == "&&" and truth:
            self.refine(c["lhs"], st, True)
            self.refine(c["rhs"], st, True)
        if k == "bin" and c.get("op") == "||" and not truth:
            self.refine(c["lhs"], st, False)
            self.refine(c["rhs"], st, False)

    def report(self, node, what, v):
        self.out.append(Finding(self.cur, node, what, None, v[1]))

    # ---------------------------------------------------------------- expressions (sinks)
    def expr(self, e, st):
        if e is None or not isinstance(e, dict):
            return
        k = e.get("k")
        if k == "cond":
            self.expr(e["c"], st)
            s1, s2 = dict(st), dict(st)
            self.refine(e["c"], s1, True)
            self.refine(e["c"], s2, False)
            self.expr(e["a"], s1)
            self.expr(e["b"], s2)
            return
        if k == "bin" and e.get("op") in ("&&", "||"):
            self.expr(e["lhs"], st)
            s1 = dict(st)
            self.refine(e["lhs"], s1, e["op"] == "&&")
            self.expr(e["rhs"], s1)
            return
        if k == "lambda":
            self.stmt(e.get("body"), dict(st))
            return
        # children first
        for key, v in e.items():
            if key in ("l", "f"):
                continue
            if isinstance(v, dict):
                self.expr(v, st)
            elif isinstance(v, list):
                for x in v:
                    if isinstance(x, dict):
                        self.expr(x, st)
        if k == "construct":
            cls = e.get("cls") or ""
            pt = e.get("pt", [])
            one_arg = len(pt) == 1 or (len(pt) == 2 and len(e.get("args", [])) == 2 and
                                       e["args"][1].get("k") == "defarg")
            if ("basic_string" in cls) and pt and is_cstr(pt[0]) and e.get("args") and one_arg:
                v = self.val(e["args"][0], st)
                if v[0] == MAYBE:
                    self.report(e, "constructs %s from a possibly null pointer" %
                                ("std::string_view" if "string_view" in cls else "std::string"), v)
        elif k == "call":
            name = e.get("name")
            args = e.get("args", [])
            cpt = e.get("cpt", [])
            if e.get("ck") == "op" and e.get("op") in ("=", "+=") and "basic_string" in (e.get("cls") or "") and args:
                if cpt and is_cstr(cpt[0]):
                    v = self.val(args[0], st)
                    if v[0] == MAYBE:
                        self.report(e, "assigns a possibly null pointer to a std::string", v)
            elif name in CSINKS and e.get("ck") == "free":
                for a in args:
                    v = self.val(a, st)
                    if v[0] == MAYBE:
                        self.report(e, "passes a possibly null pointer to %s" % name, v)
            else:
                tgts = self.CG.targets(e) if e.get("fn") else []
                if not tgts and name not in NULL_TOLERANT and e.get("ck") in ("free", "member") and \
                        name not in ("find", "count", "operator<<") and not (e.get("fn") or "").startswith("xmlTextReader"):
                    for i, a in enumerate(args):
                        v = self.val(a, st)
                        if v[0] == MAYBE and i < len(cpt) and is_cstr(cpt[i].replace("&", "")):
                            self.report(e, "forwards a possibly null pointer to %s (library code that builds a "
                                           "string from it)" % (e.get("fn") or name), v)
                for i, a in enumerate(args):
                    v = self.val(a, st)
                    if v[0] != MAYBE:
                        continue
                    for t in tgts:
                        un = self.unsafe.get(fkey_of_fn(t), {})
                        if i in un:
                            self.out.append(Finding(self.cur, e, "passes a possibly null pointer to parameter %d of %s, "
                                                    "which %s" % (i + 1, t["q"], un[i]), None, v[1]))
                            break
        elif k == "un" and e.get("op") == "*":
            v = self.val(e["e"], st)
            if v[0] == MAYBE:
                self.report(e, "dereferences a possibly null pointer", v)
        elif k == "sub":
            v = self.val(e["base"], st)
            if v[0] == MAYBE:
                self.report(e, "indexes a possibly null pointer", v)

    # ---------------------------------------------------------------- statements
    def terminates(self, n):
        """Does the statement always leave (return/throw/continue/break)?"""
        if n is None:
            return False
        k = n.get("k")
        if k in ("return", "throw", "continue", "break"):
            return True
        if k == "block":
            return any(self.terminates(s) for s in n.get("s", []))
        if k == "if":
            return n.get("else") is not None and self.terminates(n["then"]) and self.terminates(n["else"])
        return False

    def stmt(self, n, st):
        if n is None:
            return
        k = n.get("k")
        if k == "block":
            for s in n.get("s", []):
                self.stmt(s, st)
            return
        if k == "decl":
            for v in n["vars"]:
                if v.get("init") is not None:
                    self.expr(v["init"], st)
                    if is_cstr(v.get("ct")) or v.get("ct", "").endswith("*"):
                        st[("l", v["id"])] = self.val(v["init"], st)
            return
        if k == "if":
            if n.get("init") is not None:
                self.stmt(n["init"], st)
            self.expr(n["c"], st)
            s1, s2 = dict(st), dict(st)
            self.refine(n["c"], s1, True)
            self.refine(n["c"], s2, False)
            self.stmt(n["then"], s1)
            self.stmt(n.get("else"), s2)
            t1, t2 = self.terminates(n["then"]), self.terminates(n.get("else"))
            if t1 and not t2:
                st.clear()
                st.update(s2)
            elif t2 and not t1:
                st.clear()
                st.update(s1)
            else:
                for key in set(s1) | set(s2):
                    if key == "$text":
                        st[key] = bool(s1.get(key)) and bool(s2.get(key))
                        continue
                    a, b = s1.get(key, (NONNULL, None)), s2.get(key, (NONNULL, None))
                    st[key] = a if a[0] == MAYBE else b
            return
        if k in ("for", "while", "do", "rangefor"):
            for part in ("init",):
                if n.get(part) is not None:
                    self.stmt(n[part], st)
            for _ in range(2):
                if n.get("c") is not None:
                    self.expr(n["c"], st)
                self.stmt(n.get("body"), st)
                if n.get("inc") is not None:
                    self.expr(n["inc"], st)
            return
        if k == "try":
            self.stmt(n["body"], st)
            for h in n.get("handlers", []):
                self.stmt(h["body"], dict(st))
            return
        if k == "switch":
            self.expr(n["c"], st)
            self.stmt(n["body"], st)
            return
        if k in ("case", "default", "label", "attributed"):
            self.stmt(n.get("s"), st)
            return
        if k == "return":
            self.expr(n.get("e"), st)
            return
        if k in ("break", "continue", "null", "goto"):
            return
        # expression statement (assignment updates the state)
        self.expr(n, st)
        if k == "bin" and n.get("op") == "=" and n["lhs"].get("k") == "ref" and n["lhs"].get("dk") in ("local", "param") \
                and (is_cstr(n["lhs"].get("t")) or n["lhs"].get("t", "").endswith("*")):
            st[self.key(n["lhs"])] = self.val(n["rhs"], st)


def run(chk, F, CG):
    rid = "R-NULL"
    chk.rule(rid, "no possibly-null XML attribute / node value reaches std::string(const char*), std::string_view, "
                  "std::string::operator=, strlen/strcmp/... or a dereference - directly or through a callee "
                  "parameter that reaches such a sink before any null test (fixpoint of parameter summaries over "
                  "the resolved call graph)")
    na = NullAnalysis(F, CG)
    in_scope = lambda fn: fn["file"].endswith(("xmlreader.cpp", "DocumentBuilder.cpp", "property.cpp", "prettyprinter.cpp",
                                                "abstractbuilder.cpp", "document.cpp", "StatementBuilder.cpp",
                                                "ExpressionBuilder.cpp"))
    fs = na.solve(in_scope)
    # obligations: every source call site in xmlreader.cpp
    sites = {}
    for fn in F.functions.values():
        if not fn["file"].endswith("xmlreader.cpp"):
            continue
        for c in walk(fn.get("body")):
            if c.get("k") == "call" and c.get("name") in SOURCES:
                attr = ""
                for a in c.get("args", []):
                    for x in walk(a):
                        if x.get("k") == "str":
                            attr = x.get("v")
                sites.setdefault((fn["q"], c["name"], attr, c.get("l")), [])
    for f in fs:
        o = f.origin
        # find the source site this finding came from (may be in a caller of where the sink is)
        for k in sites:
            if k[1] == o[1] and k[2] == o[2] and k[3] == o[3]:
                sites[k].append(f)
    seen = set()
    for (q, src, attr, line), lst in sorted(sites.items(), key=str):
        key = "%s|%s(%s)" % (q.split("::")[-1], src, attr)
        n = 2
        while key in seen:
            key = "%s|%s(%s)#%d" % (q.split("::")[-1], src, attr, n)
            n += 1
        seen.add(key)
        if lst:
            f = lst[0]
            chk.ob(rid, key, False,
                   "%s: the result of %s(%s) may be null (attribute/value absent) and %s: %s" %
                   (q, src, repr(attr) if attr else "", f.fn["q"], f.what),
                   "%s:%s" % (f.fn["file"], f.node.get("l")), detail=short(f.node)[:200])
        else:
            chk.ob(rid, key, True, "%s: %s(%s) is tested before every use that needs non-null" % (q, src, attr),
                   "src/xmlreader.cpp:%s" % line)
    chk.analysed[rid] = {"source_sites": len(sites), "functions_with_unsafe_pointer_parameters":
                         {k: v for k, v in na.unsafe.items() if v}}
    return fs


# ---------------------------------------------------------------------------------------------- R-ENUMIDX
def run_enumidx(chk, F, rid="R-ENUMIDX"):
    """A built-in array subscripted directly by a value of an enumeration type: the extent must exceed the largest
    enumerator (an enum value is whatever the grammar's CALLs pass, and they pass enumerators)."""
    import re
    chk.rule(rid, "every fixed-extent array that is subscripted by an expression of enumeration type has more elements "
                  "than the largest enumerator of that type")
    n = 0
    for fn in F.functions.values():
        if not (fn.get("file") or "").endswith((".cpp", ".h", ".hpp", ".y", ".l")):
            continue
        for s in walk(fn.get("body")):
            if s.get("k") != "sub":
                continue
            base, idx = s.get("base") or {}, s.get("idx") or {}
            while idx.get("k") == "cast":
                idx = idx["e"]
            m = re.search(r"\[(\d+)\]$", base.get("t") or "")
            et = (idx.get("t") or "").replace("const ", "")
            if not m or not et or et not in F.enums:
                continue
            extent = int(m.group(1))
            mx = max(v["v"] for v in F.enums[et]["values"])
            big = [v["name"] for v in F.enums[et]["values"] if v["v"] >= extent]
            n += 1
            chk.ob(rid, "%s|%s[%s]" % (fn["q"].split("::")[-1], short(base), et.split("::")[-1]), not big,
                   "%s subscripts `%s` (%d elements) with a %s, whose enumerator(s) %s have values up to %d: an "
                   "out-of-bounds read" % (fn["q"], short(base), extent, et, big[:3], mx),
                   "%s:%s" % (fn["file"], s.get("l")))
    if n == 0:
        chk.ob(rid, "none", True, "no array is subscripted by an enumeration value")


# ---------------------------------------------------------------------------------------------- R-CATCH
def run_catch(chk, F, rid="R-CATCH"):
    """C01: a parsing entry point "returns ... or throws a std::exception".  Every throw expression of the library
    must therefore have a static type derived from std::exception (a thrown `const char*` or int would terminate a
    client that catches std::exception)."""
    chk.rule(rid, "every throw expression in the library has a static type derived from std::exception")
    n = 0
    for fn in F.functions.values():
        f = fn.get("file") or ""
        if "/gen/" in f and not f.endswith((".y", ".l")):
            continue
        for t in walk(fn.get("body")):
            if t.get("k") != "throw" or not t.get("t"):
                continue            # `throw;` re-raises what was caught
            n += 1
            ty = t["t"]
            bases = t.get("bases", [])
            ok = ty == "std::exception" or "std::exception" in bases
            chk.ob(rid, "%s|%s" % (fn["q"].split("::")[-1], ty.split("::")[-1]), ok,
                   "%s throws a `%s`, which is not derived from std::exception: a client that catches std::exception "
                   "around a parse call is terminated" % (fn["q"], ty), "%s:%s" % (f, t.get("l")))
    if n < 20:
        raise AnalysisBroken("only %d throw expressions found" % n)


# ---------------------------------------------------------------------------------------------- R-DTOR
def run_dtor(chk, F, CG, rid="R-DTOR"):
    """A destructor is implicitly noexcept: an exception that escapes it calls std::terminate, i.e. the process is
    aborted instead of the entry point throwing a std::exception.  Every call in a destructor of a library class that
    may throw (escaping-exception analysis over the call graph) must sit inside a catch-all / matching handler."""
    chk.rule(rid, "no destructor defined in the library lets an exception escape: every call in it that may throw is "
                  "enclosed by a handler that catches it (destructors are implicitly noexcept -> std::terminate)")
    n = 0
    esc = CG.escapes()
    from ..callgraph import fkey_of_fn
    for fn in F.functions.values():
        f = fn.get("file") or ""
        if not fn["name"].startswith("~") or ("/gen/" in f and not f.endswith((".y", ".l"))):
            continue
        if not (f.endswith((".cpp", ".h", ".hpp", ".y", ".l"))) or fn.get("body") is None:
            continue
        n += 1
        out = sorted(t[0] for t in esc.get(fkey_of_fn(fn), set()))
        chk.ob(rid, fn["q"], not out,
               "%s can let %s escape: it is implicitly noexcept, so instead of the parse call throwing a std::exception "
               "the process is terminated" % (fn["q"], ", ".join(out[:3])), "%s:%s" % (f, fn["line"]))
    if n == 0:
        chk.ob(rid, "none", True, "the library defines no destructor with a body")
