"""R-NULL: nullable C-string flows from XML attributes / node values to sinks that require non-null.

Sources   XMLReader::getAttribute (absent attribute), xmlTextReaderGetAttribute, xmlTextReaderValue /
          xmlTextReaderConstValue (no value on the current node)
Sinks     construction / assignment of std::string or std::string_view from the pointer, strlen/strcmp/...,
          dereference, and - interprocedurally - passing it to a parameter that reaches such a sink before any
          null test (parameter summaries computed to a fixpoint over the resolved call graph; virtual callbacks
          through class-hierarchy analysis).
Guards    if (p), if (!p) return/throw, p ? .. : .., p == nullptr ? .. : .., p != nullptr && ..
"""
from ..facts import walk, short, calls
from ..inline import expanded_fn
from ..front import AnalysisBroken
from ..callgraph import fkey_of_fn

SOURCES = {"getAttribute", "xmlTextReaderGetAttribute", "xmlTextReaderValue", "xmlTextReaderConstValue"}
# the node value is non-null when the current node was tested to be a text node
VALUE_SOURCES = {"xmlTextReaderValue", "xmlTextReaderConstValue"}
NULL_TOLERANT = {"xmlFree", "free", "operator delete", "operator delete[]"}
CSINKS = {"strlen", "strcmp", "strcasecmp", "strncmp", "atoi", "atof", "strtol", "strdup", "strcpy", "strncpy",
          "puts", "strchr", "strstr"}
MAYBE, NONNULL = "maybe", "nonnull"


def is_cstr(t):
    t = (t or "").replace("const ", "").replace(" ", "")
    return t in ("char*", "xmlChar*", "unsignedchar*")


class Finding:
    def __init__(self, fn, node, what, var, origin, chain=()):
        self.fn, self.node, self.what, self.var, self.origin, self.chain = fn, node, what, var, origin, chain


class NullAnalysis:
    def __init__(self, F, CG):
        self.F, self.CG = F, CG
        self.unsafe = {}          # fkey -> {param index: description of the sink}
        self.findings = []

    # ---------------------------------------------------------------- driver
    def solve(self, scope_pred):
        fns = [fn for fn in self.F.functions.values() if scope_pred(fn)]
        for _ in range(5):
            changed = False
            for fn in fns:
                ptr_params = [i for i, p in enumerate(fn["params"]) if is_cstr(p["ct"])]
                if not ptr_params:
                    continue
                st = {("p", fn["params"][i]["name"]): (MAYBE, ("param", i)) for i in ptr_params}
                fs = self.analyse(fn, st)
                un = {}
                for f in fs:
                    if f.origin and f.origin[0] == "param":
                        un.setdefault(f.origin[1], f.what + " in " + fn["q"])
                key = fkey_of_fn(fn)
                if un != self.unsafe.get(key, {}):
                    self.unsafe[key] = un
                    changed = True
            if not changed:
                break
        out = []
        for fn in fns:
            for f in self.analyse(fn, {}):
                if f.origin and f.origin[0] == "source":
                    out.append(f)
        return out

    # ---------------------------------------------------------------- one function
    def analyse(self, fn, init):
        self.cur = fn
        self.out = []
        st = dict(init)
        self.stmt(fn.get("body"), st)
        return self.out

    def key(self, ref):
        if ref.get("dk") == "param":
            return ("p", ref["name"])
        return ("l", ref.get("id"))

    def val(self, e, st):
        """(MAYBE|NONNULL, origin)"""
        if e is None:
            return (NONNULL, None)
        k = e.get("k")
        if k == "null":
            return (MAYBE, ("literal",))
        if k == "ref" and e.get("dk") in ("param", "local"):
            return st.get(self.key(e), (NONNULL, None))
        if k in ("cast", "defarg"):
            return self.val(e.get("e"), st)
        if k == "call":
            if e.get("name") in VALUE_SOURCES and st.get("$text"):
                return (NONNULL, None)
            if e.get("name") in SOURCES:
                attr = ""
                for a in e.get("args", []):
                    for x in walk(a):
                        if x.get("k") == "str":
                            attr = x.get("v")
                return (MAYBE, ("source", e.get("name"), attr, e.get("l")))
            return (NONNULL, None)
        if k == "cond":
            s1, s2 = dict(st), dict(st)
            self.refine(e["c"], s1, True)
            self.refine(e["c"], s2, False)
            a, b = self.val(e["a"], s1), self.val(e["b"], s2)
            return a if a[0] == MAYBE else b
        if k == "construct" and len(e.get("args", [])) == 1 and is_cstr(e.get("ct")):
            return self.val(e["args"][0], st)
        return (NONNULL, None)

    def refine(self, c, st, truth):
        """Update st with what condition c being `truth` tells about pointers."""
        k = c.get("k")
        if k == "un" and c.get("op") == "!":
            return self.refine(c["e"], st, not truth)
        if k in ("cast",):
            return self.refine(c["e"], st, truth)
        if k == "ref" and c.get("dk") in ("param", "local"):
            if truth and self.key(c) in st:
                st[self.key(c)] = (NONNULL, None)
            return
        if k == "bin" and c.get("op") == "==" and truth:
            for side in (c["lhs"], c["rhs"]):
                if side.get("k") == "ref" and side.get("dk") == "enumerator" and side.get("name") == "XML_READER_TYPE_TEXT":
                    st["$text"] = True
        if k == "bin" and c.get("op") in ("==", "!="):
            for a, b in ((c["lhs"], c["rhs"]), (c["rhs"], c["lhs"])):
                a2 = a
                while a2.get("k") == "cast":
                    a2 = a2["e"]
                b2 = b
                while b2.get("k") == "cast":
                    b2 = b2["e"]
                if a2.get("k") == "ref" and (b2.get("k") == "null" or (b2.get("k") == "int" and b2.get("v") == 0)):
                    nonnull_when = (c["op"] == "!=")
                    if truth == nonnull_when and self.key(a2) in st:
                        st[self.key(a2)] = (NONNULL, None)
            return
        if k == "bin" and c.get("op") == "&&" and truth:
            self.refine(c["lhs"], st, True)
            self.refine(c["rhs"], st, True)
        if k == "bin" and c.get("op") == "||" and not truth:
            self.refine(c["lhs"], st, False)
            self.refine(c["rhs"], st, False)

    def report(self, node, what, v):
        self.out.append(Finding(self.cur, node, what, None, v[1]))

    # ---------------------------------------------------------------- expressions (sinks)
    def expr(self, e, st):
        if e is None or not isinstance(e, dict):
            return
        k = e.get("k")
        if k == "cond":
            self.expr(e["c"], st)
            s1, s2 = dict(st), dict(st)
            self.refine(e["c"], s1, True)
            self.refine(e["c"], s2, False)
            self.expr(e["a"], s1)
            self.expr(e["b"], s2)
            return
        if k == "bin" and e.get("op") in ("&&", "||"):
            self.expr(e["lhs"], st)
            s1 = dict(st)
            self.refine(e["lhs"], s1, e["op"] == "&&")
            self.expr(e["rhs"], s1)
            return
        if k == "lambda":
            self.stmt(e.get("body"), dict(st))
            return
        # children first
        for key, v in e.items():
            if key in ("l", "f"):
                continue
            if isinstance(v, dict):
                self.expr(v, st)
            elif isinstance(v, list):
                for x in v:
                    if isinstance(x, dict):
                        self.expr(x, st)
        if k == "construct":
            cls = e.get("cls") or ""
            pt = e.get("pt", [])
            one_arg = len(pt) == 1 or (len(pt) == 2 and len(e.get("args", [])) == 2 and
                                       e["args"][1].get("k") == "defarg")
            if ("basic_string" in cls) and pt and is_cstr(pt[0]) and e.get("args") and one_arg:
                v = self.val(e["args"][0], st)
                if v[0] == MAYBE:
                    self.report(e, "constructs %s from a possibly null pointer" %
                                ("std::string_view" if "string_view" in cls else "std::string"), v)
        elif k == "call":
            name = e.get("name")
            args = e.get("args", [])
            cpt = e.get("cpt", [])
            if e.get("ck") == "op" and e.get("op") in ("=", "+=") and "basic_string" in (e.get("cls") or "") and args:
                if cpt and is_cstr(cpt[0]):
                    v = self.val(args[0], st)
                    if v[0] == MAYBE:
                        self.report(e, "assigns a possibly null pointer to a std::string", v)
            elif name in CSINKS and e.get("ck") == "free":
                for a in args:
                    v = self.val(a, st)
                    if v[0] == MAYBE:
                        self.report(e, "passes a possibly null pointer to %s" % name, v)
            else:
                tgts = self.CG.targets(e) if e.get("fn") else []
                if not tgts and name not in NULL_TOLERANT and e.get("ck") in ("free", "member") and \
                        name not in ("find", "count", "operator<<") and not (e.get("fn") or "").startswith("xmlTextReader"):
                    for i, a in enumerate(args):
                        v = self.val(a, st)
                        if v[0] == MAYBE and i < len(cpt) and is_cstr(cpt[i].replace("&", "")):
                            self.report(e, "forwards a possibly null pointer to %s (library code that builds a "
                                           "string from it)" % (e.get("fn") or name), v)
                for i, a in enumerate(args):
                    v = self.val(a, st)
                    if v[0] != MAYBE:
                        continue
                    for t in tgts:
                        un = self.unsafe.get(fkey_of_fn(t), {})
                        if i in un:
                            self.out.append(Finding(self.cur, e, "passes a possibly null pointer to parameter %d of %s, "
                                                    "which %s" % (i + 1, t["q"], un[i]), None, v[1]))
                            break
        elif k == "un" and e.get("op") == "*":
            v = self.val(e["e"], st)
            if v[0] == MAYBE:
                self.report(e, "dereferences a possibly null pointer", v)
        elif k == "sub":
            v = self.val(e["base"], st)
            if v[0] == MAYBE:
                self.report(e, "indexes a possibly null pointer", v)

    # ---------------------------------------------------------------- statements
    def terminates(self, n):
        """Does the statement always leave (return/throw/continue/break)?"""
        if n is None:
            return False
        k = n.get("k")
        if k in ("return", "throw", "continue", "break"):
            return True
        if k == "block":
            return any(self.terminates(s) for s in n.get("s", []))
        if k == "if":
            return n.get("else") is not None and self.terminates(n["then"]) and self.terminates(n["else"])
        return False

    def stmt(self, n, st):
        if n is None:
            return
        k = n.get("k")
        if k == "block":
            for s in n.get("s", []):
                self.stmt(s, st)
            return
        if k == "decl":
            for v in n["vars"]:
                if v.get("init") is not None:
                    self.expr(v["init"], st)
                    if is_cstr(v.get("ct")) or v.get("ct", "").endswith("*"):
                        st[("l", v["id"])] = self.val(v["init"], st)
            return
        if k == "if":
            if n.get("init") is not None:
                self.stmt(n["init"], st)
            self.expr(n["c"], st)
            s1, s2 = dict(st), dict(st)
            self.refine(n["c"], s1, True)
            self.refine(n["c"], s2, False)
            self.stmt(n["then"], s1)
            self.stmt(n.get("else"), s2)
            t1, t2 = self.terminates(n["then"]), self.terminates(n.get("else"))
            if t1 and not t2:
                st.clear()
                st.update(s2)
            elif t2 and not t1:
                st.clear()
                st.update(s1)
            else:
                for key in set(s1) | set(s2):
                    if key == "$text":
                        st[key] = bool(s1.get(key)) and bool(s2.get(key))
                        continue
                    a, b = s1.get(key, (NONNULL, None)), s2.get(key, (NONNULL, None))
                    st[key] = a if a[0] == MAYBE else b
            return
        if k in ("for", "while", "do", "rangefor"):
            for part in ("init",):
                if n.get(part) is not None:
                    self.stmt(n[part], st)
            for _ in range(2):
                if n.get("c") is not None:
                    self.expr(n["c"], st)
                self.stmt(n.get("body"), st)
                if n.get("inc") is not None:
                    self.expr(n["inc"], st)
            return
        if k == "try":
            self.stmt(n["body"], st)
            for h in n.get("handlers", []):
                self.stmt(h["body"], dict(st))
            return
        if k == "switch":
            self.expr(n["c"], st)
            self.stmt(n["body"], st)
            return
        if k in ("case", "default", "label", "attributed"):
            self.stmt(n.get("s"), st)
            return
        if k == "return":
            self.expr(n.get("e"), st)
            return
        if k in ("break", "continue", "null", "goto"):
            return
        # expression statement (assignment updates the state)
        self.expr(n, st)
        if k == "bin" and n.get("op") == "=" and n["lhs"].get("k") == "ref" and n["lhs"].get("dk") in ("local", "param") \
                and (is_cstr(n["lhs"].get("t")) or n["lhs"].get("t", "").endswith("*")):
            st[self.key(n["lhs"])] = self.val(n["rhs"], st)


def run(chk, F, CG):
    rid = "R-NULL"
    chk.rule(rid, "no possibly-null XML attribute / node value reaches std::string(const char*), std::string_view, "
                  "std::string::operator=, strlen/strcmp/... or a dereference - directly or through a callee "
                  "parameter that reaches such a sink before any null test (fixpoint of parameter summaries over "
                  "the resolved call graph)")
    na = NullAnalysis(F, CG)
    in_scope = lambda fn: fn["file"].endswith(("xmlreader.cpp", "DocumentBuilder.cpp", "property.cpp", "prettyprinter.cpp",
                                                "abstractbuilder.cpp", "document.cpp", "StatementBuilder.cpp",
                                                "ExpressionBuilder.cpp"))
    fs = na.solve(in_scope)
    # obligations: every source call site in xmlreader.cpp
    sites = {}
    for fn in F.functions.values():
        if not fn["file"].endswith("xmlreader.cpp"):
            continue
        for c in walk(fn.get("body")):
            if c.get("k") == "call" and c.get("name") in SOURCES:
                attr = ""
                for a in c.get("args", []):
                    for x in walk(a):
                        if x.get("k") == "str":
                            attr = x.get("v")
                sites.setdefault((fn["q"], c["name"], attr, c.get("l")), [])
    for f in fs:
        o = f.origin
        # find the source site this finding came from (may be in a caller of where the sink is)
        for k in sites:
            if k[1] == o[1] and k[2] == o[2] and k[3] == o[3]:
                sites[k].append(f)
    seen = set()
    for (q, src, attr, line), lst in sorted(sites.items(), key=str):
        key = "%s|%s(%s)" % (q.split("::")[-1], src, attr)
        n = 2
        while key in seen:
            key = "%s|%s(%s)#%d" % (q.split("::")[-1], src, attr, n)
            n += 1
        seen.add(key)
        if lst:
            f = lst[0]
            chk.ob(rid, key, False,
                   "%s: the result of %s(%s) may be null (attribute/value absent) and %s: %s" %
                   (q, src, repr(attr) if attr else "", f.fn["q"], f.what),
                   "%s:%s" % (f.fn["file"], f.node.get("l")), detail=short(f.node)[:200])
        else:
            chk.ob(rid, key, True, "%s: %s(%s) is tested before every use that needs non-null" % (q, src, attr),
                   "src/xmlreader.cpp:%s" % line)
    chk.analysed[rid] = {"source_sites": len(sites), "functions_with_unsafe_pointer_parameters":
                         {k: v for k, v in na.unsafe.items() if v}}
    return fs


# ---------------------------------------------------------------------------------------------- R-ENUMIDX
def run_enumidx(chk, F, rid="R-ENUMIDX"):
    """A built-in array subscripted directly by a value of an enumeration type: the extent must exceed the largest
    enumerator (an enum value is whatever the grammar's CALLs pass, and they pass enumerators)."""
    import re
    chk.rule(rid, "every fixed-extent array that is subscripted by an expression of enumeration type has more elements "
                  "than the largest enumerator of that type")
    n = 0
    for fn in F.functions.values():
        if not (fn.get("file") or "").endswith((".cpp", ".h", ".hpp", ".y", ".l")):
            continue
        for s in walk(fn.get("body")):
            if s.get("k") != "sub":
                continue
            base, idx = s.get("base") or {}, s.get("idx") or {}
            while idx.get("k") == "cast":
                idx = idx["e"]
            m = re.search(r"\[(\d+)\]$", base.get("t") or "")
            et = (idx.get("t") or "").replace("const ", "")
            if not m or not et or et not in F.enums:
                continue
            extent = int(m.group(1))
            mx = max(v["v"] for v in F.enums[et]["values"])
            big = [v["name"] for v in F.enums[et]["values"] if v["v"] >= extent]
            n += 1
            chk.ob(rid, "%s|%s[%s]" % (fn["q"].split("::")[-1], short(base), et.split("::")[-1]), not big,
                   "%s subscripts `%s` (%d elements) with a %s, whose enumerator(s) %s have values up to %d: an "
                   "out-of-bounds read" % (fn["q"], short(base), extent, et, big[:3], mx),
                   "%s:%s" % (fn["file"], s.get("l")))
    if n == 0:
        chk.ob(rid, "none", True, "no array is subscripted by an enumeration value")


# ---------------------------------------------------------------------------------------------- R-CATCH
def run_catch(chk, F, rid="R-CATCH"):
    """C01: a parsing entry point "returns ... or throws a std::exception".  Every throw expression of the library
    must therefore have a static type derived from std::exception (a thrown `const char*` or int would terminate a
    client that catches std::exception)."""
    chk.rule(rid, "every throw expression in the library has a static type derived from std::exception")
    n = 0
    for fn in F.functions.values():
        f = fn.get("file") or ""
        if "/gen/" in f and not f.endswith((".y", ".l")):
            continue
        for t in walk(fn.get("body")):
            if t.get("k") != "throw" or not t.get("t"):
                continue            # `throw;` re-raises what was caught
            n += 1
            ty = t["t"]
            bases = t.get("bases", [])
            ok = ty == "std::exception" or "std::exception" in bases
            chk.ob(rid, "%s|%s" % (fn["q"].split("::")[-1], ty.split("::")[-1]), ok,
                   "%s throws a `%s`, which is not derived from std::exception: a client that catches std::exception "
                   "around a parse call is terminated" % (fn["q"], ty), "%s:%s" % (f, t.get("l")))
    if n < 20:
        raise AnalysisBroken("only %d throw expressions found" % n)


# ---------------------------------------------------------------------------------------------- R-DTOR
def run_dtor(chk, F, CG, rid="R-DTOR"):
    """A destructor is implicitly noexcept: an exception that escapes it calls std::terminate, i.e. the process is
    aborted instead of the entry point throwing a std::exception.  Every call in a destructor of a library class that
    may throw (escaping-exception analysis over the call graph) must sit inside a catch-all / matching handler."""
    chk.rule(rid, "no destructor defined in the library lets an exception escape: every call in it that may throw is "
                  "enclosed by a handler that catches it (destructors are implicitly noexcept -> std::terminate)")
    n = 0
    esc = CG.escapes()
    from ..callgraph import fkey_of_fn
    for fn in F.functions.values():
        f = fn.get("file") or ""
        if not fn["name"].startswith("~") or ("/gen/" in f and not f.endswith((".y", ".l"))):
            continue
        if not (f.endswith((".cpp", ".h", ".hpp", ".y", ".l"))) or fn.get("body") is None:
            continue
        n += 1
        out = sorted(t[0] for t in esc.get(fkey_of_fn(fn), set()))
        chk.ob(rid, fn["q"], not out,
               "%s can let %s escape: it is implicitly noexcept, so instead of the parse call throwing a std::exception "
               "the process is terminated" % (fn["q"], ", ".join(out[:3])), "%s:%s" % (f, fn["line"]))
    if n == 0:
        chk.ob(rid, "none", True, "the library defines no destructor with a body")


# ---------------------------------------------------------------------------------------------- R-CHILDIDX
# loops whose bound is not the node's own size, confirmed by reading: function -> (bound text, why it equals the size)
CHILDIDX_EXEMPT = {
    "checkInitialiser": ("get_type().size()",
                         "the LIST node of an initialiser list and its record type are built together from the same "
                         "count in StatementBuilder::decl_init_list (re-checked: R-CHILDIDX:exempt|decl_init_list); a "
                         "LIST built by expr_nary has the empty type, whose size is 0"),
}


def _is_file_local_worker(F, fn):
    """a static free function that other functions of its file call: rules about what a function does with its
    arguments judge it where it is called, with the arguments in place of the parameters"""
    if not fn.get("static") or fn.get("cls"):
        return False
    cache = F.__dict__.setdefault("_worker_cache", {})
    key = (fn.get("q"), fn.get("file"), fn.get("line"))
    if key not in cache:
        fl = fn.get("file")
        cache[key] = any(any(c.get("fn") == fn["q"] for c in calls(g.get("body"))) for g in F.functions.values()
                         if g.get("file") == fl and g is not fn and g.get("body") is not None)
    return cache[key]


def run_childidx(chk, F, rid="R-CHILDIDX"):
    """expression_t::get(i) / operator[](i) index the child vector without a range check.  A loop that walks the children
    of a node X must be bounded by X's own get_size(): a bound taken from somewhere else (the number of parameters of
    the called function's type, a count stored in another object) is only as good as the invariant that ties it to the
    node - and the builder creates the node even when it has just reported that the counts differ."""
    from ..inline import sites_with_conditions, strip
    from . import gates as G
    chk.rule(rid, "every access X.get(i + a) / X[i + a] to a child of an expression node with a loop variable i is "
                  "reached only under `i < B` where B is X.get_size() + b with a + b <= 0 (directly, through a local "
                  "such as `nb = X.get_size() - 3`, through min(X.get_size(), ..), or through an equality with "
                  "X.get_size() established earlier on the path)")
    n = 0
    used = set()
    seen_keys = {}
    for fn in sorted(F.functions.values(), key=lambda f: (f.get("file") or "", f.get("line") or 0)):
        fl = fn.get("file") or ""
        if fn.get("body") is None or fl.startswith("/usr") or "/test/" in fl or not fl.endswith((".cpp", ".h", ".hpp")):
            continue
        if _is_file_local_worker(F, fn):
            continue        # judged inside the functions that call it (expanded there, bounds as the caller passes them)
        fn = expanded_fn(fn, F, accept=lambda t_: bool(t_.get("static")) and not t_.get("cls"), maxdepth=2)
        inits, loopvars, adds = {}, set(), {}
        for d in walk(fn["body"]):
            if d.get("k") == "decl":
                for v in d.get("vars", []):
                    if v.get("init") is not None and v.get("id") is not None:
                        inits[v["id"]] = v["init"]
            if d.get("k") == "for" and isinstance(d.get("init"), dict) and d["init"].get("k") == "decl":
                for v in d["init"].get("vars", []):
                    loopvars.add(v.get("id"))
            if d.get("k") == "bin" and d.get("op") in ("+=", "-=", "=") and strip(d["lhs"]).get("k") == "ref":
                adds.setdefault(strip(d["lhs"]).get("id"), []).append(d)
        if not loopvars:
            continue

        def root_of(a):
            """a local that is a copy / clone of another node has that node's children"""
            a0 = strip(a) if a is not None else None
            seen = 0
            while isinstance(a0, dict) and a0.get("k") == "ref" and a0.get("id") in inits and seen < 3:
                i0 = strip(inits[a0["id"]])
                if isinstance(i0, dict) and i0.get("k") == "call" and i0.get("name") in ("clone", "clone_deeper"):
                    a0 = strip(i0.get("recv")) if i0.get("recv") is not None else {"k": "this"}
                elif isinstance(i0, dict) and i0.get("k") == "construct" and len(i0.get("args", [])) == 1 and \
                        (i0.get("cls") or "").endswith("expression_t"):
                    a0 = strip(i0["args"][0])
                else:
                    break
                seen += 1
            return a0

        def same(a, b):
            a, b = root_of(a), root_of(b)

            def is_this(z):
                return isinstance(z, dict) and (z.get("k") == "this" or (z.get("k") == "un" and z.get("op") == "*" and
                                                                          strip(z.get("e") or {}).get("k") == "this"))
            if is_this(a):
                a = None
            if is_this(b):
                b = None
            if a is None or b is None:
                return a is None and b is None
            return G.path_of(a) is not None and G.path_of(a) == G.path_of(b)

        def size_off(e, X, depth=0, eqs=()):
            """b such that e <= X.get_size() + b on every path, or None"""
            e = strip(e)
            if not isinstance(e, dict) or depth > 4:
                return None
            for txt, bb in eqs:
                if txt == short(e):
                    return bb       # an equality with X.get_size() established earlier on the path
            if e.get("k") == "call" and e.get("name") == "get_size" and e.get("cls") == "UTAP::expression_t" and \
                    same(e.get("recv"), X):
                return 0
            if e.get("k") == "bin" and e.get("op") in ("+", "-") and strip(e["rhs"]).get("k") == "int":
                b = size_off(e["lhs"], X, depth + 1, eqs)
                return None if b is None else b + (strip(e["rhs"])["v"] if e["op"] == "+" else -strip(e["rhs"])["v"])
            if e.get("k") == "bin" and e.get("op") in ("+", "-") and strip(e["rhs"]).get("k") == "cond" and \
                    strip(strip(e["rhs"])["a"]).get("k") == "int" and strip(strip(e["rhs"])["b"]).get("k") == "int":
                # X.get_size() - (flag ? 5 : 3): the largest value it can have
                b = size_off(e["lhs"], X, depth + 1, eqs)
                arms = [strip(strip(e["rhs"])["a"])["v"], strip(strip(e["rhs"])["b"])["v"]]
                return None if b is None else b + (max(arms) if e["op"] == "+" else -min(arms))
            if e.get("k") == "bin" and e.get("op") == "+" and strip(e["lhs"]).get("k") == "int":
                b = size_off(e["rhs"], X, depth + 1, eqs)
                return None if b is None else b + strip(e["lhs"])["v"]
            if e.get("k") == "call" and e.get("name") in ("min",):
                bs = [size_off(a, X, depth + 1, eqs) for a in e.get("args", [])]
                bs = [b for b in bs if b is not None]
                return min(bs) if bs else None
            if e.get("k") == "ref" and e.get("dk") == "local" and e.get("id") not in loopvars and \
                    (e.get("id") in inits or e.get("id") in adds):
                # the largest value the local can have: its initialiser or any value assigned to it, plus every `+=`
                cands = []
                if e.get("id") in inits:
                    cands.append(size_off(inits[e["id"]], X, depth + 1, eqs))
                extra = 0
                for a in adds.get(e["id"], []):
                    r = strip(a["rhs"])
                    if a["op"] == "=":
                        cands.append(size_off(a["rhs"], X, depth + 1, eqs))
                    elif r.get("k") != "int":
                        return None
                    elif a["op"] == "+=":
                        extra += r["v"]       # `-=` only lowers the bound: ignored (conservative)
                if not cands or any(c is None for c in cands):
                    return None
                return max(cands) + extra
            return None

        def literal_lambda_param(e):
            """e names a parameter of a lambda defined in this function, and every call of that lambda passes an
            integer literal there (`print_builtin_call(2)`)"""
            if not (isinstance(e, dict) and e.get("k") == "ref" and e.get("dk") in ("param", "local")):
                return False
            for d in walk(fn["body"]):
                if d.get("k") != "decl":
                    continue
                for v in d.get("vars", []):
                    lam = strip(v["init"]) if v.get("init") is not None else None
                    if not (isinstance(lam, dict) and lam.get("k") == "lambda"):
                        continue
                    pn = [p_.get("name") for p_ in lam.get("params", [])]
                    if e.get("name") not in pn or not any(z is e or (z.get("k") == "ref" and z.get("name") == e.get("name"))
                                                          for z in walk(lam.get("body") or {})):
                        continue
                    pos = pn.index(e["name"])
                    sites = [c for c in walk(fn["body"]) if c.get("k") == "call" and c.get("ck") == "op" and c.get("op") == "()"
                             and isinstance(c.get("recv"), dict) and strip(c["recv"]).get("name") == v.get("name")]
                    if sites and all(len(c.get("args", [])) > pos and strip(c["args"][pos]).get("k") == "int" for c in sites):
                        return True
            return False

        def index_parts(e):
            """(loop variable id, a) for e = i + a, else None"""
            e = strip(e)
            if isinstance(e, dict) and e.get("k") == "ref" and e.get("id") in loopvars:
                return e["id"], 0
            if isinstance(e, dict) and e.get("k") == "bin" and e.get("op") == "+":
                for x, y in ((e["lhs"], e["rhs"]), (e["rhs"], e["lhs"])):
                    x, y = strip(x), strip(y)
                    if x.get("k") == "ref" and x.get("id") in loopvars and y.get("k") == "int":
                        return x["id"], y["v"]
            return None

        def is_site(x):
            if x.get("k") != "call" or x.get("cls") != "UTAP::expression_t":
                return False
            if not (x.get("name") == "get" or (x.get("ck") == "op" and x.get("op") == "[]")):
                return False
            return bool(x.get("args")) and index_parts(x["args"][-1]) is not None
        for site, conds in sites_with_conditions(fn["body"], is_site):
            vid, a = index_parts(site["args"][-1])
            X = site.get("recv") if site.get("recv") is not None else (site["args"][0] if len(site["args"]) > 1 else None)
            ok, why = False, "no bound on the loop variable found"
            # equalities with X.get_size() established on the path: other -> offset
            eqs = []
            for c, t in conds:
                c0 = strip(c)
                parts = []
                if isinstance(c0, dict) and c0.get("k") == "bin" and c0.get("op") == "||" and not t:
                    def flat(z):
                        z = strip(z)
                        if z.get("k") == "bin" and z.get("op") == "||":
                            flat(z["lhs"])
                            flat(z["rhs"])
                        else:
                            parts.append((z, False))
                    flat(c0)
                else:
                    parts.append((c0, t))
                for z, tz in parts:
                    if isinstance(z, dict) and z.get("k") == "bin" and ((z.get("op") == "==" and tz) or (z.get("op") == "!=" and not tz)):
                        for p, q in ((z["lhs"], z["rhs"]), (z["rhs"], z["lhs"])):
                            b = size_off(q, X)
                            if b is not None:
                                eqs.append((short(p), b))
            for c, t in conds:
                c0 = strip(c)
                if not (t and isinstance(c0, dict) and c0.get("k") == "bin" and c0.get("op") in ("<", "!=") and
                        strip(c0["lhs"]).get("k") == "ref" and strip(c0["lhs"]).get("id") == vid):
                    continue
                b = size_off(c0["rhs"], X, 0, tuple(eqs))
                if b is None and (strip(c0["rhs"]).get("k") == "int" or literal_lambda_param(strip(c0["rhs"]))):
                    # a literal bound (`print_operands(.., 0, 2, ..)` for a kind of fixed arity): these are literal
                    # child indices - R-FIXEDIDX's subject, not a loop over "all children"
                    ok, why = True, "literal bound"
                    continue
                if b is None:
                    why = "the loop is bounded by `%s`, which is not derived from the size of `%s`" % (
                        short(c0["rhs"])[:50], short(X)[:30] if X is not None else "this")
                    continue
                if a + b <= 0:
                    ok = True
                else:
                    why = "index i + %d under i < size %+d" % (a, b)
            n += 1
            key = fn["name"]
            if not ok and key in CHILDIDX_EXEMPT and CHILDIDX_EXEMPT[key][0] in why:
                used.add(key)
                chk.ob(rid, "%s|%s|exempt" % (fn["name"], short(site)[:30]), True, "", "%s:%s" % (fn["file"], site.get("l")),
                       sample="%s: %s exempt - %s" % (fn["name"], short(site)[:30], CHILDIDX_EXEMPT[key][1][:60]))
                continue
            base = "%s|%s" % (fn["name"], short(site)[:30])
            seen_keys[base] = seen_keys.get(base, 0) + 1
            chk.ob(rid, base if seen_keys[base] == 1 else "%s#%d" % (base, seen_keys[base]), ok,
                   "%s reads child `%s` of an expression node in a loop, but %s: when the node has fewer children "
                   "(the builder creates a call node even after reporting `$Wrong_number_of_arguments`) the access is "
                   "out of range - undefined behaviour, in practice a crash" % (fn["q"], short(site)[:40], why),
                   "%s:%s" % (fn["file"], site.get("l")), sample="%s: %s bounded by the node's size" % (fn["name"], short(site)[:30]))
    if n < 30:
        raise AnalysisBroken("only %d loop-indexed child accesses found" % n)
    if "checkInitialiser" in used:
        dl = F.fn("UTAP::StatementBuilder::decl_init_list")
        pn = dl["params"][0]["name"]
        loops = [x for x in walk(dl["body"]) if x.get("k") == "for"]
        ok = bool(loops) and all(strip(x.get("c") or {}).get("k") == "bin" and strip(strip(x["c"])["rhs"]).get("name") == pn
                                 for x in loops) and \
            any(c.get("name") == "create_record" for c in calls(dl["body"])) and \
            any(c.get("name") == "create_nary" for c in calls(dl["body"]))
        chk.ob(rid, "exempt|decl_init_list", ok,
               "decl_init_list no longer builds the children of the LIST node and the fields of its record type from "
               "the same count: checkInitialiser indexes the children by the size of the type",
               "%s:%s" % (dl["file"], dl["line"]))


# ---------------------------------------------------------------------------------------------- R-SYMDEREF
# expression_t::get_symbol() returns the empty symbol for every kind that does not name one (a constant, an arithmetic
# result, a sum over processes ...).  symbol_t::get_type/get_name/get_data dereference the symbol's data.  Sites where
# the result of get_symbol() is dereferenced without a test, confirmed by reading: (function, receiver) -> why the
# receiver always names a symbol there.
SYMDEREF_EXEMPT = {
    # keys: (function, receiver, kind-switch label the site sits under or None)
    ("print", "get(0)", "FORALL"): "child 0 of FORALL / EXISTS / SUM is the binder identifier that expr_forall_end / "
                                   "expr_exists_end / expr_sum_end create from the symbol the _begin callback has just added",
    ("print", "get(0)", "EXISTS"): "see FORALL",
    ("print", "get(0)", "SUM"): "see FORALL",
    ("checkExpression", "expr[0]", "FORALL"): "binder identifier (see print)",
    ("checkExpression", "expr[0]", "EXISTS"): "binder identifier (see print)",
    ("checkExpression", "expr[0]", "SUM"): "binder identifier (see print)",
}
# An earlier version of this table also listed the SPAWN / NUMOF clauses of checkExpression and the PROCESS_SET case of
# expr_call_end ("the name was resolved before the node is built"), and later the FUN_CALL clauses of collect_possible_reads /
# collect_possible_writes ("only the identifier of a function has a function type": wrong too, `p.g` with p a dynamic
# process is DYNAMIC_EVAL with the type of g and no symbol; crashed, E11-2, repaired in /repo).  Both were wrong: `numOf(nosuch)` builds NUMOF over
# the constant that expr_identifier pushes after reporting the unknown name, and `(-P)(0)` has the type of a process set
# without being a name; both crashed (found by a defect-hunt sub-agent, repaired in /repo).  Entries are now per kind.


def run_symderef(chk, F, rid="R-SYMDEREF"):
    from ..inline import sites_with_conditions, strip
    chk.rule(rid, "every dereference (get_type / get_name / get_data / get_frame / set_type) of the result of "
                  "expression_t::get_symbol() - chained or through a local - is reached only where the path conditions "
                  "rule out the empty symbol (a comparison with symbol_t() that, together with the other conditions on "
                  "the path, cannot be true), or is a listed site whose receiver always names a symbol")
    DEREF = ("get_type", "get_name", "get_data", "get_frame", "get_position", "set_type", "set_data")

    def unwrap(e):
        e = strip(e) if e is not None else None
        while isinstance(e, dict) and e.get("k") == "construct" and len(e.get("args", [])) == 1:
            e = strip(e["args"][0])
        return e

    def is_getsym(e):
        e = unwrap(e)
        return isinstance(e, dict) and e.get("k") == "call" and e.get("name") == "get_symbol" and \
            e.get("cls") == "UTAP::expression_t"
    n = 0
    used = set()
    for fn in sorted(F.functions.values(), key=lambda f: (f.get("file") or "", f.get("line") or 0)):
        fl = fn.get("file") or ""
        if fn.get("body") is None or fl.startswith("/usr") or "/test/" in fl:
            continue
        if fn.get("static") and not fn.get("cls") and any(
                any(c.get("fn") == fn["q"] for c in calls(g.get("body"))) for g in F.functions.values()
                if g.get("file") == fl and g is not fn and g.get("body") is not None):
            continue        # a file-local worker: judged inside the functions that call it (expanded there)
        fn = expanded_fn(fn, F, accept=lambda t: bool(t.get("static")) and not t.get("cls"), maxdepth=2)
        symlocals = {}
        for d in walk(fn["body"]):
            if d.get("k") == "decl":
                for v in d.get("vars", []):
                    if v.get("init") is not None and is_getsym(v["init"]):
                        symlocals[v.get("id")] = unwrap(v["init"])
            # `symbol = get(0).get_symbol();` assigned to a local declared earlier
            lhs = rhs = None
            if d.get("k") == "bin" and d.get("op") == "=":
                lhs, rhs = d["lhs"], d["rhs"]
            elif d.get("k") == "call" and d.get("ck") == "op" and d.get("op") == "=" and d.get("recv") is not None and d.get("args"):
                lhs, rhs = d["recv"], d["args"][0]
            if lhs is not None and strip(lhs).get("k") == "ref" and strip(lhs).get("dk") == "local" and is_getsym(rhs):
                symlocals[strip(lhs).get("id")] = unwrap(rhs)

        # expression locals that stand for another expression for their whole life: `const expression_t& id =
        # expr.front();`, `expression_t id = fragments[n];` (declared once, never assigned): a test of id.get_symbol()
        # is a test of the symbol of what id was initialised from
        exprlocals, assigned = {}, set()
        for d in walk(fn["body"]):
            if d.get("k") == "decl":
                for v in d.get("vars", []):
                    if v.get("init") is not None and "expression_t" in (v.get("ct") or v.get("t") or "") and \
                            "vector" not in (v.get("ct") or v.get("t") or ""):
                        exprlocals[v.get("id")] = None if v.get("id") in exprlocals else unwrap(v["init"])
            tgt = None
            if d.get("k") == "bin" and d.get("op") in ("=",):
                tgt = d["lhs"]
            elif d.get("k") == "call" and d.get("ck") == "op" and d.get("op") == "=" and d.get("recv") is not None:
                tgt = d["recv"]
            if tgt is not None and strip(tgt).get("k") == "ref":
                assigned.add(strip(tgt).get("id"))

        def canon(e, depth=0):
            e = unwrap(e)
            if not isinstance(e, dict) or depth > 6:
                return short(e) if isinstance(e, dict) else ""
            if e.get("k") == "ref" and e.get("dk") == "local" and exprlocals.get(e.get("id")) is not None and \
                    e.get("id") not in assigned:
                return canon(exprlocals[e["id"]], depth + 1)
            if e.get("k") == "call" and e.get("name") == "front" and not e.get("args") and e.get("recv") is not None:
                return canon(e["recv"], depth + 1) + "[0]"
            if e.get("k") == "call" and e.get("name") == "get_symbol" and e.get("recv") is not None:
                return canon(e["recv"], depth + 1) + ".get_symbol()"
            return short(e)

        def source(x):
            """the get_symbol() call whose result call x dereferences, and the text that stands for that value"""
            if x.get("k") != "call" or x.get("cls") != "UTAP::symbol_t" or x.get("name") not in DEREF or x.get("recv") is None:
                return None
            r = unwrap(x["recv"])
            if is_getsym(r):
                return r, {short(r), canon(r)}
            if isinstance(r, dict) and r.get("k") == "ref" and r.get("id") in symlocals:
                return symlocals[r["id"]], {short(r), short(symlocals[r["id"]]), canon(symlocals[r["id"]])}
            return None
        # which case labels of the function's kind switch a node sits under
        labels_of = {}
        sws = [x for x in walk(fn["body"]) if x.get("k") == "switch"]
        if sws:
            sw = max(sws, key=lambda z: sum(1 for _ in walk(z)))
            cur = []
            closed = True
            for st in (sw.get("body") or {}).get("s", []):
                lbs = []
                y = st
                while isinstance(y, dict) and y.get("k") in ("case", "default"):
                    if y["k"] == "case" and isinstance(y.get("v"), dict):
                        lbs.append(y["v"].get("name"))
                    y = y.get("s")
                if lbs:
                    cur = (cur if not closed else []) + lbs
                    closed = False
                if isinstance(y, dict):
                    for z in walk(y):
                        labels_of[id(z)] = tuple(cur)
                    if y.get("k") in ("break", "return"):
                        closed = True
        for site, conds in sites_with_conditions(fn["body"], lambda x: source(x) is not None):
            src, names = source(site)
            recv_txt = short(src.get("recv")) if src.get("recv") is not None else "this"
            for pre in ("*this.", "(*this).", "this->"):        # a worker that was handed *this
                if recv_txt.startswith(pre):
                    recv_txt = recv_txt[len(pre):]
            n += 1
            # does the path rule out `value == symbol_t()`?  assume it and look for a contradiction
            def is_empty_test(c):
                """+1 if c is `value == symbol_t()`, -1 if `value != symbol_t()`, else 0"""
                c = strip(c)
                if not isinstance(c, dict):
                    return 0
                sides, op = None, None
                if c.get("k") == "bin" and c.get("op") in ("==", "!="):
                    sides, op = (c["lhs"], c["rhs"]), c["op"]
                elif c.get("k") == "call" and c.get("ck") == "op" and c.get("op") in ("==", "!="):
                    a = ([c["recv"]] if c.get("recv") is not None else []) + list(c.get("args", []))
                    sides, op = (tuple(a[:2]) if len(a) >= 2 else None), c["op"]
                if not sides:
                    return 0
                for x, y in (sides, sides[::-1]):
                    x, y = unwrap(x), unwrap(y)
                    if isinstance(y, dict) and y.get("k") == "construct" and not y.get("args") and \
                            (y.get("cls") or "").endswith("symbol_t") and (short(x) in names or canon(x) in names):
                        return 1 if op == "==" else -1
                return 0
            known = {}
            for c, t in conds:
                c0, neg = strip(c), False
                while isinstance(c0, dict) and c0.get("k") == "un" and c0.get("op") == "!":
                    c0, neg = strip(c0["e"]), not neg
                if not (isinstance(c0, dict) and c0.get("k") == "bin" and c0.get("op") in ("&&", "||")):
                    known[short(c0)] = (t != neg)

            def ev(c):
                c = strip(c)
                if not isinstance(c, dict):
                    return None
                e = is_empty_test(c)
                if e:
                    return e == 1          # under the assumption that the value is the empty symbol
                if c.get("k") == "un" and c.get("op") == "!":
                    v = ev(c["e"])
                    return None if v is None else not v
                if c.get("k") == "bin" and c.get("op") in ("&&", "||"):
                    a, b = ev(c["lhs"]), ev(c["rhs"])
                    if c["op"] == "&&":
                        return False if (a is False or b is False) else (True if a and b else None)
                    return True if (a is True or b is True) else (False if a is False and b is False else None)
                return known.get(short(c))
            guarded = any(ev(c) is not None and ev(c) != t for c, t in conds)
            key = (fn["name"], recv_txt, None)
            for lb in labels_of.get(id(site), ()):
                if (fn["name"], recv_txt, lb) in SYMDEREF_EXEMPT:
                    key = (fn["name"], recv_txt, lb)
            if not guarded and key in SYMDEREF_EXEMPT:
                used.add(key)
                chk.ob(rid, "%s|%s@%s|%s|listed" % (fn["name"], recv_txt, key[2], site.get("name")), True, "",
                       "%s:%s" % (fn["file"], site.get("l")),
                       sample="%s: %s.get_symbol().%s - listed: %s" % (fn["name"], recv_txt, site.get("name"),
                                                                       SYMDEREF_EXEMPT[key][:50]))
                continue
            chk.ob(rid, "%s|%s|%s" % (fn["name"], recv_txt, site.get("name")), guarded,
                   "%s dereferences the symbol of `%s` (%s) without ruling out the empty symbol: get_symbol() returns it "
                   "for every expression that does not name a variable - e.g. the value of `sum (p : Child) p`, which has "
                   "the type of a process - and symbol_t::%s then dereferences a null pointer" %
                   (fn["q"], recv_txt, short(site)[:50], site.get("name")), "%s:%s" % (fn["file"], site.get("l")),
                   sample="%s: %s guarded against the empty symbol" % (fn["name"], short(site)[:40]))
    if n < 12:
        raise AnalysisBroken("only %d dereferences of get_symbol() results found" % n)
    for key in SYMDEREF_EXEMPT:
        if key not in used:
            chk.note("R-SYMDEREF: the listed site %s no longer exists" % (key,))


# ---------------------------------------------------------------------------------------------- R-FIXEDIDX
def run_fixedidx(chk, F, rid="R-FIXEDIDX"):
    """Literal child indices: inside the case of a kind K, `e[k]` / `get(k)` on the node being dispatched on needs
    k < arity(K), where arity is what expression_t::get_size() returns for K (and what R-ARITY ties to every
    construction site).  Decided per kind with the per-kind slice of each dispatch function."""
    from ..inline import KindSlicer, strip
    from .exprlaws import size_table
    chk.rule(rid, "in every function that dispatches on the kind of an expression (checkExpression, print, get_symbol(s), "
                  "collect_possible_writes/reads, ...): a child access with a literal index k in the part executed for "
                  "kind K has k < get_size(K)")
    tab, _ = size_table(F)
    targets = [("UTAP::TypeChecker::checkExpression", None), ("UTAP::expression_t::print", "this"),
               ("UTAP::expression_t::get_symbol", "this"), ("UTAP::expression_t::get_symbols", "this"),
               ("UTAP::expression_t::collect_possible_writes", "this"),
               ("UTAP::expression_t::collect_possible_reads", "this")]
    total = 0
    for q, subj in targets:
        fn = F.fn(q)
        subject = subj or fn["params"][0]["name"]
        sl = KindSlicer(F, fn, subject=subject, expand_helpers=False)
        labels = {n["v"].get("name") for n in walk(fn["body"]) if n.get("k") == "case" and isinstance(n.get("v"), dict) and
                  n["v"].get("k") == "ref"}
        bad, sites = [], 0
        # local lambdas (`auto both = [&](pred p) { return p(expr[0]) && p(expr[1]); };` ahead of the switch): what
        # their bodies read counts for the kinds whose code invokes them, not for every kind
        lam_of, lam_body = {}, {}
        for d in walk(fn["body"]):
            if d.get("k") == "decl":
                for v in d.get("vars", []):
                    i0 = strip(v["init"]) if v.get("init") is not None else None
                    if isinstance(i0, dict) and i0.get("k") == "lambda":
                        lam_body[v.get("name")] = i0
                        for z in walk(i0.get("body") or {}):
                            lam_of.setdefault(id(z), v.get("name"))

        def invoked(nodes_root):
            out, todo = set(), []
            for z in walk(nodes_root):
                if z.get("k") == "call" and z.get("ck") == "op" and z.get("op") == "()" and id(z) not in lam_of:
                    r0 = strip(z["recv"]) if isinstance(z.get("recv"), dict) else None
                    nm0 = r0.get("name") if isinstance(r0, dict) else None
                    if nm0 in lam_body:
                        todo.append(nm0)
            while todo:
                nm0 = todo.pop()
                if nm0 in out:
                    continue
                out.add(nm0)
                for z in walk(lam_body[nm0].get("body") or {}):
                    if z.get("k") == "call" and z.get("ck") == "op" and z.get("op") == "()":
                        r0 = strip(z["recv"]) if isinstance(z.get("recv"), dict) else None
                        if isinstance(r0, dict) and r0.get("name") in lam_body:
                            todo.append(r0["name"])
            return out
        for K in sorted(k for k in labels if k):
            ar = tab.get(K)
            if not isinstance(ar, int):
                continue
            slk = sl.slice(K)
            live = invoked(slk) if lam_body else set()
            for c in calls(slk):
                if id(c) in lam_of and lam_of[id(c)] not in live:
                    continue
                if c.get("cls") != "UTAP::expression_t" or not (c.get("name") == "get" or (c.get("ck") == "op" and c.get("op") == "[]")):
                    continue
                a = c.get("args") or []
                if not a or strip(a[-1]).get("k") != "int":
                    continue
                recv = c.get("recv") if c.get("recv") is not None else (a[0] if len(a) > 1 else None)
                r = strip(recv) if recv is not None else None
                on = (r is None or r.get("k") == "this") if subject == "this" else \
                    (isinstance(r, dict) and r.get("k") == "ref" and r.get("name") == subject)
                if not on:
                    continue
                sites += 1
                if strip(a[-1])["v"] >= ar:
                    bad.append("%s: %s with %d child(ren) (line %s)" % (K, short(c), ar, c.get("l")))
        total += sites
        chk.ob(rid, fn["name"], not bad,
               "%s reads a child that the node does not have: %s - get() / operator[] do not check the range" %
               (fn["q"], "; ".join(bad[:4])), "%s:%s" % (fn["file"], fn["line"]),
               sample="%s: %d literal child accesses below the arity of their kind" % (fn["name"], sites))
    if total < 400:
        raise AnalysisBroken("only %d literal child accesses found in the dispatch functions" % total)
    chk.analysed[rid] = {"literal_child_accesses": total}


# ---------------------------------------------------------------------------------------------- R-OPTDEREF
def run_optderef(chk, F, rid="R-OPTDEREF"):
    from ..inline import sites_with_conditions, strip
    chk.rule(rid, "every *opt / opt->x / opt.value() on a std::optional (find_index_of, get_index_of) is reached only on "
                  "a path that has tested that optional and found it engaged")
    n = 0
    for fn in sorted(F.functions.values(), key=lambda f: (f.get("file") or "", f.get("line") or 0)):
        fl = fn.get("file") or ""
        if fn.get("body") is None or fl.startswith("/usr") or "/test/" in fl:
            continue
        for site, conds in sites_with_conditions(fn["body"], lambda x: x.get("k") == "call" and
                                                 (x.get("cls") or "") == "std::optional" and
                                                 x.get("name") in ("operator*", "operator->", "value")):
            r = strip(site.get("recv") or {})
            rid_ = r.get("id") if r.get("k") == "ref" else None
            ok = False
            for c, t in conds:
                c0, neg = strip(c), False
                while isinstance(c0, dict) and c0.get("k") == "un" and c0.get("op") == "!":
                    c0, neg = strip(c0["e"]), not neg
                if isinstance(c0, dict) and c0.get("k") == "call" and c0.get("name") in ("operator bool", "has_value"):
                    c0 = strip(c0.get("recv") or {})
                same = (c0.get("k") == "ref" and c0.get("id") == rid_ and rid_ is not None) or \
                    (rid_ is None and short(c0) == short(r))
                if same and t != neg:
                    ok = True
            n += 1
            chk.ob(rid, "%s|%s" % (fn["name"], short(site)[:30]), ok,
                   "%s dereferences the optional `%s` on a path that has not established that it holds a value" %
                   (fn["q"], short(r)[:30]), "%s:%s" % (fn["file"], site.get("l")))
    if n < 4:
        raise AnalysisBroken("only %d optional dereferences found" % n)


# ---------------------------------------------------------------------------------------------- R-FINDDEREF
def reachable_from(F, CG, root_names, maxdepth=14):
    """functions reachable from the named entry points through resolved calls (virtual calls: every override)"""
    from .effects import reach
    roots = [f for q in root_names for f in F.fns(q)]
    if not roots:
        raise AnalysisBroken("entry points %s not found" % (root_names,))
    return {k[0] for k in reach(F, CG, roots, maxdepth=maxdepth)}


PARSE_ENTRIES = ("parse_XML_buffer", "parse_XML_file", "parse_XML_fd", "parse_XTA", "parseProperty", "parse_property")
WRITE_ENTRIES = ("write_XML_file",)


def run_findderef(chk, F, CG, entries, rid="R-FINDDEREF"):
    """`auto it = m.find(k); it->second` is undefined when the key is absent.  The library is built with NDEBUG, so an
    assert() between the two is not a test (and would abort the process where C01 demands a diagnostic)."""
    from ..inline import sites_with_conditions, strip
    chk.rule(rid, "every use (->, *, passing on as a position) of an iterator obtained from find() is reached only on a "
                  "path that has compared that iterator with end() and found it different (assert() does not count: the "
                  "library is built with NDEBUG)")
    n = 0
    scope = reachable_from(F, CG, entries)
    for fn in sorted(F.functions.values(), key=lambda f: (f.get("file") or "", f.get("line") or 0)):
        fl = fn.get("file") or ""
        if fn.get("body") is None or fl.startswith("/usr") or "/test/" in fl or fn["q"] not in scope:
            continue
        its = {}
        for d in walk(fn["body"]):
            if d.get("k") == "decl":
                for v in d.get("vars", []):
                    i0 = strip(v.get("init")) if v.get("init") is not None else None
                    while isinstance(i0, dict) and i0.get("k") == "construct" and len(i0.get("args", [])) == 1:
                        i0 = strip(i0["args"][0])
                    if isinstance(i0, dict) and i0.get("k") == "call" and i0.get("name") == "find" and \
                            "iterator" in (v.get("ct") or v.get("t") or "").lower() + (i0.get("t") or "").lower():
                        its[v.get("id")] = v.get("name")
            lhs = rhs = None
            if d.get("k") == "bin" and d.get("op") == "=":
                lhs, rhs = d["lhs"], d["rhs"]
            elif d.get("k") == "call" and d.get("ck") == "op" and d.get("op") == "=" and d.get("recv") is not None and d.get("args"):
                lhs, rhs = d["recv"], d["args"][0]
            if lhs is not None and strip(lhs).get("k") == "ref" and strip(lhs).get("dk") == "local":
                r0 = strip(rhs)
                if isinstance(r0, dict) and r0.get("k") == "call" and r0.get("name") == "find":
                    its[strip(lhs).get("id")] = strip(lhs).get("name")
        if not its:
            continue

        def is_use(x):
            if x.get("k") == "call" and x.get("ck") == "op" and x.get("op") in ("->", "*") and x.get("recv") is not None:
                r = strip(x["recv"])
                return isinstance(r, dict) and r.get("k") == "ref" and r.get("id") in its
            if x.get("k") == "member" and x.get("arrow"):
                b = strip(x.get("base") or {})
                return b.get("k") == "ref" and b.get("id") in its
            return False
        for site, conds in sites_with_conditions(fn["body"], is_use):
            r = strip(site.get("recv") if site.get("k") == "call" else site.get("base"))
            iid = r.get("id")
            ok = False
            for c, t in conds:
                for x in walk(c):
                    sides, op = None, None
                    if x.get("k") == "bin" and x.get("op") in ("==", "!="):
                        sides, op = (x["lhs"], x["rhs"]), x["op"]
                    elif x.get("k") == "call" and x.get("ck") == "op" and x.get("op") in ("==", "!="):
                        a = ([x["recv"]] if x.get("recv") is not None else []) + list(x.get("args", []))
                        sides, op = (tuple(a[:2]) if len(a) >= 2 else None), x["op"]
                    if not sides:
                        continue
                    for p, q in (sides, sides[::-1]):
                        p0 = strip(p)
                        while isinstance(p0, dict) and p0.get("k") == "construct" and len(p0.get("args", [])) == 1:
                            p0 = strip(p0["args"][0])
                        if isinstance(p0, dict) and p0.get("k") == "ref" and p0.get("id") == iid and \
                                any(y.get("k") == "call" and y.get("name") in ("end", "cend") for y in walk(q)):
                            # only a top-level comparison (possibly under !) decides; inside && / || stay conservative
                            c0, neg = strip(c), False
                            while isinstance(c0, dict) and c0.get("k") == "un" and c0.get("op") == "!":
                                c0, neg = strip(c0["e"]), not neg
                            if c0 is x or (c0.get("k") == "bin" and c0.get("op") == "&&" and t != neg) or \
                                    (c0.get("k") == "bin" and c0.get("op") == "||" and t == neg):
                                if (op == "!=") == (t != neg):
                                    ok = True
            n += 1
            chk.ob(rid, "%s|%s" % (fn["name"], its[iid]), ok,
                   "%s uses the iterator `%s` returned by find() (%s) without having compared it with end(): for a key "
                   "that is not in the container - e.g. the free parameter of a partial instance `Q(const int j) = P(j)`, "
                   "which has no entry in instance_t::mapping - this reads through the end iterator" %
                   (fn["q"], its[iid], short(site)[:40]), "%s:%s" % (fn["file"], site.get("l")),
                   sample="%s: %s used after a comparison with end()" % (fn["name"], its[iid]))
    chk.analysed[rid] = {"entry_points": list(entries), "functions_in_scope": len(scope), "iterator_uses": n}
    if n < 1:
        raise AnalysisBroken("no use of a find() iterator found below %s" % (entries,))


# ---------------------------------------------------------------------------------------------- R-DATADEREF
def run_dataderef(chk, F, CG, entries, rid="R-DATADEREF"):
    """symbol_t::get_data() is the user pointer of a symbol: null for the empty symbol and for symbols without user data.
    Below the given entry points, `static_cast<T*>(sym.get_data())->field` needs a test first."""
    from ..inline import sites_with_conditions, strip
    chk.rule(rid, "below %s: a pointer obtained from symbol_t::get_data() is dereferenced only after a test of that "
                  "pointer or of the symbol (`sym != symbol_t()`)" % ", ".join(entries))
    scope = reachable_from(F, CG, entries)
    n = 0
    for fn in sorted(F.functions.values(), key=lambda f: (f.get("file") or "", f.get("line") or 0)):
        if fn.get("body") is None or fn["q"] not in scope or (fn.get("file") or "").startswith("/usr"):
            continue
        ptrs = {}
        for d in walk(fn["body"]):
            if d.get("k") == "decl":
                for v in d.get("vars", []):
                    if v.get("init") is not None and "*" in (v.get("t") or "") and any(
                            c.get("name") == "get_data" and c.get("cls") == "UTAP::symbol_t" for c in calls(v["init"])):
                        ptrs[v.get("id")] = v

        def src(x):
            if x.get("k") != "member" or not x.get("arrow"):
                return None
            b = strip(x.get("base") or {})
            if b.get("k") == "ref" and b.get("id") in ptrs:
                return short(b), [c for c in calls(ptrs[b["id"]]["init"]) if c.get("name") == "get_data"][0]
            gd = [c for c in calls(b) if c.get("name") == "get_data" and c.get("cls") == "UTAP::symbol_t"]
            if gd and b.get("k") in ("cast", "call"):
                return short(b), gd[0]
            return None
        for site, conds in sites_with_conditions(fn["body"], lambda x: src(x) is not None):
            ptxt, gd = src(site)
            sym = short(gd.get("recv"))
            ok = False
            for c, t in conds:
                c0, neg = strip(c), False
                while isinstance(c0, dict) and c0.get("k") == "un" and c0.get("op") == "!":
                    c0, neg = strip(c0["e"]), not neg
                txt = short(c0)
                if (txt == ptxt or txt == sym + ".get_data()") and t != neg:
                    ok = True
                if sym in txt and "symbol_t{" in txt.replace(" ", "") and (("!=" in txt) == (t != neg)):
                    ok = True
                if ptxt in txt and "nullptr" in txt and (("!=" in txt) == (t != neg)):
                    ok = True
            n += 1
            chk.ob(rid, "%s|%s" % (fn["name"], sym), ok,
                   "%s dereferences the user data of `%s` (%s) without a test: the symbol is empty when nothing was "
                   "declared for it - e.g. templ.init for `process P() { }`, which the grammar accepts - and get_data() "
                   "of it is a null pointer" % (fn["q"], sym, short(site)[:50]), "%s:%s" % (fn["file"], site.get("l")))
    chk.analysed[rid] = {"entry_points": list(entries), "functions_in_scope": len(scope), "dereferences": n}
    if n < 1:
        raise AnalysisBroken("no get_data() dereference found below %s" % (entries,))


# ---------------------------------------------------------------------------------------------- R-NULLMEMBER
# (class, method, member) -> (why the member is not null there, the method that sets it around the call)
NULLMEMBER_EXEMPT = {
    ("TypeChecker", "visitReturnStatement", "function"):
        ("statement visit methods run only inside fun.body->accept(this) of TypeChecker::visitFunction, which sets "
         "`function` before and clears it after", "visitFunction"),
}


def run_nullmember(chk, F, classes, rid="R-NULLMEMBER"):
    """A pointer data member that some method of its class sets to nullptr (`temp = nullptr` when the type checker
    leaves a template) is null part of the time.  Every method that follows it must test it first."""
    from ..inline import sites_with_conditions, strip
    chk.rule(rid, "for the classes %s: a pointer member that a method of the class assigns nullptr is followed (`m->x`) "
                  "only on a path that has tested it" % ", ".join(c.split("::")[-1] for c in classes))
    n = 0
    for cls in classes:
        rec = F.record(cls)
        ptr_members = {f["name"] for f in rec["fields"] if (f.get("ct") or f.get("t") or "").rstrip().endswith("*")}
        nulled = set()
        methods = [fn for fn in F.functions.values() if fn.get("cls") == cls and fn.get("body") is not None]
        for fn in methods:
            for x in walk(fn["body"]):
                if x.get("k") == "bin" and x.get("op") == "=" and strip(x["lhs"]).get("k") == "member" and \
                        strip(x["lhs"]).get("name") in ptr_members and strip(x["rhs"]).get("k") == "null":
                    nulled.add(strip(x["lhs"])["name"])
        for fn in methods:
            def site(x):
                b = None
                if x.get("k") == "member" and x.get("arrow"):
                    b = strip(x.get("base") or {})
                elif x.get("k") == "call" and x.get("arrow") and x.get("recv") is not None:
                    b = strip(x["recv"])
                return isinstance(b, dict) and b.get("k") == "member" and b.get("name") in nulled and b.get("of") == cls
            for s_, conds in sites_with_conditions(fn["body"], site):
                b = strip(s_.get("base") if s_.get("k") == "member" else s_.get("recv"))
                m = b["name"]
                ok = False
                for c, t in conds:
                    c0, neg = strip(c), False
                    while isinstance(c0, dict) and c0.get("k") == "un" and c0.get("op") == "!":
                        c0, neg = strip(c0["e"]), not neg
                    txt = short(c0).replace("this->", "")
                    if txt == m and t != neg:
                        ok = True
                    if isinstance(c0, dict) and c0.get("k") == "bin" and c0.get("op") in ("==", "!=") and m in txt and \
                            "nullptr" in txt and ((c0["op"] == "!=") == (t != neg)):
                        ok = True
                    if isinstance(c0, dict) and c0.get("k") == "bin" and c0.get("op") == "&&" and t != neg and \
                            any(short(strip(z)).replace("this->", "") == m for z in (c0["lhs"], c0["rhs"])):
                        ok = True
                    if isinstance(c0, dict) and c0.get("k") == "bin" and c0.get("op") == "||" and t == neg:
                        for z in (c0["lhs"], c0["rhs"]):
                            z0 = strip(z)
                            if z0.get("k") == "un" and z0.get("op") == "!" and short(strip(z0["e"])).replace("this->", "") == m:
                                ok = True
                # the method that has just assigned a non-null value may follow it
                assigned = any(x.get("k") == "bin" and x.get("op") == "=" and strip(x["lhs"]).get("name") == m and
                               strip(x["rhs"]).get("k") != "null" and (x.get("l") or 0) <= (s_.get("l") or 0)
                               for x in walk(fn["body"]))
                n += 1
                key = (cls.split("::")[-1], fn["name"], m)
                if not (ok or assigned) and key in NULLMEMBER_EXEMPT:
                    why, setter = NULLMEMBER_EXEMPT[key]
                    sf = F.fn(cls + "::" + setter)
                    sets = [x for x in walk(sf["body"]) if x.get("k") == "bin" and x.get("op") == "=" and
                            strip(x["lhs"]).get("name") == m and strip(x["rhs"]).get("k") != "null"]
                    acc = [c for c in calls(sf["body"], "accept")]
                    held = bool(sets) and bool(acc) and min(x.get("l") or 0 for x in sets) < min(c.get("l") or 0 for c in acc)
                    chk.ob(rid, "%s::%s|%s|listed" % key, held,
                           "%s is listed as running only inside %s, which was to set `%s` before visiting the body - it "
                           "no longer does" % (fn["q"], setter, m), "%s:%s" % (sf["file"], sf["line"]),
                           sample="%s: %s - listed: %s" % (fn["name"], m, why[:60]))
                    continue
                chk.ob(rid, "%s::%s|%s" % (cls.split("::")[-1], fn["name"], m), ok or assigned,
                       "%s follows the member pointer `%s` (%s) without a test, but %s sets it to nullptr at times: e.g. "
                       "TypeChecker::temp is null while global declarations are checked, so `exit()` in a global function "
                       "dereferences a null pointer" % (fn["q"], m, short(s_)[:40], cls.split("::")[-1]),
                       "%s:%s" % (fn["file"], s_.get("l")))
    chk.analysed[rid] = {"classes": list(classes), "dereferences": n}
    if n < 1:
        raise AnalysisBroken("no dereference of a nullable member pointer found in %s" % (classes,))


# ---------------------------------------------------------------------------------------------- R-CHILDGUARD
def run_childguard(chk, F, CG, entries, rid="R-CHILDGUARD"):
    """Outside the kind-dispatching members of expression_t (R-FIXEDIDX), `e.get(k)` assumes that e has children: the
    writer's declaration printer took `.get(0)` of an array size's upper bound to recover `n` from `n - 1` - but the
    size of `int y[T]` is a type name, whose upper bound is whatever the typedef says."""
    from ..inline import sites_with_conditions, strip
    chk.rule(rid, "below %s, outside expression_t's own members: a child access with a literal index on an expression is "
                  "reached only after a test of that expression's kind or size" % ", ".join(entries))
    scope = reachable_from(F, CG, entries)
    n = 0
    for fn in sorted(F.functions.values(), key=lambda f: (f.get("file") or "", f.get("line") or 0)):
        if fn.get("body") is None or fn["q"] not in scope or (fn.get("file") or "").startswith("/usr") or \
                fn.get("cls") == "UTAP::expression_t":
            continue
        if _is_file_local_worker(F, fn):
            continue        # judged where it is called (a print helper of expression.cpp runs under print's kind switch)
        fn = expanded_fn(fn, F, accept=lambda t_: bool(t_.get("static")) and not t_.get("cls"), maxdepth=2)
        for site, conds in sites_with_conditions(
                fn["body"], lambda x: x.get("k") == "call" and x.get("cls") == "UTAP::expression_t" and
                (x.get("name") == "get" or (x.get("ck") == "op" and x.get("op") == "[]")) and x.get("args") and
                strip(x["args"][-1]).get("k") == "int"):
            recv = site.get("recv") if site.get("recv") is not None else site["args"][0]
            r = short(recv)
            ok = any((r + ".get_kind()") in short(c) or (r + ".get_size()") in short(c) for c, _ in conds)
            n += 1
            chk.ob(rid, "%s|%s" % (fn["name"], r[:50]), ok,
                   "%s takes child %s of `%s` without having looked at its kind or size: for `int y[T]` with a typedef T "
                   "the upper bound of the size is not `n - 1` but a constant without children, and get(0) of it is out "
                   "of range (write_XML_file crashes on the accepted model)" %
                   (fn["q"], short(site["args"][-1]), r[:60]), "%s:%s" % (fn["file"], site.get("l")))
    chk.analysed[rid] = {"entry_points": list(entries), "sites": n}
    if n < 1:
        raise AnalysisBroken("no literal child access found below %s" % (entries,))


# ---------------------------------------------------------------------------------------------- R-DATACAST
# casts of symbol user data to variable_t* that are not preceded by a test of the symbol's type: (function) -> reason
DATACAST_EXEMPT = {
    "visitBlockStatement": "the frame of a block statement holds the block's local variables and type definitions only "
                           "(functions, templates, locations cannot be declared in a block); typedef symbols carry no "
                           "user data, and the cast is under `if (data)`",
}


def run_datacast(chk, F, rid="R-DATACAST"):
    """The user data of a symbol is a variable_t, function_t, instance_t, template_t, location_t ... depending on what
    the symbol names; nothing but the symbol's type says which.  A cast to variable_t* needs a test of that type on the
    path: `int q[T]` with T the enclosing template made collectDependencies read a template_t as a variable_t."""
    from ..inline import sites_with_conditions, strip
    chk.rule(rid, "every static_cast<variable_t*>(sym.get_data()) is reached only after a test of sym's type (directly, "
                  "through a local holding sym.get_type(), or through a predicate taking sym) that names the kinds variables "
                  "have (INT, CLOCK, RECORD, ...) - a non-null test of the pointer or an exclusion of functions is not "
                  "enough; listed exceptions: block frames")
    n = 0
    for fn in sorted(F.functions.values(), key=lambda f: (f.get("file") or "", f.get("line") or 0)):
        fl = fn.get("file") or ""
        if fn.get("body") is None or fl.startswith("/usr") or "/test/" in fl:
            continue
        fn = expanded_fn(fn, F, accept=lambda t_: bool(t_.get("static")) and not t_.get("cls"), maxdepth=2)
        datal, typel = {}, {}
        for d in walk(fn["body"]):
            if d.get("k") == "decl":
                for v in d.get("vars", []):
                    i0 = strip(v.get("init")) if v.get("init") is not None else None
                    if isinstance(i0, dict) and i0.get("k") == "call" and i0.get("name") == "get_data" and i0.get("recv") is not None:
                        datal[v.get("id")] = short(i0["recv"])
                    if v.get("init") is not None:
                        for c in calls(v["init"]):
                            if c.get("name") == "get_type" and c.get("cls") == "UTAP::symbol_t" and c.get("recv") is not None:
                                typel[v.get("name")] = short(c["recv"])

        def sym_of(x):
            if x.get("k") != "cast" or "variable_t" not in (x.get("t") or "") or "*" not in (x.get("t") or ""):
                return None
            e = strip(x.get("e") or {})
            if e.get("k") == "call" and e.get("name") == "get_data" and e.get("cls") == "UTAP::symbol_t" and e.get("recv") is not None:
                return short(e["recv"])
            if e.get("k") == "ref" and e.get("id") in datal:
                return datal[e["id"]]
            return None
        for site, conds in sites_with_conditions(fn["body"], lambda x: sym_of(x) is not None):
            sym = sym_of(site)
            ok = False
            for c, t in conds:
                while isinstance(strip(c), dict) and strip(c).get("k") == "un" and strip(c).get("op") == "!":
                    c, t = strip(c)["e"], not t          # `if (!holds_variable(s)) continue;`
                txt = short(c)
                about = (sym + ".get_type()") in txt or any(nm in txt and typel[nm] == sym for nm in typel) or \
                    any(any(short(a) == sym for a in z.get("args", [])) for z in calls(c))
                # the test must say what the symbol *is* (the kinds variables have, as Document's own dispatch does),
                # not merely what it is not: `!is_function()` lets templates, instances and locations through
                kinds = {x.get("name") for x in walk(c) if x.get("k") == "ref" and x.get("dk") == "enumerator"}
                if t and {"INT", "CLOCK", "RECORD"} <= kinds and (about or True):
                    ok = True
            n += 1
            if not ok and fn["name"] in DATACAST_EXEMPT:
                chk.ob(rid, "%s|%s|listed" % (fn["q"].split("::")[-2] if "::" in fn["q"] else "", fn["name"]), True, "",
                       "%s:%s" % (fn["file"], site.get("l")), sample="%s: listed - %s" % (fn["name"], DATACAST_EXEMPT[fn["name"]][:60]))
                continue
            chk.ob(rid, "%s|%s" % (fn["name"], sym), ok,
                   "%s casts the user data of `%s` to variable_t* without having looked at the symbol's type: a symbol "
                   "that names a template, an instance or a process carries a template_t / instance_t there - e.g. "
                   "`int q[T]` inside template T - and reading `->init` of it is a wild read (crash in parse_XTA)" %
                   (fn["q"], sym), "%s:%s" % (fn["file"], site.get("l")))
    if n < 3:
        raise AnalysisBroken("only %d casts of symbol user data to variable_t* found" % n)


# ---------------------------------------------------------------------------------------------- R-COUNTLOOP
def run_countloop(chk, F, G, rid="R-COUNTLOOP"):
    """Builder callbacks that take an element count (`expr_nary(kind, num)`, `decl_init_list(num)`) get it from a
    grammar list.  Where the list may be empty the count is 0, and `while (--num)` on an unsigned count then runs 2^32
    times over a stack that was empty to begin with."""
    from ..inline import strip
    chk.rule(rid, "a callback of any builder class that pre-decrements an unsigned count parameter in a loop condition "
                  "(`while (--num)`) is never called by the grammar with a count that can be 0 (a list nonterminal with "
                  "an empty alternative)")
    # nonterminals whose semantic value can be 0: an alternative with `$$ = 0`
    zero_nts = set()
    for r in G.rules:
        if r.action is None:
            continue
        for x in walk(r.action):
            if x.get("k") == "bin" and x.get("op") == "=" and strip(x["rhs"]).get("k") == "int" and strip(x["rhs"]).get("v") == 0 and \
                    "yyval" in short(x["lhs"]):
                zero_nts.add(r.lhs)
    changed = True
    while changed:          # unit productions pass the value on
        changed = False
        for r in G.rules:
            rhs = [s_ for s_ in r.rhs if not s_.startswith(("$@", "@"))]
            if len(rhs) == 1 and rhs[0] in zero_nts and r.lhs not in zero_nts and r.action is None:
                zero_nts.add(r.lhs)
                changed = True
    n = 0
    for fn in sorted(F.functions.values(), key=lambda f: (f.get("file") or "", f.get("line") or 0)):
        if fn.get("body") is None or not (fn.get("cls") or "").startswith("UTAP::") or not fn.get("params"):
            continue
        unsigned = {p_["name"]: i for i, p_ in enumerate(fn["params"]) if "unsigned" in (p_.get("ct") or "") or
                    (p_.get("t") or "") in ("uint32_t", "size_t", "uint16_t", "uint64_t")}
        if not unsigned:
            continue
        hits = set()
        for lp in walk(fn["body"]):
            if lp.get("k") in ("while", "for", "do") and isinstance(lp.get("c"), dict):
                for x in walk(lp["c"]):
                    if x.get("k") == "un" and x.get("op") == "--" and not x.get("post") and \
                            strip(x.get("e") or {}).get("k") == "ref" and strip(x["e"]).get("name") in unsigned:
                        hits.add(strip(x["e"])["name"])
        for pname in sorted(hits):
            n += 1
            idx = unsigned[pname]
            zero_sites = []
            for r in G.rules:
                for rr in [r] + [m for m in G.rules if m.host is r]:
                    for c in rr.calls:
                        if c.name != fn["name"] or idx >= len(c.args):
                            continue
                        v = G.arg_value(rr, c.args[idx])
                        if v and v[0] == "sym":
                            nt = G.symbol_at(rr, v[1])
                            if nt in zero_nts:
                                zero_sites.append("%s (count from %s)" % (r.sig, nt))
                        elif v and v[0] == "const" and v[1] == 0:
                            zero_sites.append("%s (count 0)" % r.sig)
            chk.ob(rid, "%s::%s|%s" % (fn["cls"].split("::")[-1], fn["name"], pname), not zero_sites,
                   "%s loops on `--%s` with an unsigned count, and the grammar can call it with 0: %s - the pre-decrement "
                   "wraps around and the loop pops an empty stack (e.g. the query `{} control: A<> true` with the pretty "
                   "printer as back end)" % (fn["q"], pname, "; ".join(sorted(set(zero_sites))[:3])),
                   "%s:%s" % (fn["file"], fn["line"]),
                   sample="%s::%s: count %s is never 0" % (fn["cls"].split("::")[-1], fn["name"], pname))
    if n < 1:
        raise AnalysisBroken("no `while (--count)` loop over an unsigned parameter found in the builder classes")


# ---------------------------------------------------------------------------------------------- R-NPOS
STRING_FINDS = ("find", "rfind", "find_first_of", "find_last_of", "find_first_not_of", "find_last_not_of")


def run_npos(chk, F, CG, entries, rid="R-NPOS", minimum=1):
    """`auto i = s.find(c); s.substr(i)` throws std::out_of_range when c is absent (i == npos > size()).  Found by a
    defect-hunt sub-agent: variable_t::print looked for the `[` of an array type in its text, which a typedef'd array type
    (`arr_t a;`) does not have, so the XML writer could not write the model (E08-4)."""
    from ..inline import sites_with_conditions, strip
    chk.rule(rid, "a position obtained from std::string::find* is used as the start of substr / erase / at / replace / "
                  "insert only on a path that has compared it with npos and found it different (assert() does not "
                  "count: NDEBUG)")
    scope = reachable_from(F, CG, entries)
    n = 0
    for fn in sorted(F.functions.values(), key=lambda f: (f.get("file") or "", f.get("line") or 0)):
        fl = fn.get("file") or ""
        if fn.get("body") is None or fl.startswith("/usr") or "/test/" in fl or fn["q"] not in scope:
            continue
        pos = {}
        for d in walk(fn["body"]):
            vs = d.get("vars", []) if d.get("k") == "decl" else []
            for v in vs:
                if v.get("init") is not None and any(c.get("name") in STRING_FINDS and "basic_string" in (c.get("cls") or "")
                                                     for c in calls(v["init"])):
                    # `std::min(s.find(c), s.size())` is clamped to the length: substr(size()) is the empty string
                    clamped = any(c.get("name") == "min" and any(x.get("name") in ("size", "length") for x in calls(c.get("args", [])))
                                  and any(x.get("name") in STRING_FINDS for x in calls(c.get("args", [])))
                                  for c in calls(v["init"]))
                    only_in_min = clamped and not any(
                        c.get("name") in STRING_FINDS and not any(
                            m_.get("name") == "min" and any(y is c for y in walk(m_.get("args", []))) for m_ in calls(v["init"]))
                        for c in calls(v["init"]))
                    if only_in_min:
                        n += 1
                        chk.ob(rid, "%s|%s|clamped" % (fn["name"], v.get("name")), True, "", "%s:%s" % (fl, d.get("l")),
                               sample="%s: %s = min(find(..), size()) is a valid start for substr" % (fn["name"], v.get("name")))
                        continue
                    pos[v.get("id")] = v.get("name")
        if not pos:
            continue

        def is_use(x):
            if x.get("k") == "call" and x.get("name") in ("substr", "erase", "at", "replace", "insert") and x.get("args"):
                a = strip(x["args"][0])
                return isinstance(a, dict) and a.get("k") == "ref" and a.get("id") in pos
            return False
        for site, conds in sites_with_conditions(fn["body"], is_use):
            vid = strip(site["args"][0]).get("id")
            n += 1

            def ne_npos(c, t):
                c = strip(c)
                if not isinstance(c, dict):
                    return False
                if c.get("k") == "bin" and c.get("op") == "&&" and t:
                    return ne_npos(c["lhs"], True) or ne_npos(c["rhs"], True)
                if c.get("k") == "bin" and c.get("op") == "||" and not t:
                    return ne_npos(c["lhs"], False) or ne_npos(c["rhs"], False)
                if c.get("k") == "un" and c.get("op") == "!":
                    return ne_npos(c["e"], not t)
                if c.get("k") == "bin" and c.get("op") in ("!=", "=="):
                    has_v = any(x.get("k") == "ref" and x.get("id") == vid for x in walk(c))
                    has_n = any(x.get("name") == "npos" for x in walk(c))
                    return has_v and has_n and ((c["op"] == "!=") == t)
                return False
            ok = any(ne_npos(c, t) for c, t in conds)
            chk.ob(rid, "%s|%s|%s" % (fn["name"], pos[vid], site.get("name")), ok,
                   "%s uses the position `%s` that std::string::find returned in `%s` without having ruled out npos: if the "
                   "text searched for is absent the call throws std::out_of_range" %
                   (fn["q"], pos[vid], short(site)[:50]), "%s:%s" % (fl, site.get("l")))
    if n < minimum:
        raise AnalysisBroken("R-NPOS: only %d uses of string positions found" % n)
