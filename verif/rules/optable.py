"""C02 R-TOK / R-OPORD: operator lexeme -> token -> production -> builder callback -> kind of the node created, and the
order in which the operands become children.

The chain is composed from the scanner's literal rules and keyword table (lexeme -> token), the grammar (token ->
operator production -> CALL with constant or nonterminal-valued kind argument) and the abstract interpretation of the
callback for the document builder (argument -> kind handed to expression_t::create_*; which operand-stack entry becomes
which child).  Oracle: SPEC_KIND below (lexeme and role -> kind), transcribed from the UPPAAL language reference.
"""
from ..front import AnalysisBroken
from ..facts import walk, short, calls
from ..stackmachine import Interp, Lin, Unsupported
from .lalr import classify, build_spec

# (role, lexeme) -> kind of the node the expression tree must contain
SPEC_KIND = {
    ("infix", "+"): "PLUS", ("infix", "-"): "MINUS", ("infix", "*"): "MULT", ("infix", "/"): "DIV",
    ("infix", "%"): "MOD", ("infix", "**"): "POW", ("infix", "&"): "BIT_AND", ("infix", "|"): "BIT_OR",
    ("infix", "^"): "BIT_XOR", ("infix", "<<"): "BIT_LSHIFT", ("infix", ">>"): "BIT_RSHIFT",
    ("infix", "&&"): "AND", ("infix", "and"): "AND", ("infix", "||"): "OR", ("infix", "or"): "OR",
    ("infix", "xor"): "XOR", ("infix", "<?"): "MIN", ("infix", ">?"): "MAX",
    ("infix", "<"): "LT", ("infix", "<="): "LE", ("infix", "=="): "EQ", ("infix", "!="): "NEQ",
    ("infix", ">="): "GE", ("infix", ">"): "GT",
    ("prefix", "!"): "NOT", ("prefix", "not"): "NOT", ("prefix", "-"): "UNARY_MINUS", ("prefix", "+"): None,
    ("prefix", "++"): "PRE_INCREMENT", ("prefix", "--"): "PRE_DECREMENT",
    ("postfix", "++"): "POST_INCREMENT", ("postfix", "--"): "POST_DECREMENT", ("postfix", "'"): "RATE",
    ("assign", "="): "ASSIGN", ("assign", ":="): "ASSIGN", ("assign", "+="): "ASS_PLUS", ("assign", "-="): "ASS_MINUS",
    ("assign", "*="): "ASS_MULT", ("assign", "/="): "ASS_DIV", ("assign", "%="): "ASS_MOD", ("assign", "|="): "ASS_OR",
    ("assign", "&="): "ASS_AND", ("assign", "^="): "ASS_XOR", ("assign", "<<="): "ASS_LSHIFT",
    ("assign", ">>="): "ASS_RSHIFT",
    ("ternary", "?"): "INLINE_IF",
}
ARITY = {"infix": 2, "assign": 2, "prefix": 1, "postfix": 1, "ternary": 3}
CREATORS = {"create_unary": 1, "create_binary": 2, "create_ternary": 3}


def token_kinds(G, nt):
    """token -> kind value, for a nonterminal whose alternatives are `TOKEN { $$ = KIND; }`."""
    ks = {}
    for r in G.by_lhs.get(nt, []):
        if r.action is None or len(r.rhs) != 1 or not G.is_terminal(r.rhs[0]):
            continue
        for n in walk(r.action):
            if n.get("k") == "bin" and n.get("op") == "=" and n["lhs"].get("k") == "member" and \
                    n["lhs"].get("base", {}).get("name") == "yyval" and n["lhs"].get("name") == "kind":
                for x in walk(n["rhs"]):
                    if x.get("k") == "ref" and x.get("dk") == "enumerator":
                        ks[r.rhs[0]] = x["ev"]
    return ks


def _stack_index(e, fn, interp, st, depth=0):
    """Which operand-stack entry (index from the top) does expression e denote?  fragments[k], or a local that was
    initialised from fragments[k] (possibly wrapped afterwards: `right = toMITLAtom(right)`)."""
    while isinstance(e, dict) and (e.get("k") in ("cast", "defarg") or
                                   (e.get("k") == "construct" and len(e.get("args", [])) == 1)):
        e = e["e"] if e.get("k") in ("cast", "defarg") else e["args"][0]
    if not isinstance(e, dict):
        return None
    if e.get("k") == "call" and e.get("ck") == "op" and e.get("op") == "[]":
        r = e.get("recv") or (e.get("args") or [None])[0]
        if isinstance(r, dict) and r.get("k") == "member" and r.get("name") == "fragments":
            v = interp.val(e["args"][-1], st)
            if isinstance(v, Lin) and v.is_const():
                return v.c
    if e.get("k") == "ref" and e.get("dk") == "local" and depth < 3:
        for d in walk(fn["body"]):
            if d.get("k") == "decl":
                for v in d.get("vars", []):
                    if v.get("id") == e.get("id") and v.get("init") is not None:
                        return _stack_index(v["init"], fn, interp, st, depth + 1)
    return None


def run(chk, F, G, L, K, CG):
    rid_t, rid_o = "R-TOK", "R-OPORD"
    chk.rule(rid_t, "for every operator lexeme and role of the reference table: the token the scanner returns appears in "
                    "an operator production of that role whose callback, interpreted for the document builder, creates "
                    "a node of exactly the kind the table names (unary plus creates nothing)")
    chk.rule(rid_o, "the node an operator production creates takes its operands from the operand stack in source order: "
                    "child j is the entry at depth arity-1-j (the left operand is the deepest)")

    class Dummy:
        def rule(self, *a, **k):
            pass

        def ob(self, *a, **k):
            return True
    spec, lx2tok = build_spec(L, K, G, Dummy(), "x")
    kt = F.enum("UTAP::Constants::kind_t")
    val2name = {}
    for v in kt["values"]:
        val2name.setdefault(v["v"], v["name"])
    name2val = {v["name"]: v["v"] for v in kt["values"]}
    events = []

    def rec(kind, *a):
        if kind != "ext":
            return
        c, st, fn, interp = a
        q = c.get("fn") or ""
        nm = q.split("::")[-1]
        if not q.startswith("UTAP::expression_t::create_") or nm not in CREATORS or not c.get("args"):
            return
        kv = interp.val(c["args"][0], st)
        kinds = [kv.c] if isinstance(kv, Lin) and kv.is_const() else []
        ops = [_stack_index(a_, fn, interp, st) for a_ in c["args"][1:1 + CREATORS[nm]]]
        events.append((nm, tuple(kinds), tuple(ops), fn["q"], c.get("l")))
    I = Interp(F, CG, "UTAP::DocumentBuilder", record=rec)
    memo = {}

    def created(r, tok_for_nt=None):
        """events of all CALLs of production r (and of its mid-rule actions), with kind nonterminals bound to the
        value they have for token tok_for_nt."""
        out = []
        rules = [r] + [m for m in G.rules if m.host is r]
        for rr in rules:
            for c in rr.calls:
                args = []
                for a in c.args:
                    v = G.arg_value(rr, a)
                    if v[0] == "default":
                        v = v[1:]
                    if v[0] == "const":
                        args.append(Lin(v[1]))
                    elif v[0] == "enum":
                        args.append(Lin(v[2]))
                    elif v[0] == "sym" and v[2] == "kind":
                        nt = G.symbol_at(rr, v[1])
                        ks = token_kinds(G, nt)
                        if tok_for_nt is None or tok_for_nt not in ks:
                            args.append(None)
                        else:
                            args.append(Lin(ks[tok_for_nt]))
                    else:
                        args.append(None)
                key = (c.name, tuple(None if a_ is None else a_.key() for a_ in args))
                if key not in memo:          # the interpreter caches summaries: events are only raised the first time
                    del events[:]
                    try:
                        I.run(c.name, args)
                    except Unsupported as e:
                        raise AnalysisBroken("callback %s cannot be interpreted: %s" % (c.name, e))
                    memo[key] = set(events)
                out += [(c.name,) + ev for ev in memo[key]]
        return out

    prods = []
    for r in G.rules:
        if r.host is not None:
            continue
        cl = classify(G, r, spec)
        if cl:
            prods.append((r, cl[0], cl[1]))
    if len(prods) < 30:
        raise AnalysisBroken("only %d operator productions classified" % len(prods))
    n = 0
    for (role, lx), want in sorted(SPEC_KIND.items(), key=lambda x: (x[0][0], x[0][1])):
        tok = lx2tok.get(lx)
        if tok is None:
            chk.ob(rid_t, "%s|%s" % (role, lx), False, "operator `%s` is not lexed to a token" % lx, "src/lexer.l")
            continue
        cands = [(r, toks) for r, rl, toks in prods if rl == role and tok in toks]
        if not cands:
            chk.ob(rid_t, "%s|%s" % (role, lx), False,
                   "no %s production for `%s` (token %s)" % (role, lx, tok), "src/parser.y")
            continue
        for r, toks in cands:
            n += 1
            evs = created(r, tok)
            kinds = sorted({val2name.get(k, str(k)) for ev in evs for k in ev[2]})
            if want is None:
                ok = not evs or all(not ev[2] for ev in evs)
                chk.ob(rid_t, "%s|%s|%s" % (role, lx, r.sig), ok,
                       "`%s` as %s operator must leave its operand unchanged but `%s` creates %s" % (lx, role, r.sig, kinds),
                       "src/parser.y:%s" % r.line)
                continue
            # MITL: expr_binary may turn AND/OR into MITL_CONJ/MITL_DISJ when an operand is a MITL formula - the plain
            # kind must be among the created kinds and any other kind must be one of those two
            extra = [k for k in kinds if k != want and k not in ("MITL_CONJ", "MITL_DISJ")]
            ok = want in kinds and not extra
            chk.ob(rid_t, "%s|%s|%s" % (role, lx, r.sig), ok,
                   "`%s` (%s, token %s) is parsed by `%s`, whose callback %s creates a node of kind %s instead of %s" %
                   (lx, role, tok, r.sig, sorted({ev[0] for ev in evs}), kinds or "nothing", want),
                   "src/parser.y:%s" % r.line, sample="%s %s -> %s -> %s" % (role, lx, tok, want))
            # operand order
            ar = ARITY[role]
            wantv = name2val.get(want)
            for ev in evs:
                cbn, creator, ks, ops = ev[0], ev[1], ev[2], ev[3]
                if wantv not in ks or CREATORS[creator] != ar:
                    continue
                exp = tuple(ar - 1 - j for j in range(ar))
                if any(o is None for o in ops):
                    raise AnalysisBroken("%s: cannot tell which stack entries become the children of %s" % (cbn, want))
                chk.ob(rid_o, "%s|%s|%s" % (role, lx, cbn), ops == exp,
                       "%s builds %s with children taken from stack entries %s (top = 0); source order needs %s: the "
                       "operands of `%s` are exchanged" % (cbn, want, list(ops), list(exp), lx),
                       "%s:%s" % (F.fn(ev[4])["file"] if F.fns(ev[4]) else "?", ev[5]),
                       sample="%s(%s): children <- F%s" % (cbn, want, list(ops)))
    # `imply` is OR(NOT a, b): mid-rule NOT on the left operand, then OR
    for r in G.rules:
        if r.host is None and "T_KW_IMPLY" in r.rhs:
            evs = created(r)
            seq = [(ev[0], sorted(val2name.get(k, k) for k in ev[2])) for ev in evs]
            kinds = {k for _, ks in seq for k in ks}
            mids = [m for m in G.rules if m.host is r]
            ok = {"NOT", "OR"} <= kinds and len(mids) == 1 and mids[0].host_pos == 2 and \
                any(c.name == "expr_unary" for c in mids[0].calls)
            chk.ob(rid_t, "infix|imply|%s" % r.sig, ok,
                   "`a imply b` must become OR(NOT a, b): negation of the LEFT operand as soon as it is complete, then "
                   "a disjunction; `%s` does %s" % (r.sig, seq), "src/parser.y:%s" % r.line)
            n += 1
    if n < 40:
        raise AnalysisBroken("only %d lexeme/production pairs checked" % n)
    chk.analysed[rid_t] = {"operator_productions": len(prods), "lexeme_production_pairs": n}


def run_literals(chk, F, L, rid="R-LITERAL"):
    """Integer literals are represented exactly or rejected.  In every scanner action that returns T_NAT, the value
    stored in yylval.number (an int) either comes from an int-typed conversion whose result is verified against the
    lexeme (print it back and compare: the idiom of this scanner), or from a wider conversion that is compared with
    the int range before it is narrowed."""
    from ..lexer import token_name
    chk.rule(rid, "in every scanner action returning T_NAT, the value assigned to yylval.number is not silently narrowed: "
                  "an int conversion is verified against the lexeme, a wider one is range-checked against int first")
    WIDE = ("long", "long long", "unsigned long", "unsigned long long", "int64_t", "uint64_t", "size_t", "intmax_t",
            "unsigned int", "uint32_t")
    n = 0
    for r in L.rules:
        if r.eof or r.action is None or r.sc != "INITIAL":
            continue
        toks = {token_name(x["e"]) for x in L.returns(r) if x.get("e") is not None}
        if "T_NAT" not in toks:
            continue
        for a in walk(r.action):
            if not (a.get("k") == "bin" and a.get("op") == "=" and a["lhs"].get("k") == "member" and
                    a["lhs"].get("name") == "number"):
                continue
            rhs = a["rhs"]
            while rhs.get("k") == "cast":
                rhs = rhs["e"]
            if rhs.get("k") == "int":
                continue
            n += 1
            t = (rhs.get("t") or "").replace("const ", "").strip()
            txt = short(r.action) if False else " ".join(short(x) for x in walk(r.action) if x.get("k") in ("call", "bin"))
            if t in WIDE or any(w == t for w in WIDE):
                ranged = any(k in txt for k in ("INT_MAX", "numeric_limits<int>", "2147483647", "INT32_MAX"))
                chk.ob(rid, "%s|%s" % (r.text, short(rhs)[:30]), ranged,
                       "scanner rule %s stores a `%s` value in the int yylval.number without comparing it with the int "
                       "range: a literal above 2^31 that fits a %s is silently wrapped (4294967297 becomes 1)" %
                       (r, t, t), "src/lexer.l:%s" % a.get("l"))
            else:
                # int-typed conversion (atoi): must be verified against the lexeme
                verified = any(c.get("name") in ("strcmp", "strncmp", "compare") for c in calls(r.action)) and \
                    any(token_name(x["e"]) == "T_ERROR" for x in L.returns(r) if x.get("e") is not None)
                chk.ob(rid, "%s|%s" % (r.text, short(rhs)[:30]), verified,
                       "scanner rule %s converts the literal with `%s` and does not verify the result against the "
                       "lexeme: an out-of-range literal is accepted with a different value" % (r, short(rhs)[:40]),
                       "src/lexer.l:%s" % a.get("l"))
    if n == 0:
        raise AnalysisBroken("no scanner action assigns a converted value to yylval.number")
