"""C08 rules: registration and ownership.

R-SELFREG  wherever an object is registered as the user data of a symbol, it is the object whose `uid` receives
           that symbol:   O.uid = F.add_symbol(name, type, pos, &O)
R-STABLE   every object registered that way was created in place (emplace_back) in a container whose element
           addresses are stable (std::list, or std::deque that only ever grows at the ends), and no function of the
           library performs an operation on such a container that moves or destroys other elements
R-EDGE     template_t::add_edge is the only writer of an edge's endpoints, sets exactly one of src/srcb and of
           dst/dstb under the type test of the same symbol, numbers follow the container; the builder calls it only
           after both endpoints passed the location-or-branchpoint test
"""
from ..front import AnalysisBroken
from ..facts import walk, calls, short
from ..inline import expanded_fn, mutable_uses, path_states, flag_locals, strip

STABLE = ("std::list<", "std::deque<", "list<", "deque<")
MOVING_OPS = {"insert", "emplace", "erase", "resize", "assign", "swap", "sort", "clear", "pop_front", "push_front",
              "emplace_front", "shrink_to_fit", "splice", "merge", "reverse", "unique", "remove", "remove_if"}
# on a list nothing but the erased element moves; on a deque growth at the ends keeps references valid
DEQUE_OK = {"emplace_back", "push_back", "back", "front", "begin", "end", "size", "empty", "cbegin", "cend", "at",
            "operator[]", "[]"}


def _strip(e):
    while isinstance(e, dict):
        if e.get("k") in ("cast", "defarg"):
            e = e["e"]
        elif e.get("k") == "construct" and len(e.get("args", [])) == 1:
            e = e["args"][0]
        else:
            break
    return e


def _obj_text(e):
    """text of the object an lvalue / pointer expression denotes: `&x`, `x` (pointer), `(T*)&x` -> x"""
    e = _strip(e)
    if e.get("k") == "un" and e.get("op") == "&":
        return short(_strip(e["e"])).replace("this->", ""), "addr"
    return short(e).replace("this->", ""), "ptr"


def registrations(F):
    """(fn, call, user-arg, assigned-to lhs or None) for every add_symbol call with a user-data argument."""
    out = []
    for fn in F.functions.values():
        if not (fn.get("file") or "").endswith((".cpp", ".h", ".hpp")):
            continue
        for n in walk(fn.get("body")):
            lhs, call = None, None
            if n.get("k") == "bin" and n.get("op") == "=":
                c = _strip(n["rhs"])
                if c.get("k") == "call" and c.get("name") == "add_symbol":
                    lhs, call = n["lhs"], c
            elif n.get("k") == "call" and n.get("ck") == "op" and n.get("op") == "=":
                c = _strip(n["args"][-1]) if n.get("args") else {}
                if c.get("k") == "call" and c.get("name") == "add_symbol":
                    lhs, call = n.get("recv") or n["args"][0], c
            if call is not None:
                out.append((fn, call, lhs))
        for c in calls(fn.get("body"), "add_symbol"):
            if (c.get("cls") or "").endswith("frame_t") and not any(c is x[1] for x in out):
                out.append((fn, c, None))
    return out


def run_selfreg(chk, F, rid="R-SELFREG"):
    chk.rule(rid, "at every frame_t::add_symbol call that registers user data, the data is the object whose uid is "
                  "assigned the returned symbol (`O.uid = add_symbol(.., &O)`)")
    n = 0
    for fn, c, lhs in registrations(F):
        args = c.get("args", [])
        if len(args) < 4:
            continue
        u = _strip(args[3])
        if u.get("k") in ("null",) or (u.get("k") == "defarg"):
            continue
        if args[3].get("k") == "defarg":
            continue
        n += 1
        where = "%s:%s" % (fn["file"], c.get("l"))
        obj, how = _obj_text(args[3])
        ok = False
        why = "the returned symbol is not stored in the uid of the registered object"
        if lhs is not None and lhs.get("k") == "member" and lhs.get("name") == "uid":
            owner = short(_strip(lhs.get("base"))).replace("this->", "") if lhs.get("base") is not None else "this"
            ok = owner == obj
            why = "registers `%s` as the data of the symbol stored in `%s.uid`" % (obj, owner)
        chk.ob(rid, "%s|%s" % (fn["q"].split("::")[-1], obj), ok,
               "%s: %s - the object reachable from the document is not the user object of its own symbol" % (fn["q"], why),
               where)
    if n < 4:       # (a shared `declare(frame, name, .., item)` helper merges several sites into one)
        raise AnalysisBroken("only %d registering add_symbol sites found" % n)


def _field_type(F, name):
    ts = set()
    for q, r in F.records.items():
        if not q.startswith("UTAP::"):
            continue
        for f in r.get("fields", []):
            if f["name"] == name:
                ts.add((q, f.get("t") or ""))
    return ts


def run_stable(chk, F, rid="R-STABLE"):
    chk.rule(rid, "every object registered as user data is created in place in a std::list or std::deque member, and "
                  "no function of the library calls an element-moving operation on a container that holds registered "
                  "objects (deque: anything but growth at the back; list: nothing but erasing single elements)")
    containers = {}     # field name -> (owner record, type)
    n = 0
    for fn, c, lhs in registrations(F):
        args = c.get("args", [])
        if len(args) < 4 or args[3].get("k") == "defarg" or _strip(args[3]).get("k") == "null":
            continue
        obj, how = _obj_text(args[3])
        # where was the object created?  a local reference / pointer initialised from C.emplace_back()
        src = None
        for d in walk(fn["body"]):
            if d.get("k") == "decl":
                for v in d.get("vars", []):
                    if v["name"] == obj and v.get("init") is not None:
                        for x in walk(v["init"]):
                            if x.get("k") == "call" and x.get("name") in ("emplace_back", "push_back"):
                                src = x
            if d.get("k") == "bin" and d.get("op") == "=" and short(d["lhs"]).replace("this->", "") == obj:
                for x in walk(d["rhs"]):
                    if x.get("k") == "call" and x.get("name") in ("emplace_back", "push_back"):
                        src = x
        where = "%s:%s" % (fn["file"], c.get("l"))
        lifted = []
        if src is None:
            # the object is a parameter of a shared helper (`declare(frame, name, type, pos, item)`): look where each caller
            # created what it passes
            pidx = [i for i, p_ in enumerate(fn.get("params", [])) if p_.get("name") == obj]
            if pidx:
                for g in F.functions.values():
                    if g.get("body") is None or g is fn:
                        continue
                    for c2 in calls(g["body"]):
                        if c2.get("name") == fn["name"] and len(c2.get("args", [])) > pidx[0] and \
                                (c2.get("fn") == fn["q"] or (c2.get("fn") or "").split("<")[0] == fn["q"].split("<")[0]):
                            a2 = _strip(c2["args"][pidx[0]])
                            while isinstance(a2, dict) and a2.get("k") == "un" and a2.get("op") in ("*", "&"):
                                a2 = _strip(a2["e"])
                            nm2 = short(a2).replace("this->", "")
                            for d in walk(g["body"]):
                                if d.get("k") == "decl":
                                    for v in d.get("vars", []):
                                        if v["name"] == nm2 and v.get("init") is not None:
                                            for x in walk(v["init"]):
                                                if x.get("k") == "call" and x.get("name") in ("emplace_back", "push_back"):
                                                    lifted.append((g, x))
                                if d.get("k") == "bin" and d.get("op") == "=" and short(d["lhs"]).replace("this->", "") == nm2:
                                    for x in walk(d["rhs"]):
                                        if x.get("k") == "call" and x.get("name") in ("emplace_back", "push_back"):
                                            lifted.append((g, x))
        if src is None and not lifted:
            # registered object handed in by the caller (currentInstanceLine): its container is checked where it is created
            chk.note("%s registers `%s`, created elsewhere" % (fn["q"], obj))
            continue
        for owner_fn, src in ([(fn, src)] if src is not None else lifted):
          n += 1
          _stable_one(chk, F, rid, owner_fn, src, where, containers)
    if n < 6:
        raise AnalysisBroken("only %d registered objects with a visible creation site" % n)
    _stable_moves(chk, F, rid, containers)


def _stable_one(chk, F, rid, fn, src, where, containers):
    if True:
        cont = _strip(src.get("recv") or {})
        cname = cont.get("name")
        ts = _field_type(F, cname) if cont.get("k") == "member" else set()
        if cont.get("k") == "member" and cont.get("of"):
            ts = {(o, t) for o, t in ts if o == cont["of"]} or ts
        ptype = (cont.get("t") or "")
        stable = any(t.startswith(STABLE) or "std::list<" in t or "std::deque<" in t for _, t in ts) or \
            ptype.startswith(STABLE) or "list<" in ptype or "deque<" in ptype
        if cont.get("k") == "member":
            for o, t in ts:
                containers[(o, cname)] = (o, t)
        chk.ob(rid, "%s|%s" % (fn["q"].split("::")[-1], cname or short(cont)), stable,
               "%s creates the registered object in `%s` (%s), whose elements move when it grows: the symbol's user "
               "data dangles" % (fn["q"], short(cont), sorted(t for _, t in ts) or ptype), where)


def _stable_moves(chk, F, rid, containers):
    # no element-moving operation on those containers anywhere
    for fn in F.functions.values():
        for c in calls(fn.get("body")):
            r = _strip(c.get("recv") or {})
            if r.get("k") != "member" or (r.get("of"), r.get("name")) not in containers:
                continue
            owner, t = containers[(r.get("of"), r["name"])]
            op = c.get("name")
            if op not in MOVING_OPS:
                continue
            is_list = "list<" in t
            ok = is_list and op in ("erase", "remove", "remove_if", "pop_front", "push_front", "emplace_front", "sort",
                                    "splice", "merge", "reverse")
            # erasing one element of a list is the documented way to remove a process; its symbol must go too
            chk.ob(rid, "op|%s.%s|%s" % (r["name"], op, fn["q"].split("::")[-1]), ok,
                   "%s calls %s() on `%s` (%s), which holds objects registered as symbol user data: %s" %
                   (fn["q"], op, r["name"], t, "other elements are moved or destroyed and their symbols dangle"),
                   "%s:%s" % (fn["file"], c.get("l")))
    chk.analysed[rid] = {"containers_with_registered_objects": {"%s::%s" % k: v[1] for k, v in containers.items()}}


def run_edge(chk, F, rid="R-EDGE"):
    chk.rule(rid, "template_t::add_edge is the only writer of edge_t::src/srcb/dst/dstb; it sets exactly one of each "
                  "pair, chosen by is_location() of the corresponding symbol; edge, location and branchpoint numbers "
                  "follow the container; the builder creates an edge only when both endpoints are a location or a "
                  "branchpoint")
    ae = F.fn("UTAP::template_t::add_edge")
    where = "%s:%s" % (ae["file"], ae["line"])
    END = ("src", "srcb", "dst", "dstb")
    writers = set()
    is_end = lambda n: n.get("k") == "member" and n.get("name") in END and n.get("of") == "UTAP::edge_t"  # noqa: E731
    for fn in F.functions.values():
        # assigned, or handed out as something that can be assigned through (non-const reference, address)
        if fn.get("body") is not None and mutable_uses(fn["body"], is_end):
            writers.add(fn["q"])
    ae = expanded_fn(ae, F)     # `attach(src, edge.src, edge.srcb)` with a local lambda / file-local helper
    chk.ob(rid, "only-writer", writers == {"UTAP::template_t::add_edge"},
           "endpoints of an edge are written outside template_t::add_edge: %s" % sorted(writers - {ae["q"]}), where)
    # the if/else pairs
    for a, b, sym in (("src", "srcb", 0), ("dst", "dstb", 1)):
        pname = ae["params"][sym]["name"]
        ok = False
        for n in walk(ae["body"]):
            if n.get("k") != "if" or n.get("else") is None:
                continue
            c = short(n["c"])
            if pname not in c or "is_location" not in c:
                continue

            def sets(block):
                out = {}
                for x in walk(block):
                    if x.get("k") == "bin" and x.get("op") == "=" and x["lhs"].get("k") == "member" and \
                            x["lhs"].get("name") in (a, b):
                        out[x["lhs"]["name"]] = "null" if _strip(x["rhs"]).get("k") == "null" else \
                            ("data:" + pname if pname in short(x["rhs"]) and "get_data" in short(x["rhs"]) else "other")
                return out
            t, e = sets(n["then"]), sets(n["else"])
            if t == {a: "data:" + pname, b: "null"} and e == {a: "null", b: "data:" + pname}:
                ok = True
        chk.ob(rid, "exactly-one|%s" % a, ok,
               "add_edge does not set exactly one of %s / %s from the %s symbol under its is_location() test: an edge "
               "would have no or two %s" % (a, b, "source" if sym == 0 else "target",
                                            "sources" if sym == 0 else "targets"), where)
    # numbering
    def nr_ok(fnq, member, cont):
        fn = F.fn(fnq)
        for n in walk(fn["body"]):
            if n.get("k") == "bin" and n.get("op") == "=" and n["lhs"].get("k") == "member" and n["lhs"].get("name") == member:
                txt = short(n["rhs"])
                if ("%s.size()" % cont in txt.replace("this->", "") and "- 1" in txt) or txt == "nr":
                    return True, fn
        return False, fn
    for fnq, member, cont in (("UTAP::template_t::add_location", "nr", "locations"),
                              ("UTAP::template_t::add_branchpoint", "bpNr", "branchpoints")):
        ok, fn = nr_ok(fnq, member, cont)
        chk.ob(rid, "number|%s" % cont, ok, "%s does not number the new element by its position in the container" % fnq,
               "%s:%s" % (fn["file"], fn["line"]))
    # an element that stays in the container must be completely initialised on every exit, exceptional ones included:
    # add_location / add_branchpoint report a duplicate name by throwing *after* the element was appended
    for fnq, members in (("UTAP::template_t::add_location", ("nr", "invariant", "exp_rate", "uid")),
                         ("UTAP::template_t::add_branchpoint", ("bpNr", "uid"))):
        fn = F.fn(fnq)
        stmts = fn["body"].get("s", [])
        first_throw = None
        for i, st in enumerate(stmts):
            if any(x.get("k") == "throw" for x in walk(st)) or \
                    any(x.get("k") == "return" for x in walk(st)) and i < len(stmts) - 1:
                first_throw = i
                break
        def helper_assigns(call, mname):
            """a file-local helper that assigns `<param>.mname` (declare(frame, name, type, pos, item): item.uid = ..)"""
            for t in F.fns(call.get("fn") or ""):
                if t.get("body") is None or t.get("cls"):
                    continue
                for y in walk(t["body"]):
                    if y.get("k") in ("bin", "call") and y.get("op") == "=":
                        l2 = y.get("lhs") or y.get("recv") or (y.get("args") or [None])[0]
                        if isinstance(l2, dict) and l2.get("k") == "member" and l2.get("name") == mname:
                            return True
            return False
        for mname in members:
            pos = None
            for i, st in enumerate(stmts):
                for x in walk(st):
                    if x.get("k") in ("bin", "call") and x.get("op") == "=":
                        lhs = x.get("lhs") or x.get("recv") or (x.get("args") or [None])[0]
                        if isinstance(lhs, dict) and lhs.get("k") == "member" and lhs.get("name") == mname:
                            pos = i if pos is None else pos
                    if x.get("k") == "call" and x.get("fn") and x.get("ck") in ("free", "static") and helper_assigns(x, mname):
                        pos = i if pos is None else pos
            ok = pos is not None and (first_throw is None or pos < first_throw)
            chk.ob(rid, "complete|%s|%s" % (fnq.split("::")[-1], mname), ok,
                   "%s can leave (throw / early return at statement %s) before assigning `%s` of the element it has "
                   "already appended: the element stays in the document with a default `%s` (numbers are no longer "
                   "dense, labels are lost)" % (fnq, first_throw, mname, mname), "%s:%s" % (fn["file"], fn["line"]))
    ok = False
    for d in walk(ae["body"]):
        if d.get("k") == "decl":
            for v in d.get("vars", []):
                if v["name"] == "nr" and v.get("init") is not None:
                    t = short(v["init"]).replace("this->", "")
                    ok = "edges.empty()" in t and "edges.back().nr + 1" in t
    chk.ob(rid, "number|edges", ok, "add_edge does not number edges consecutively from 0", where)
    # the builder's gate: on every path that reaches add_edge, both endpoint names have passed the test
    # `resolve(name, sym) && (sym is a location || sym is a branchpoint)` - whatever the shape of the tests (else-if
    # chain, early returns, an error-message flag tested afterwards, a helper or lambda computing the test)
    pe = F.nfn("UTAP::DocumentBuilder::proc_edge_begin")
    pnames = [p_["name"] for p_ in pe["params"][:2]]

    def endpoint_test(c):
        """(parameter index, truth value of c that means `test passed`) for a condition that tests one endpoint"""
        txt = short(c)
        if not ("resolve" in txt and "is_location" in txt and "is_branchpoint" in txt):
            return None
        which = [i for i, pn in enumerate(pnames) for r_ in calls(c, "resolve")
                 if r_.get("args") and any(x.get("k") == "ref" and x.get("name") == pn for x in walk(r_["args"][0]))]
        if len(set(which)) != 1:
            return None

        def val(e):     # the formula with every atom true
            e = strip(e)
            if e.get("k") == "un" and e.get("op") == "!":
                return not val(e["e"])
            if e.get("k") == "bin" and e.get("op") == "&&":
                return val(e["lhs"]) and val(e["rhs"])
            if e.get("k") == "bin" and e.get("op") == "||":
                return val(e["lhs"]) or val(e["rhs"])
            return True
        return which[0], val(c)

    def cond_mark(c, truth):
        t = endpoint_test(c)
        if t is None:
            return ()
        return ("PASS%d" % t[0],) if truth == t[1] else ("FAIL%d" % t[0],)
    probes = []
    path_states(pe["body"], lambda e: (), cond_mark, probe=lambda n: n.get("k") == "call" and n.get("name") == "add_edge",
                probes=probes, flags=flag_locals(pe["body"]))
    ok = bool(probes) and all({"PASS0", "PASS1"} <= st for _, st in probes)
    chk.ob(rid, "builder-gate", ok,
           "proc_edge_begin creates the edge without testing both endpoints to be a location or a branchpoint (the "
           "casts in add_edge would reinterpret another kind of object)", "%s:%s" % (pe["file"], pe["line"]))
    # both endpoints are resolved in the current template's scope: same template
    res = [c for c in calls(pe["body"], "resolve")]
    chk.ob(rid, "same-template", len(res) >= 2 and any(c.get("name") == "add_edge" and "currentTemplate" in short(c.get("recv"))
                                                        for c in calls(pe["body"])),
           "proc_edge_begin does not add the edge to the template in whose scope the endpoints were resolved",
           "%s:%s" % (pe["file"], pe["line"]))


def run_endpoint_null(chk, F, rid="R-ENDPTNULL"):
    """add_edge sets exactly one of src / srcb (dst / dstb) and nulls the other (R-EDGE).  Every reader of an edge must
    therefore test the pointer it follows.  (XMLWriter::source / ::target are judged by C20's R-RW.)"""
    from ..inline import sites_with_conditions, strip
    chk.rule(rid, "outside the XML writer: every `edge.src->`, `edge.dst->`, `edge.srcb->`, `edge.dstb->` is reached only "
                  "on a path that has tested that pointer")
    n = 0

    def endpoint(x):
        b = None
        if x.get("k") == "member" and x.get("arrow"):
            b = strip(x.get("base") or {})
        elif x.get("k") == "call" and x.get("arrow") and x.get("recv") is not None:
            b = strip(x["recv"])
        if isinstance(b, dict) and b.get("k") == "member" and b.get("of") == "UTAP::edge_t" and \
                b.get("name") in ("src", "dst", "srcb", "dstb"):
            return b
        return None
    for fn in sorted(F.functions.values(), key=lambda f: (f.get("file") or "", f.get("line") or 0)):
        fl = fn.get("file") or ""
        if fn.get("body") is None or fl.startswith("/usr") or "/test/" in fl or fl.endswith("xmlwriter.cpp"):
            continue
        for site, conds in sites_with_conditions(fn["body"], lambda x: endpoint(x) is not None):
            b = endpoint(site)
            txt = short(b)
            ok = False
            for c, t in conds:
                c0, neg = strip(c), False
                while isinstance(c0, dict) and c0.get("k") == "un" and c0.get("op") == "!":
                    c0, neg = strip(c0["e"]), not neg
                s_ = short(c0)
                if s_ == txt and t != neg:
                    ok = True
                if txt in s_ and "nullptr" in s_ and c0.get("k") == "bin" and c0.get("op") in ("==", "!=") and \
                        ((c0["op"] == "!=") == (t != neg)):
                    ok = True
            n += 1
            chk.ob(rid, "%s|%s" % (fn["name"], b["name"]), ok,
                   "%s follows %s without testing it: it is null for an edge whose %s is a branchpoint (edge_t::%sb is "
                   "set instead)" % (fn["q"], txt, "source" if b["name"].startswith("src") else "target", b["name"][:3]),
                   "%s:%s" % (fn["file"], site.get("l")))
    if n < 2:
        raise AnalysisBroken("only %d dereferences of edge endpoints found outside the writer" % n)


# ---------------------------------------------------------------------------------------------- R-TADEF / R-LINEUID
def run_tadef(chk, F, rid="R-TADEF"):
    """Last clause of C08: after a clean parse every timed-automaton template has an initial location.  A `dynamic T(..);`
    declaration creates a TA template whose body is expected later; found by a defect-hunt sub-agent: nothing reported a
    template that stayed declared-only (`dynamic T(); system T;`), and an <lsc> chart of the same name `defined` it."""
    from ..inline import sites_with_conditions, strip
    chk.rule(rid, "a template created by a dynamic declaration (is_defined false) is reported at the end of the parse "
                  "unless a definition arrived: DocumentBuilder::done tests is_defined of every dynamic template and "
                  "reports; is_defined is set only where the definition is a timed automaton (isTA)")
    done = F.resolve_method("UTAP::DocumentBuilder", "done")
    if done is None or done.get("body") is None:
        raise AnalysisBroken("DocumentBuilder::done not found")
    ok = False
    done = expanded_fn(done, F, accept=lambda t: bool(t.get("static")) and not t.get("cls"), maxdepth=2)

    def undefined_on_path(conds):
        """the path conditions say `is_defined` is false: `if (!t->is_defined)`, or after `if (t->is_defined) continue;`"""
        for c, t in conds:
            c0, neg = strip(c), False
            while isinstance(c0, dict) and c0.get("k") == "un" and c0.get("op") == "!":
                c0, neg = strip(c0["e"]), not neg
            if isinstance(c0, dict) and any(x.get("k") == "member" and x.get("name") == "is_defined" for x in walk(c0)) and \
                    c0.get("k") in ("member", "cast", "call") and (t != neg) is False:
                return True
        return False
    for n in walk(done["body"]):
        if n.get("k") in ("rangefor", "for", "while") and any(c.get("name") == "get_dynamic_templates" for c in calls(n)):
            for site, conds in sites_with_conditions(n.get("body") or n, lambda x: x.get("k") == "call" and x.get("name") in
                                                     ("add_error", "handle_error", "handleError")):
                if undefined_on_path(conds):
                    ok = True
    chk.ob(rid, "done|undefined dynamic template", ok,
           "DocumentBuilder::done does not report the dynamic templates that were declared but never defined: "
           "`dynamic T(); system T;` is accepted and leaves a timed-automaton template without locations and with a null "
           "init symbol", "%s:%s" % (done["file"], done["line"]))
    pb = F.resolve_method("UTAP::DocumentBuilder", "proc_begin")
    if pb is None or pb.get("body") is None:
        raise AnalysisBroken("DocumentBuilder::proc_begin not found")

    def is_set(x):
        if x.get("k") == "bin" and x.get("op") == "=":
            l = strip(x["lhs"])
            return isinstance(l, dict) and l.get("k") == "member" and l.get("name") == "is_defined"
        return False
    sites = list(sites_with_conditions(pb["body"], is_set))
    if not sites:
        raise AnalysisBroken("proc_begin does not set is_defined")
    # the template the flag is set on comes from find_dynamic_template: either that lookup or the path is conditional on isTA
    for site, conds in sites:
        on_ta = any(any(x.get("k") == "ref" and x.get("name") == "isTA" for x in walk(c)) and t for c, t in conds)
        for n in walk(pb["body"]):
            if n.get("k") == "cond" and any(c.get("name") == "find_dynamic_template" for c in calls(n.get("a") or {})) and \
                    any(x.get("k") == "ref" and x.get("name") == "isTA" for x in walk(n["c"])):
                on_ta = True
            if n.get("k") == "if" and any(x.get("k") == "ref" and x.get("name") == "isTA" for x in walk(n["c"])) and \
                    any(c.get("name") == "find_dynamic_template" for c in calls(n["then"])):
                on_ta = True
        chk.ob(rid, "proc_begin|is_defined only for a timed automaton", on_ta,
               "DocumentBuilder::proc_begin marks the template of a dynamic declaration as defined for every definition of "
               "that name, timed automaton or not: an <lsc> chart named like the dynamic template is merged into it and the "
               "template counts as defined without having a location", "%s:%s" % (pb["file"], site.get("l")))


def run_lineuid(chk, F, rid="R-LINEUID"):
    """instance_t: `i.uid.get_data() == &i`.  An instance line is created first (proc_instance_line) and named later; the
    callback for the form with arguments named it on the success path only (E08-2)."""
    from ..inline import sites_with_conditions, strip
    chk.rule(rid, "DocumentBuilder::instance_name_end gives the current instance line its symbol on every path: a call of "
                  "instance_name that is conditional at most on the line existing and not having a symbol yet")
    fn = F.resolve_method("UTAP::DocumentBuilder", "instance_name_end")
    if fn is None or fn.get("body") is None:
        raise AnalysisBroken("DocumentBuilder::instance_name_end not found")
    sites = list(sites_with_conditions(fn["body"], lambda x: x.get("k") == "call" and x.get("name") == "instance_name"))
    if not sites:
        raise AnalysisBroken("instance_name_end does not call instance_name")

    def benign(c):
        names = {x.get("name") for x in walk(c) if x.get("k") in ("ref", "member")}
        return bool(names) and names <= {"currentInstanceLine", "uid", "currentTemplate"} | {None}
    ok = any(all(benign(c) for c, t in conds) for site, conds in sites)
    chk.ob(rid, "instance_name_end", ok,
           "DocumentBuilder::instance_name_end names the instance line only on the path on which the name is a template with "
           "the right number of arguments: on the others the line stays in template_t::instances with a null uid "
           "(`<instance><name>X(1)</name></instance>` without a template X, silently)", "%s:%s" % (fn["file"], fn["line"]))


# ---------------------------------------------------------------------------------------------- R-UIDSRC
UID_OWNERS = ("variable_t", "function_t", "location_t", "branchpoint_t", "template_t", "instance_t", "instance_line_t",
              "declarations_t")


def run_uidsrc(chk, F, rid="R-UIDSRC"):
    """The converse of R-SELFREG: the `uid` of a document object is written only with the symbol that a registering
    add_symbol call has just created for that object.  A uid taken from anywhere else - a symbol found by resolve() - names
    an object that is the user data of *another* object (round 7: a duplicate LSC instance line was given the symbol of the
    line declared first; three lines, two symbols)."""
    chk.rule(rid, "every assignment to the member `uid` of a document object (%s) has as its value a frame_t::add_symbol "
                  "call that registers that same object, or the uid of the object it is a copy of inside a copy operation "
                  "of the class itself" % ", ".join(UID_OWNERS))
    n = 0
    for fn in sorted(F.functions.values(), key=lambda f: (f.get("file") or "", f.get("line") or 0)):
        fl = fn.get("file") or ""
        if fn.get("body") is None or fl.startswith("/usr") or "/test/" in fl:
            continue
        for x in walk(fn["body"]):
            lhs = rhs = None
            if x.get("k") == "bin" and x.get("op") == "=":
                lhs, rhs = x["lhs"], x["rhs"]
            elif x.get("k") == "call" and x.get("ck") == "op" and x.get("op") == "=" and x.get("recv") is not None and x.get("args"):
                lhs, rhs = x["recv"], x["args"][0]
            if lhs is None:
                continue
            l = _strip(lhs)
            if not (l.get("k") == "member" and l.get("name") == "uid" and any((l.get("of") or "").endswith(o) for o in UID_OWNERS)):
                continue
            n += 1
            owner = short(_strip(l.get("base"))).replace("this->", "") if l.get("base") is not None else "this"
            r = _strip(rhs)
            while isinstance(r, dict) and r.get("k") == "construct" and len(r.get("args", [])) == 1:
                r = _strip(r["args"][0])
            ok, why = False, "its value is `%s`" % short(r)[:50]
            if isinstance(r, dict) and r.get("k") == "call" and r.get("name") == "add_symbol" and len(r.get("args", [])) >= 4:
                obj, how = _obj_text(r["args"][3])
                ok = obj == owner
                why = "the symbol registers `%s`" % obj
            elif (fn.get("cls") or "").split("::")[-1] in UID_OWNERS and (fn.get("name") in ("operator=",) or
                                                                        fn.get("name") == (fn.get("cls") or "").split("::")[-1]):
                ok = True       # copy / move operation of the class
            chk.ob(rid, "%s|%s.uid" % (fn["q"].replace("UTAP::", ""), owner), ok,
                   "%s assigns `%s.uid` a symbol that is not the one created for that object (%s): the object stays "
                   "reachable from the document, but the user data of its symbol is a different object" %
                   (fn["q"], owner, why), "%s:%s" % (fl, x.get("l")), sample="%s.uid = add_symbol(.., %s)" % (owner, owner))
    if n < 4:
        raise AnalysisBroken("R-UIDSRC: only %d assignments to a uid found" % n)
